#!/usr/bin/env python3
"""mutate.py [--jobs N] [--out DIR] [--only REGEX] [--limit N] [--shuffle SEED] [--list]

Mutation sweep: a development tool, not a registered check.  For every small syntactic mutation of the non-test source of the
three crates (one operator / literal / negation / min-max / assertion at a time) it asks, in a scratch copy of /repo outside
/repo and /verif (one per worker, removed at the end):

  1. does the mutant still build and does the workspace's own test suite still pass?  (if not: `nobuild` / `tests`)
  2. if so, which of the registered checks report it (MB2_REPO=<scratch copy>)?

A mutant that survives (1) and is reported by no check is a `SURVIVOR`: either an equivalent mutant, or code no property speaks
about, or a gap in the rules.  The survivors are written to <out>/survivors.jsonl for triage by reading; the triage is recorded
in DESIGN.md.  Results are appended to <out>/results.jsonl (one line per mutant) so an interrupted sweep can be resumed."""
import hashlib
import json
import os
import random
import re
import shutil
import subprocess
import sys
import tempfile
import threading
import time

HERE = os.path.dirname(os.path.dirname(os.path.abspath(__file__)))
REPO = "/repo"
CRATES = ["multiboot2-common", "multiboot2", "multiboot2-header"]
SKIP_FILES = {"multiboot2-common/src/test_utils.rs"}

REL = [(" < ", " <= "), (" <= ", " < "), (" > ", " >= "), (" >= ", " > "), (" == ", " != "), (" != ", " == "),
       (" < ", " > "), (" <= ", " >= "), (" >= ", " <= "), (" > ", " < ")]
ARI = [(" + ", " - "), (" - ", " + "), (" * ", " / "), (" / ", " * "), (" % ", " / "), (" << ", " >> "), (" >> ", " << "),
       (" & ", " | "), (" | ", " & ")]
LOG = [(" && ", " || "), (" || ", " && ")]
WORDS = [(".min(", ".max("), (".max(", ".min("), ("saturating_sub", "wrapping_sub"), ("wrapping_add", "saturating_add"),
         ("wrapping_sub", "saturating_sub"), ("checked_add", "checked_sub"), ("true", "false"), ("false", "true"),
         ("to_le_bytes", "to_be_bytes"), ("from_le_bytes", "from_be_bytes"), ("to_ne_bytes", "to_be_bytes"),
         (".first()", ".last()"), (".last()", ".first()"), ("is_some()", "is_none()"), ("is_none()", "is_some()"),
         ("is_empty()", "len() == 1"), ("assert_eq!(", "assert_ne!("), ("u32::from(", "u32::from(1 + "),
         (".find(", ".rfind("), (".position(", ".rposition("), (".next()", ".next_back()"), (".skip(1)", ".skip(0)"),
         ("size_of::<u32>()", "size_of::<u64>()"), ("size_of::<u64>()", "size_of::<u32>()"), ("size_of::<u16>()", "size_of::<u32>()"),
         ("size_of::<u8>()", "size_of::<u16>()"), (" as u8", " as u16"), (" as u16", " as u8"), (" as u32", " as u16"),
         ("ALIGNMENT", "(ALIGNMENT / 2)"), ("mem::size_of::<Self>()", "(mem::size_of::<Self>() + 1)"),
         ("size_of::<Self>()", "(size_of::<Self>() - 1)")]


def code_part(line):
    """(code, rest) with a trailing // comment split off (string literals respected roughly)"""
    instr = False
    i = 0
    while i < len(line):
        c = line[i]
        if c == '"' and (i == 0 or line[i - 1] != "\\"):
            instr = not instr
        elif not instr and line.startswith("//", i):
            return line[:i], line[i:]
        i += 1
    return line, ""


def strip_strings(code):
    """positions inside string literals are masked so operators / numbers in them are not mutated"""
    out = []
    instr = False
    for i, c in enumerate(code):
        if c == '"' and (i == 0 or code[i - 1] != "\\"):
            instr = not instr
            out.append(c)
        else:
            out.append("\0" if instr else c)
    return "".join(out)


def enumerate_mutants():
    muts = []
    for crate in CRATES:
        base = os.path.join(REPO, crate, "src")
        for root, _, files in os.walk(base):
            for f in sorted(files):
                if not f.endswith(".rs"):
                    continue
                rel = os.path.relpath(os.path.join(root, f), REPO)
                if rel in SKIP_FILES:
                    continue
                lines = open(os.path.join(REPO, rel)).read().split("\n")
                # cut the test module (always the last item of a file in this repository)
                end = len(lines)
                for i, l in enumerate(lines):
                    if re.match(r"#\[cfg\((all\()?test\b", l.strip()) and i + 1 < len(lines) and lines[i + 1].lstrip().startswith("mod "):
                        end = i
                        break
                in_block_comment = False
                # fields of the structs of this file, grouped by declared type: candidates for `self.f` -> `self.g`
                same_type_fields = {}
                by_struct = []
                cur = None
                for l in lines[:end]:
                    ms = re.match(r"\s*(pub(\([a-z]+\))? )?struct \w+.*\{\s*$", l)
                    if ms:
                        cur = []
                        continue
                    if cur is not None:
                        if l.strip().startswith("}"):
                            by_struct.append(cur)
                            cur = None
                            continue
                        mf = re.match(r"\s*(pub(\([a-z]+\))? )?([a-z_]\w*): ([^,]+),?\s*$", l)
                        if mf:
                            cur.append((mf.group(3), mf.group(4).strip()))
                for flds_ in by_struct:
                    for f_, t_ in flds_:
                        for g_, u_ in flds_:
                            if g_ != f_ and u_ == t_:
                                same_type_fields.setdefault(f_, [])
                                if g_ not in same_type_fields[f_]:
                                    same_type_fields[f_].append(g_)
                for ln in range(end):
                    raw = lines[ln]
                    st = raw.strip()
                    if in_block_comment:
                        if "*/" in st:
                            in_block_comment = False
                        continue
                    if st.startswith("/*"):
                        in_block_comment = "*/" not in st
                        continue
                    if not st or st.startswith("//") or st.startswith("#[") or st.startswith("#!["):
                        continue
                    if st.startswith("use ") or st.startswith("pub use ") or st.startswith("extern crate"):
                        continue
                    code, rest = code_part(raw)
                    masked = strip_strings(code)

                    def add(pos, old, new, kind):
                        newline = code[:pos] + new + code[pos + len(old):] + rest
                        muts.append({"file": rel, "line": ln + 1, "kind": kind, "old": old.strip(), "new": new.strip(),
                                     "orig": raw, "mut": newline})
                    for table, kind in ((REL, "rel"), (ARI, "ari"), (LOG, "log"), (WORDS, "word")):
                        for old, new in table:
                            start = 0
                            while True:
                                pos = masked.find(old, start)
                                if pos < 0:
                                    break
                                start = pos + 1
                                if kind == "rel" and old in (" < ", " > ") and re.search(r"(impl|fn|struct|enum|type|trait)\b[^;{]*$", masked[:pos]) and not re.search(r"\b(if|while|assert!?|return|=)\b", masked[:pos]):
                                    continue  # generics in a signature
                                if kind == "ari" and old == " & " and masked[pos + 3:pos + 4] in ("'", "m", "[", "s") and "&" == masked[pos + 1]:
                                    pass
                                add(pos, old, new, kind)
                    # `!x` -> `x`
                    for m in re.finditer(r"(?<![=!<>\w\]\)])!(?=[\w(])(?!\[)", masked):
                        if masked[m.start():m.start() + 2] == "!=":
                            continue
                        # macros `name!(`: the `!` follows a word char and is excluded by the look-behind
                        add(m.start(), "!", "", "neg")
                    # integer literals
                    for m in re.finditer(r"(?<![\w.])(0x[0-9a-fA-F_]+|\d[\d_]*)(?![\w.]*\w)", masked):
                        tok = m.group(1)
                        try:
                            v = int(tok.replace("_", ""), 0)
                        except ValueError:
                            continue
                        hexa = tok.lower().startswith("0x")
                        fmt = (lambda x: hex(x)) if hexa else (lambda x: str(x))
                        add(m.start(), tok, fmt(v + 1), "lit")
                        if v >= 1:
                            add(m.start(), tok, fmt(v - 1), "lit")
                    # truncating casts
                    for old_, new_ in ((" as usize", " as u8 as usize"), (" as u64", " as u32 as u64"), (" as u32", " as u16 as u32"), (" as usize", " as u16 as usize")):
                        start = 0
                        while True:
                            pos = masked.find(old_, start)
                            if pos < 0:
                                break
                            start = pos + 1
                            add(pos, old_, new_, "trunc")
                    # swapped adjacent identifier arguments `(a, b` -> `(b, a`
                    for m in re.finditer(r"(?<=[(,] )?\b([a-z_][\w.]*), ([a-z_][\w.]*)(?=[,)])", masked):
                        a_, b_ = m.group(1), m.group(2)
                        if a_ != b_ and masked[max(0, m.start() - 1)] in "( ":
                            add(m.start(), m.group(0), "%s, %s" % (b_, a_), "args")
                    # `self.f` -> `self.g` for another field g of a struct of this file with the same declared type
                    for m in (re.finditer(r"\bself\.([a-z_]\w*)\b(?!\s*\()", masked) if ".field(" not in masked else ()):  # (Debug text: no property)
                        f_ = m.group(1)
                        for g_ in same_type_fields.get(f_, ()):
                            add(m.start(), m.group(0), "self." + g_, "field")
                    # a statement removed (calls / assignments; not declarations, returns or macros handled elsewhere)
                    if re.match(r"\s*[a-z_*(][^;]*;\s*$", code) and not re.match(r"\s*(let|use|pub|const|type|return|static|mod|fn|impl|struct|enum|assert|debug_assert|break|continue)\b", code) \
                            and code.count("(") == code.count(")") and code.count("{") == code.count("}"):
                        muts.append({"file": rel, "line": ln + 1, "kind": "stmt", "old": st, "new": "", "orig": raw,
                                     "mut": re.match(r"\s*", raw).group(0) + "// (statement removed)"})
                    # single-line assertion dropped
                    if re.match(r"\s*(assert|assert_eq|assert_ne)!\(.*\);\s*$", code):
                        muts.append({"file": rel, "line": ln + 1, "kind": "drop", "old": st, "new": "", "orig": raw,
                                     "mut": re.match(r"\s*", raw).group(0) + "// (assertion removed)"})
                    # `?`-less / early-return dropped: `return Err(..);` lines
                    if re.match(r"\s*return (Err|None)\b.*;\s*$", code):
                        muts.append({"file": rel, "line": ln + 1, "kind": "drop", "old": st, "new": "", "orig": raw,
                                     "mut": re.match(r"\s*", raw).group(0) + "// (early return removed)"})
    # unique ids, deduplicated
    seen = set()
    out = []
    for m in muts:
        if m["mut"] == m["orig"]:
            continue
        key = (m["file"], m["line"], m["mut"])
        if key in seen:
            continue
        seen.add(key)
        m["id"] = hashlib.sha1(("%s:%d:%s" % key).encode()).hexdigest()[:10]
        out.append(m)
    return out


def sh(cmd, cwd, env, timeout=1800):
    try:
        r = subprocess.run(cmd, cwd=cwd, env=env, shell=True, stdout=subprocess.PIPE, stderr=subprocess.STDOUT, text=True, timeout=timeout)
        return r.returncode, r.stdout
    except subprocess.TimeoutExpired:
        return 124, "TIMEOUT"


class Worker(threading.Thread):
    def __init__(self, k, queue, lock, outdir, checks):
        super().__init__()
        self.k, self.queue, self.lock, self.outdir, self.checks = k, queue, lock, outdir, checks

    def run(self):
        scratch = tempfile.mkdtemp(prefix="mb2mut%d." % self.k)
        try:
            repo = os.path.join(scratch, "repo")
            shutil.copytree(REPO, repo, ignore=shutil.ignore_patterns("target", ".git", "integration-test"))
            env = dict(os.environ, CARGO_NET_OFFLINE="true", CARGO_TARGET_DIR=os.path.join(scratch, "target"), CARGO_BUILD_JOBS="2")
            while True:
                with self.lock:
                    if not self.queue:
                        return
                    m = self.queue.pop(0)
                res = self.one(m, repo, env, scratch)
                with self.lock:
                    with open(os.path.join(self.outdir, "results.jsonl"), "a") as fh:
                        fh.write(json.dumps(res) + "\n")
                    tag = res["status"]
                    print("[%s] %s %s:%d %s `%s`->`%s` %s" % (time.strftime("%H:%M:%S"), tag, m["file"], m["line"], m["kind"], m["old"][:30], m["new"][:30],
                                                             ",".join(sorted(res.get("fired", {})))), flush=True)
        finally:
            shutil.rmtree(scratch, ignore_errors=True)

    def one(self, m, repo, env, scratch):
        path = os.path.join(repo, m["file"])
        src = open(path).read()
        lines = src.split("\n")
        assert lines[m["line"] - 1] == m["orig"], (m, lines[m["line"] - 1])
        lines[m["line"] - 1] = m["mut"]
        res = {k: m[k] for k in ("id", "file", "line", "kind", "old", "new", "orig", "mut")}
        try:
            open(path, "w").write("\n".join(lines))
            rc, o = sh("cargo test --workspace --offline --no-fail-fast 2>&1 | grep -E '^test result|FAILED|^error|panicked' | head -20", repo, env)
            if "error" in o and "test result" not in o:
                res["status"] = "nobuild"
                return res
            if "FAILED" in o or "error" in o or o.count("test result: ok") < 5:
                res["status"] = "tests"
                return res
            fired = {}
            cache = os.path.join(scratch, "cache")
            env2 = dict(os.environ, MB2_REPO=repo, MB2_OUT_DIR=os.path.join(scratch, "out"), MB2_EVIDENCE_DIR=os.path.join(scratch, "ev"),
                        MB2_CACHE_DIR=cache)
            for pid in self.checks:
                r = subprocess.run([os.path.join(HERE, "check"), pid, "--tier", "quick"], env=env2, stdout=subprocess.PIPE, stderr=subprocess.STDOUT, text=True)
                vp = os.path.join(scratch, "out", "%s.violations.json" % pid)
                if r.returncode == 1:
                    try:
                        fired[pid] = [v["key"] for v in json.load(open(vp))][:4]
                    except Exception:
                        fired[pid] = ["?"]
                elif r.returncode != 0:
                    fired[pid] = ["INFRA rc=%d %s" % (r.returncode, r.stdout[-200:])]
            shutil.rmtree(cache, ignore_errors=True)
            shutil.rmtree(os.path.join(scratch, "out"), ignore_errors=True)
            res["fired"] = fired
            res["status"] = "caught" if fired else "SURVIVOR"
            return res
        finally:
            open(path, "w").write(src)


def main():
    args = sys.argv[1:]
    def opt(name, default=None):
        return args[args.index(name) + 1] if name in args else default
    jobs = int(opt("--jobs", "8"))
    outdir = os.path.abspath(opt("--out", "mutation-out"))
    only = opt("--only")
    limit = int(opt("--limit", "0"))
    muts = enumerate_mutants()
    if only:
        muts = [m for m in muts if re.search(only, "%s:%d:%s" % (m["file"], m["line"], m["kind"]))]
    if "--shuffle" in args:
        random.Random(int(opt("--shuffle"))).shuffle(muts)
    if "--skip" in args:
        muts = muts[int(opt("--skip")):]
    if "--list" in args:
        for m in muts:
            print("%s %s:%d %s | %s" % (m["id"], m["file"], m["line"], m["kind"], m["mut"].strip()[:110]))
        print(len(muts), "mutants")
        return 0
    os.makedirs(outdir, exist_ok=True)
    done = set()
    rp = os.path.join(outdir, "results.jsonl")
    if os.path.exists(rp):
        for l in open(rp):
            try:
                done.add(json.loads(l)["id"])
            except Exception:
                pass
    muts = [m for m in muts if m["id"] not in done]
    if limit:
        muts = muts[:limit]
    print("%d mutants to run (%d done before), %d workers" % (len(muts), len(done), jobs), flush=True)
    man = json.load(open(os.path.join(HERE, "MANIFEST.json")))
    checks = [c["property_id"] for c in man["checks"]]
    lock = threading.Lock()
    ws = [Worker(k, muts, lock, outdir, checks) for k in range(jobs)]
    for w in ws:
        w.start()
    for w in ws:
        w.join()
    # summary
    stats = {}
    surv = []
    for l in open(rp):
        r = json.loads(l)
        stats[r["status"]] = stats.get(r["status"], 0) + 1
        if r["status"] == "SURVIVOR":
            surv.append(r)
    with open(os.path.join(outdir, "survivors.jsonl"), "w") as fh:
        for r in surv:
            fh.write(json.dumps(r) + "\n")
    print(json.dumps(stats))
    return 0


if __name__ == "__main__":
    sys.exit(main())
