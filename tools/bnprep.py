#!/usr/bin/env python3
"""bnprep.py [-k substr] : build the scratch copies tools/bnall.py runs against - $BNW (/tmp/bnw)/<ID>_<k>/repo = /repo with
/verif/benign/<ID>/<k>/patch.diff applied.  Outside /repo and /verif; remove $BNW when done."""
import os, shutil, subprocess, sys
HERE = os.path.dirname(os.path.dirname(os.path.abspath(__file__)))
BASE = os.environ.get("BNW", "/tmp/bnw")
sel = sys.argv[sys.argv.index("-k") + 1] if "-k" in sys.argv else None
n = bad = 0
for pid in sorted(d for d in os.listdir(os.path.join(HERE, "benign")) if os.path.isdir(os.path.join(HERE, "benign", d))):
    for k in sorted(os.listdir(os.path.join(HERE, "benign", pid))):
        name = "%s_%s" % (pid, k)
        patch = os.path.join(HERE, "benign", pid, k, "patch.diff")
        if (sel and sel not in name) or not os.path.exists(patch):
            continue
        w = os.path.join(BASE, name)
        shutil.rmtree(w, ignore_errors=True)
        os.makedirs(w)
        shutil.copytree("/repo", os.path.join(w, "repo"), ignore=shutil.ignore_patterns("target", ".git", "integration-test"))
        r = subprocess.run(["patch", "-p1", "-s", "-i", patch], cwd=os.path.join(w, "repo"), stdout=subprocess.PIPE, stderr=subprocess.STDOUT, text=True)
        n += 1
        if r.returncode != 0:
            bad += 1
            print("patch does not apply:", name, r.stdout[-200:])
            shutil.rmtree(w, ignore_errors=True)
print("%d copies under %s (%d patches did not apply)" % (n - bad, BASE, bad))
