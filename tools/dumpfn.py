#!/usr/bin/env python3
"""dumpfn.py <substr> [--poly] [--cfg A] [--blocks] : print the return term (N-form) / blocks of matching functions of MB2_REPO (default /repo)"""
import sys, os, json
HERE = os.path.dirname(os.path.dirname(os.path.abspath(__file__)))
sys.path.insert(0, HERE)
from mb2rules import facts, an, guard as G
from mb2rules.guard import N
sub = sys.argv[1]
cfg = sys.argv[sys.argv.index("--cfg") + 1] if "--cfg" in sys.argv else "A"
F = facts.load(cfg)
tab = F.fns if "--poly" in sys.argv else F.insts
print("inline report:", json.dumps(F.inline_report)[:600])
for k, v in tab.items():
    if sub not in k:
        continue
    print("=" * 8, k, "inlined:", v.get("inlined"))
    A = an.of(F, v)
    b = A.body
    print("return blocks", b.return_blocks, "back edges", b.back_edges())
    rt, facts_ = A.ret()
    if rt is not None:
        print("RET  ", G.show(N(rt))[:1500])
        print("FACTS", [G.show(N(f))[:160] for f in facts_][:12])
    else:
        for rb in b.return_blocks:
            at = (rb, len(b.stmts(rb)))
            print("RET@%d" % rb, G.show(N(A.tb.read(0, (), at)))[:1200])
    if "--blocks" in sys.argv:
        for bi in sorted(b.reachable):
            bb = b.blocks[bi]
            print(" bb%d" % bi)
            for st in bb["s"]:
                print("    ", json.dumps({k2: v2 for k2, v2 in st.items() if k2 != "span"})[:260])
            t = bb["t"]
            tt = dict(t)
            if t["k"] == "call":
                tt["f"] = (t["f"].get("k") or {}).get("fn", {}).get("pretty")
            print("   T:", json.dumps({k2: v2 for k2, v2 in tt.items() if k2 not in ("span", "fn_span")})[:300])
