#!/usr/bin/env python3
"""obs.py <PROP> [substring] : print every obligation of a check (status, rule, key, how) - MB2_REPO selects the tree"""
import importlib, os, sys
HERE = os.path.dirname(os.path.dirname(os.path.abspath(__file__)))
if os.environ.get("PYTHONHASHSEED") != "0":
    os.environ["PYTHONHASHSEED"] = "0"
    os.execv(sys.executable, [sys.executable] + sys.argv)
sys.path.insert(0, HERE)
from mb2rules import core
prop = sys.argv[1]
sub = sys.argv[2] if len(sys.argv) > 2 else ""
mod = importlib.import_module("mb2rules.props.%s" % prop.lower())
ctx = core.Ctx(prop, os.environ.get("VERIF_TIER", "quick"))
ctx._imported = True
mod.run(ctx)
for o in ctx.obs:
    line = "%-5s %s:%s | %s | %s" % (o.status, o.rule, o.key, o.desc[:150], (o.how or "")[:int(os.environ.get("W", "300"))])
    if sub in line:
        print(line)
