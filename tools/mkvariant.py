#!/usr/bin/env python3
"""mkvariant.py <benign ID_k | -> <out.diff> [--expect KEY] (file old new)+
Build a selftest patch on top of a behaviour-preserving refactor: take /verif/benign/<ID>/<k>/patch.diff applied to a scratch
copy of /repo (or plain /repo for `-`), apply the textual replacements, and write the diff against /repo."""
import os, shutil, subprocess, sys, tempfile
args = sys.argv[1:]
base, out = args[0], args[1]
rest = args[2:]
expect = None
if rest and rest[0] == "--expect":
    expect = rest[1]
    rest = rest[2:]
scratch = tempfile.mkdtemp(prefix="mkv.")
try:
    a = os.path.join(scratch, "a")
    b = os.path.join(scratch, "b")
    for d in (a, b):
        shutil.copytree("/repo", d, ignore=shutil.ignore_patterns("target", ".git", "integration-test"))
    if base != "-":
        pid, k = base.split("_")
        subprocess.run(["patch", "-p1", "-s", "-i", "/verif/benign/%s/%s/patch.diff" % (pid, k)], cwd=b, check=True)
    for i in range(0, len(rest), 3):
        f, old, new = rest[i:i + 3]
        p = os.path.join(b, f)
        s = open(p).read()
        if s.count(old) != 1:
            sys.exit("replacement text occurs %d times in %s" % (s.count(old), f))
        open(p, "w").write(s.replace(old, new))
    r = subprocess.run(["diff", "-ruN", "--label", "a", "--label", "b", "a", "b"], cwd=scratch, stdout=subprocess.PIPE, text=True)
    txt = r.stdout
    # rewrite headers to a/ b/ relative paths
    lines = []
    for line in txt.splitlines(True):
        if line.startswith("diff -ruN"):
            parts = line.split()
            lines.append("diff --git %s %s\n" % (parts[-2], parts[-1]))
        else:
            lines.append(line)
    r2 = subprocess.run("diff -ruN a b", cwd=scratch, shell=True, stdout=subprocess.PIPE, text=True)
    with open(out, "w") as fh:
        if expect:
            fh.write("# expect: %s\n" % expect)
        fh.write("# built on the behaviour-preserving refactor %s\n" % base)
        fh.write(r2.stdout)
    print("wrote", out, len(r2.stdout.splitlines()), "lines")
finally:
    shutil.rmtree(scratch, ignore_errors=True)
