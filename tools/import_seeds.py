#!/usr/bin/env python3
"""import_seeds.py <round> <out dir> : copy the seeded changes a round of sub-agents delivered in <out dir>/<ID>/{a,b}/ (patch.diff,
demo *.rs, meta.json, and seedcheck.json = the output of tools/seedcheck.py on that directory) to /verif/seeded/<ID>-<round>{a,b}/
with the meta.json layout of the earlier rounds.  Only changes whose confirmation flags are all true are imported."""
import json, os, shutil, sys
HERE = os.path.dirname(os.path.dirname(os.path.abspath(__file__)))
rnd, out = sys.argv[1], sys.argv[2]
HOW = ("tools/seedcheck.py <dir>: scratch copy of /repo outside /repo and /verif; patch applied; `cargo test --workspace --offline --no-fail-fast` green; "
       "demo copied to <demo_crate>/tests/ and run with `cargo test -p <demo_crate> --offline --test <demo>`: fails with the patch, passes with it "
       "reverted; then every registered check run with MB2_REPO=<scratch copy>; scratch removed")
n = skipped = 0
for pid in sorted(os.listdir(out)):
    for k in ("a", "b"):
        d = os.path.join(out, pid, k)
        if not os.path.exists(os.path.join(d, "patch.diff")):
            continue
        try:
            sc = json.load(open(os.path.join(d, "seedcheck.json")))
            am = json.load(open(os.path.join(d, "meta.json")))
        except Exception as e:
            print("skip %s/%s: %s" % (pid, k, e)); skipped += 1; continue
        flags = {f: sc.get(f) for f in ("patch_applies", "suite_green_with_change", "demo_fails_with_change", "demo_passes_without")}
        if not all(flags.values()):
            print("skip %s/%s: not confirmed %s" % (pid, k, flags)); skipped += 1; continue
        dst = os.path.join(HERE, "seeded", "%s-%s%s" % (pid, rnd, k))
        os.makedirs(dst, exist_ok=True)
        demos = [f for f in os.listdir(d) if f.endswith(".rs")]
        for f in demos + ["patch.diff"]:
            shutil.copy(os.path.join(d, f), os.path.join(dst, f))
        meta = {"property": pid, "round": int(rnd), "demo_crate": am.get("demo_crate"), "demo_files": demos, "summary": am.get("summary"),
                "what_it_needs_to_manifest": am.get("what_it_needs_to_manifest"), "files_changed": am.get("files_changed"),
                "author": "fresh sub-agent given only the property text and a scratch git worktree of /repo",
                "author_commands_run": am.get("commands_run"),
                "confirmed": dict(how=HOW, **flags),
                "checks_fired_when_first_run": sc.get("checks_fired", {}), "checks_fired": sc.get("checks_fired", {})}
        json.dump(meta, open(os.path.join(dst, "meta.json"), "w"), indent=1)
        n += 1
print("imported %d, skipped %d" % (n, skipped))
