#!/usr/bin/env python3
"""fill_tables.py <round>... : replace the @TABLE<n>@ placeholders of DESIGN.md §16 by the output of tools/seed_table.py <n>"""
import os, subprocess, sys
HERE = os.path.dirname(os.path.dirname(os.path.abspath(__file__)))
p = os.path.join(HERE, "DESIGN.md")
s = open(p).read()
for n in sys.argv[1:]:
    tag = "@TABLE%s@" % n
    if tag not in s:
        print("no placeholder", tag); continue
    t = subprocess.run([sys.executable, os.path.join(HERE, "tools", "seed_table.py"), n], stdout=subprocess.PIPE, text=True, check=True).stdout.rstrip("\n")
    s = s.replace(tag, t)
open(p, "w").write(s)
