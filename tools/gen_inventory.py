#!/usr/bin/env python3
"""gen_inventory.py : write mb2rules/inventory.json = the functions of the three crates that exist on the current /repo tree
(all four configurations), identified position- and generics-free.  Run ONLY on the reference tree (pinned commit + fix:
commits); the rules treat every repo function outside this list as a helper and analyse it inlined into its callers."""
import json, os, sys
HERE = os.path.dirname(os.path.dirname(os.path.abspath(__file__)))
sys.path.insert(0, HERE)
os.environ["MB2_NO_INLINE"] = "1"
from mb2rules import facts, inline
ids = set()
for cfg in "ABCD":
    F = facts.Facts(cfg)
    for tab in (F.fns, F.insts):
        for k, v in tab.items():
            if v.get("closure") or "{closure" in k:
                continue
            ids.add(inline.inv_id(v))
out = {"tree": facts.tree_hash(), "functions": sorted(ids)}
json.dump(out, open(os.path.join(HERE, "mb2rules", "inventory.json"), "w"), indent=0)
print(len(ids), "functions")
