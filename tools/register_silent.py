#!/usr/bin/env python3
"""register_silent.py <bnall log> : for every refactor reported `silent` in a tools/bnall.py log (sections `== /tmp/bnw<N>`),
make sure /verif/selftest/<ID>/silent-all-bn<letter><k>.diff exists (the benign patch as a diff against /repo; the self-test
runs every check on it).  Batch letters: bnw -> '', bnw2 -> b, bnw3 -> c, bnw4 -> d, bnw5 -> e, bnw6 -> f, bnw7 -> g, bnw8 -> h, bnw9 -> i, bnw10 -> j, bnw11 -> k."""
import os, re, subprocess, sys
HERE = os.path.dirname(os.path.dirname(os.path.abspath(__file__)))
letter = {"/tmp/bnw": "", "/tmp/bnw2": "b", "/tmp/bnw3": "c", "/tmp/bnw4": "d", "/tmp/bnw5": "e", "/tmp/bnw6": "f",
          "/tmp/bnw7": "g", "/tmp/bnw8": "h", "/tmp/bnw9": "i", "/tmp/bnw10": "j", "/tmp/bnw11": "k"}
cur = None
made = have = 0
for line in open(sys.argv[1]):
    line = line.strip()
    if line.startswith("== "):
        cur = letter.get(line[3:].strip())
        continue
    m = re.match(r"^(C\d\d)_(\d) silent$", line)
    if not m or cur is None:
        continue
    pid, k = m.groups()
    d = os.path.join(HERE, "selftest", pid)
    existing = [f for f in os.listdir(d) if f.startswith("silent-all-bn%s%s" % (cur, k)) and f.endswith(".diff")]
    # names used so far: silent-all-bn<k>, silent-all-bn<letter><k>
    if existing:
        have += 1
        continue
    out = os.path.join(d, "silent-all-bn%s%s.diff" % (cur, k))
    r = subprocess.run([os.path.join(HERE, "tools", "mkvariant.py"), "%s%s_%s" % (pid, cur, k), out], stdout=subprocess.PIPE, stderr=subprocess.STDOUT, text=True)
    if r.returncode != 0:
        print("FAILED", pid, cur, k, r.stdout[-200:])
    else:
        made += 1
print("already registered %d, newly registered %d" % (have, made))
