#!/usr/bin/env python3
"""seedcheck_all.py [--demo] [ID...] : run tools/seedcheck.py over /verif/seeded/<ID>/ (default: all, checks only) and
refresh meta.json["checks_fired"] (and, with --demo, the confirmation flags).  Exits 1 if a seed's own property does not fire
or (with --demo) a confirmation flag is false."""
import json, os, subprocess, sys
from concurrent.futures import ThreadPoolExecutor
HERE = os.path.dirname(os.path.dirname(os.path.abspath(__file__)))


def one(pid, demo):
    d = os.path.join(HERE, "seeded", pid)
    cmd = [os.path.join(HERE, "tools", "seedcheck.py"), d] + ([] if demo else ["--no-demo"])
    r = subprocess.run(cmd, stdout=subprocess.PIPE, stderr=subprocess.PIPE, text=True)
    try:
        out = json.loads(r.stdout)
    except Exception:
        return pid, None, r.stdout[-400:] + r.stderr[-400:]
    mp = os.path.join(d, "meta.json")
    meta = json.load(open(mp))
    meta["checks_fired"] = out.get("checks_fired", {})
    if demo:
        for k in ("patch_applies", "suite_green_with_change", "demo_fails_with_change", "demo_passes_without"):
            meta["confirmed"][k] = out.get(k)
    json.dump(meta, open(mp, "w"), indent=1)
    return pid, meta, None


def main():
    demo = "--demo" in sys.argv
    ids = [a for a in sys.argv[1:] if not a.startswith("--")] or sorted(os.listdir(os.path.join(HERE, "seeded")))
    bad = 0
    with ThreadPoolExecutor(max_workers=int(os.environ.get("SEED_JOBS", "4"))) as ex:
        for pid, meta, err in ex.map(lambda p: one(p, demo), ids):
            if meta is None:
                print("%s: ERROR %s" % (pid, err)); bad += 1; continue
            fired = meta["checks_fired"]
            own = meta["property"] in fired and not any(k.startswith("INFRA") for k in fired[meta["property"]])
            conf = all(meta["confirmed"].get(k) for k in ("patch_applies", "suite_green_with_change", "demo_fails_with_change", "demo_passes_without"))
            print("%s: own check fires=%s confirmed=%s fired=%s" % (pid, own, conf, {k: v[0][:70] for k, v in sorted(fired.items())}))
            if not own or not conf:
                bad += 1
    return 1 if bad else 0


if __name__ == "__main__":
    sys.exit(main())
