#!/usr/bin/env python3
"""Regenerates /verif/MANIFEST.json from the table below (single source of truth)."""
import json, os, sys
HERE = os.path.dirname(os.path.dirname(os.path.abspath(__file__)))
sys.path.insert(0, HERE)
from mb2rules.manifest_data import CLAIMED, NOT_APPLICABLE, FIX_COMMITS

ALL = ["C%02d" % i for i in range(1, 21)]
checks = []
for pid in ALL:
    if pid not in CLAIMED:
        continue
    c = CLAIMED[pid]
    checks.append({
        "property_id": pid,
        "quick_cmd": "./check %s --tier quick" % pid,
        "thorough_cmd": "./check %s --tier thorough" % pid,
        "evidence_file": "/verif/evidence/%s.json" % pid,
        "replay_cmd_template": "./check %s --explain {path}" % pid,
        "engine": "mb2rules",
        "level_claimed": {"category": c["category"], "text": c["text"], "design_ref": c["design_ref"]},
        "level_note": c["note"],
        "technique": c["technique"],
    })
na = [{"property_id": p, "reason": NOT_APPLICABLE[p]} for p in ALL if p not in CLAIMED]
m = {
    "version": 1,
    "setup_cmd": "cd /verif/driver && CARGO_NET_OFFLINE=true cargo +nightly build --release --offline",
    "hooks": {
        "guard": "multiboot2_verif",
        "enable": "none needed: static analysis reads the source as it is (the cfg is declared and unused)",
        "baseline_off_cmd": "cd /repo && cargo test --workspace --no-fail-fast --offline",
        "source_commits": FIX_COMMITS,
        "add_only": True,
    },
    "engines": [
        {"name": "mb2facts", "path": "/verif/driver", "serves_properties": sorted(CLAIMED),
         "kind_free_text": "rustc_private driver (RUSTC_WORKSPACE_WRAPPER under cargo +nightly check): layouts, consts, impl tables, polymorphic and monomorphic MIR, instance call graph of /repo's current working tree"},
        {"name": "mb2rules", "path": "/verif/mb2rules", "serves_properties": sorted(CLAIMED),
         "kind_free_text": "python3 rule engine over the fact files: CFG/dominators, value terms, guard facts + bounded linear entailment, interval-table classifier, layout/oracle tables; no execution of repository code"},
    ],
    "checks": checks,
    "not_applicable": na,
    "notes": "Family of technique: static analysis. Every verdict is computed from /repo's current source (type-checked program, layouts, MIR) without running it. See DESIGN.md.",
}
with open(os.path.join(HERE, "MANIFEST.json"), "w") as fh:
    json.dump(m, fh, indent=1)
print("claimed:", sorted(CLAIMED), "not applicable:", [x["property_id"] for x in na])
