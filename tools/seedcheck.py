#!/usr/bin/env python3
"""seedcheck.py <seed dir> : confirm a seeded change and run all checks against it.

<seed dir> holds patch.diff, the demo test file(s) (*.rs) and meta.json with "demo_crate" (crate dir, e.g. multiboot2) -
or the crate is guessed from the patch.  Steps (all in a scratch copy of /repo outside /repo and /verif, removed afterwards):
 1. apply patch; `cargo test --workspace --offline` must pass (pinned suite green with the change)
 2. add the demo as <crate>/tests/<name>.rs; it must FAIL with the change
 3. revert the patch; the demo must PASS
 4. re-apply; run every registered check with MB2_REPO=<scratch>; report which fire and with which premise keys
Prints a JSON summary."""
import json, os, re, shutil, subprocess, sys, tempfile
HERE = os.path.dirname(os.path.dirname(os.path.abspath(__file__)))


def sh(cmd, cwd, env=None, timeout=3600):
    r = subprocess.run(cmd, cwd=cwd, env=env, shell=True, stdout=subprocess.PIPE, stderr=subprocess.STDOUT, text=True, timeout=timeout)
    return r.returncode, r.stdout


def main():
    sd = os.path.abspath(sys.argv[1])
    skip_demo = "--no-demo" in sys.argv
    patch = os.path.join(sd, "patch.diff")
    demos = [f for f in os.listdir(sd) if f.endswith(".rs")]
    ptxt = open(patch).read()
    crate = None
    m = re.search(r"^\+\+\+ b/([^/\n]+)/", ptxt, re.M)
    if m:
        crate = m.group(1)
    meta = {}
    if os.path.exists(os.path.join(sd, "meta.json")):
        try:
            meta = json.load(open(os.path.join(sd, "meta.json")))
        except Exception:
            meta = {}
    crate = meta.get("demo_crate", crate)
    if "demo_crate" not in meta and os.path.exists(os.path.join(sd, "DEMO.md")):
        mm = re.search(r"-p\s+(multiboot2[-\w]*)", open(os.path.join(sd, "DEMO.md")).read())
        if mm:
            crate = mm.group(1)
    scratch = tempfile.mkdtemp(prefix="mb2seed.")
    out = {"seed": sd, "crate": crate}
    try:
        repo = os.path.join(scratch, "repo")
        shutil.copytree("/repo", repo, ignore=shutil.ignore_patterns("target", ".git", "integration-test"))
        env = dict(os.environ, CARGO_NET_OFFLINE="true", CARGO_TARGET_DIR=os.path.join(scratch, "target"))
        rc, o = sh("patch -p1 -s < %s" % patch, repo)
        out["patch_applies"] = rc == 0
        if rc != 0:
            out["patch_log"] = o[-500:]
            print(json.dumps(out, indent=1)); return 1
        if "--benign" in sys.argv:
            rc, o = sh("cargo test --workspace --offline --no-fail-fast 2>&1 | grep -E '^test result|FAILED|^error' ", repo, env)
            out["suite_green_with_change"] = ("FAILED" not in o) and ("error" not in o) and o.count("test result: ok") >= 5
            rc, o = sh("cargo build --workspace --offline --no-default-features 2>&1 | tail -3", repo, env)
            out["builds_no_default_features"] = "Finished" in o
        elif not skip_demo:
            rc, o = sh("cargo test --workspace --offline --no-fail-fast 2>&1 | grep -E '^test result|FAILED|^error' ", repo, env)
            out["suite_green_with_change"] = ("FAILED" not in o) and ("error" not in o) and o.count("test result: ok") >= 5
            out["suite_log"] = o[-400:]
            tdir = os.path.join(repo, crate, "tests")
            os.makedirs(tdir, exist_ok=True)
            for d in demos:
                shutil.copy(os.path.join(sd, d), os.path.join(tdir, d))
            names = " ".join("--test %s" % d[:-3] for d in demos)
            rc1, o1 = sh("cargo test -p %s --offline %s 2>&1 | tail -15" % (crate.replace("_", "-"), names), repo, env)
            out["demo_fails_with_change"] = rc1 != 0 or "FAILED" in o1 or "failed" in o1
            out["demo_with_log"] = o1[-500:]
            sh("patch -p1 -R -s < %s" % patch, repo)
            rc2, o2 = sh("cargo test -p %s --offline %s 2>&1 | tail -8" % (crate.replace("_", "-"), names), repo, env)
            out["demo_passes_without"] = "FAILED" not in o2 and "test result: ok" in o2
            out["demo_without_log"] = o2[-300:]
            sh("patch -p1 -s < %s" % patch, repo)
            for d in demos:
                os.remove(os.path.join(tdir, d))
        # checks
        man = json.load(open(os.path.join(HERE, "MANIFEST.json")))
        fired = {}
        env2 = dict(os.environ, MB2_REPO=repo, MB2_OUT_DIR=os.path.join(scratch, "out"), MB2_EVIDENCE_DIR=os.path.join(scratch, "ev"))
        tier = "thorough" if "--thorough" in sys.argv else "quick"
        for c in man["checks"]:
            pid = c["property_id"]
            r = subprocess.run([os.path.join(HERE, "check"), pid, "--tier", tier], env=env2, stdout=subprocess.PIPE, stderr=subprocess.STDOUT, text=True)
            vp = os.path.join(scratch, "out", "%s.violations.json" % pid)
            if r.returncode == 1:
                keys = [v["key"] for v in json.load(open(vp))] if os.path.exists(vp) else ["?"]
                fired[pid] = keys[:8]
            elif r.returncode != 0:
                fired[pid] = ["INFRA rc=%d: %s" % (r.returncode, r.stdout[-300:])]
        out["checks_fired"] = fired
        print(json.dumps(out, indent=1))
        return 0
    finally:
        shutil.rmtree(scratch, ignore_errors=True)


if __name__ == "__main__":
    sys.exit(main())
