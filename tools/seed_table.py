#!/usr/bin/env python3
"""seed_table.py <round> : markdown rows (DESIGN.md §16) for /verif/seeded/<ID>-<round>{a,b} from their meta.json"""
import json, os, re, sys
HERE = os.path.dirname(os.path.dirname(os.path.abspath(__file__)))
rnd = sys.argv[1]


def first_sentence(s, n=230):
    s = " ".join(str(s or "").split())
    m = re.search(r"(?<=[a-z\)\]`'\"])\. ", s)
    s = s[:m.start()] if m else s
    return s[:n].replace("|", "\\|")


print("| seed | change (first sentence of the author's summary) | needs | own property: first failing premises | other checks that fire |")
print("|---|---|---|---|---|")
for d in sorted(os.listdir(os.path.join(HERE, "seeded"))):
    if not re.match(r"^C\d\d-%s[ab]$" % rnd, d):
        continue
    m = json.load(open(os.path.join(HERE, "seeded", d, "meta.json")))
    pid = m["property"]
    fired = m.get("checks_fired", {})
    own = fired.get(pid, [])
    own_s = ", ".join("`%s`" % k.split(":", 1)[1][:70] for k in own[:2]) or "**none**"
    others = ", ".join(sorted(k for k in fired if k != pid)) or "-"
    print("| %s | %s | %s | %s | %s |" % (d, first_sentence(m.get("summary")), first_sentence(m.get("what_it_needs_to_manifest"), 170), own_s, others))
