#!/opt/veriftools/pyvenv/bin/python
import json, jsonschema, glob, sys
m=json.load(open('/verif/MANIFEST.json')); s=json.load(open('/root/.vp/MANIFEST.schema.json')); jsonschema.validate(m,s); print('manifest ok')
es=json.load(open('/root/.vp/EVIDENCE.schema.json'))
for c in m['checks']:
    try:
        e=json.load(open(c['evidence_file'])); jsonschema.validate(e,es); print('evidence ok', c['property_id'], e['level'], e['coverage'].get('obligations'), e['coverage'].get('discharged'))
    except Exception as ex:
        print('EVIDENCE PROBLEM', c['property_id'], str(ex)[:300])
