#!/usr/bin/env python3
"""quick_silent.py <PROP>[,<PROP>...] [-k substr] [--jobs N]: run the given checks against every behaviour-preserving patch of the
self-test corpus (selftest/*/silent-*.diff, whatever property directory it is filed under) and print the ones that alarm.
A development tool for the question "did the rule I just tightened start to reject accepted refactors?"."""
import glob, json, os, shutil, subprocess, sys, tempfile
from concurrent.futures import ThreadPoolExecutor
HERE = os.path.dirname(os.path.dirname(os.path.abspath(__file__)))
props = sys.argv[1].split(",")
sub = sys.argv[sys.argv.index("-k") + 1] if "-k" in sys.argv else ""
jobs = int(sys.argv[sys.argv.index("--jobs") + 1]) if "--jobs" in sys.argv else 6
patches = sorted(p for p in glob.glob(os.path.join(HERE, "selftest", "*", "silent-*.diff")) if sub in p)


def run(patch):
    scratch = tempfile.mkdtemp(prefix="mb2qs.")
    try:
        repo = os.path.join(scratch, "repo")
        shutil.copytree("/repo", repo, ignore=shutil.ignore_patterns("target", ".git", "integration-test"))
        r = subprocess.run(["patch", "-p1", "-s", "-i", patch], cwd=repo, stdout=subprocess.PIPE, stderr=subprocess.STDOUT, text=True)
        if r.returncode != 0:
            return patch, {"-": ["patch does not apply"]}
        fired = {}
        env = dict(os.environ, MB2_REPO=repo, MB2_OUT_DIR=os.path.join(scratch, "out"), MB2_EVIDENCE_DIR=os.path.join(scratch, "ev"),
                   MB2_CACHE_DIR=os.path.join(scratch, "cache"))
        for p in props:
            r = subprocess.run([os.path.join(HERE, "check"), p], env=env, stdout=subprocess.PIPE, stderr=subprocess.STDOUT, text=True)
            if r.returncode != 0:
                vp = os.path.join(scratch, "out", "%s.violations.json" % p)
                try:
                    fired[p] = [v["key"] for v in json.load(open(vp))][:5]
                except Exception:
                    fired[p] = ["rc=%d %s" % (r.returncode, r.stdout[-200:])]
        return patch, fired
    finally:
        shutil.rmtree(scratch, ignore_errors=True)


bad = 0
with ThreadPoolExecutor(max_workers=jobs) as ex:
    for patch, fired in ex.map(run, patches):
        if fired:
            bad += 1
            print("ALARM", os.path.relpath(patch, HERE), json.dumps(fired)[:400], flush=True)
print("%d patches, %d alarm" % (len(patches), bad))
