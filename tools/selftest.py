#!/usr/bin/env python3
"""Self-test of the checks: apply each patch under /verif/selftest/<PROP>/ to a scratch copy of /repo
(outside /repo and /verif, removed afterwards) and run the property's check against it.

  break-*.diff   must make the check exit 1 (and, if a line `# expect: <substring>` is present in the
                 patch header, a failed premise key containing that substring)
  silent-*.diff  behaviour-preserving edits: the check must exit 0

usage: selftest.py [PROP ...] [-k name-substring] [--also P1,P2]  (default: all)"""
import json, os, shutil, subprocess, sys, tempfile
HERE = os.path.dirname(os.path.dirname(os.path.abspath(__file__)))
ST = os.path.join(HERE, "selftest")


def run_one(prop, patch, extra_props=()):
    scratch = tempfile.mkdtemp(prefix="mb2st.")
    try:
        repo = os.path.join(scratch, "repo")
        shutil.copytree("/repo", repo, ignore=shutil.ignore_patterns("target", ".git", "integration-test"))
        r = subprocess.run(["patch", "-p1", "-s", "-i", patch], cwd=repo, stdout=subprocess.PIPE, stderr=subprocess.STDOUT, text=True)
        if r.returncode != 0:
            return "SKIP(patch does not apply)", r.stdout[-300:]
        expect = None
        with open(patch) as fh:
            for line in fh:
                if line.startswith("# expect:"):
                    expect = line.split(":", 1)[1].strip()
        out = {}
        if os.path.basename(patch).startswith("silent-all"):
            # behaviour-preserving refactor written by an independent party: *no* check may alarm on it
            extra_props = tuple("C%02d" % i for i in range(1, 21) if "C%02d" % i != prop)
        for p in (prop,) + tuple(extra_props):
            env = dict(os.environ, MB2_REPO=repo, MB2_OUT_DIR=os.path.join(scratch, "out"),
                       MB2_EVIDENCE_DIR=os.path.join(scratch, "ev"))
            extra = ["--tier", "thorough"] if "thorough" in os.path.basename(patch) else []
            r = subprocess.run([os.path.join(HERE, "check"), p] + extra, env=env, stdout=subprocess.PIPE, stderr=subprocess.STDOUT, text=True)
            keys = []
            vp = os.path.join(scratch, "out", "%s.violations.json" % p)
            if os.path.exists(vp):
                keys = [v["key"] for v in json.load(open(vp))]
            out[p] = (r.returncode, keys, r.stdout)
        rc, keys, log = out[prop]
        kind = os.path.basename(patch).split("-")[0]
        if kind == "break":
            if rc == 1 and (expect is None or any(expect in k for k in keys)):
                return "OK(fired)", "; ".join(keys[:4])
            if rc == 1:
                return "WRONG-PREMISE", "expected %s, got %s" % (expect, keys[:6])
            if rc == 2:
                return "INFRA(rc=2)", log[-400:]
            return "MISSED", "exit %d" % rc
        else:
            bad = {p: v for p, v in out.items() if v[0] != 0}
            if not bad:
                return "OK(silent%s)" % (" x%d" % len(out) if len(out) > 1 else ""), ""
            return "FALSE-ALARM", "; ".join("%s: %s" % (p, "; ".join(v[1][:3]) + (v[2][-200:] if v[0] == 2 else "")) for p, v in bad.items())
    finally:
        shutil.rmtree(scratch, ignore_errors=True)


def main():
    args = sys.argv[1:]
    sub = None
    if "-k" in args:
        i = args.index("-k"); sub = args[i + 1]; del args[i:i + 2]
    props = args or sorted(os.listdir(ST))
    bad = 0
    jobs = []
    for prop in props:
        d = os.path.join(ST, prop)
        if not os.path.isdir(d):
            continue
        for f in sorted(os.listdir(d)):
            if not f.endswith(".diff") or (sub and sub not in f):
                continue
            jobs.append((prop, f))
    from concurrent.futures import ThreadPoolExecutor
    results = {}
    with ThreadPoolExecutor(max_workers=int(os.environ.get("SELFTEST_JOBS", "6"))) as ex:
        futs = {ex.submit(run_one, prop, os.path.join(ST, prop, f)): (prop, f) for (prop, f) in jobs}
        for fu in futs:
            results[futs[fu]] = fu.result()
    for (prop, f) in jobs:
        status, detail = results[(prop, f)]
        print("%-5s %-44s %-16s %s" % (prop, f, status, detail[:200]))
        if not status.startswith("OK"):
            bad += 1
    print("selftest: %d problem(s)" % bad)
    return 1 if bad else 0


if __name__ == "__main__":
    sys.exit(main())
