#!/usr/bin/env python3
"""bnall.py [-k substr] [--all]: run checks against every scratch copy /tmp/bnw/<ID>_<k>/repo (behaviour-preserving refactors applied);
by default all 20 checks; prints the premise keys that (wrongly) fire."""
import json, os, subprocess, sys
from concurrent.futures import ThreadPoolExecutor
HERE = os.path.dirname(os.path.dirname(os.path.abspath(__file__)))
BASE = os.environ.get("BNW", "/tmp/bnw")
sel = None
if "-k" in sys.argv:
    sel = sys.argv[sys.argv.index("-k") + 1]
checks = ["C%02d" % i for i in range(1, 21)]
if "-c" in sys.argv:
    checks = sys.argv[sys.argv.index("-c") + 1].split(",")
names = sorted(n for n in os.listdir(BASE) if (sel is None or sel in n))


def run(n):
    w = os.path.join(BASE, n)
    env = dict(os.environ, MB2_REPO=w + "/repo", MB2_OUT_DIR=w + "/out", MB2_EVIDENCE_DIR=w + "/ev", MB2_CACHE_MAX="600")
    fired = {}
    for c in checks:
        r = subprocess.run([HERE + "/check", c], env=env, stdout=subprocess.PIPE, stderr=subprocess.STDOUT, text=True)
        vp = os.path.join(w, "out", "%s.violations.json" % c)
        if r.returncode == 1:
            try:
                fired[c] = [v["key"] for v in json.load(open(vp))]
            except Exception:
                fired[c] = ["?"]
            if "Traceback" in r.stdout:
                fired[c] = ["CRASH " + r.stdout.strip().splitlines()[-2][-120:]]
        elif r.returncode != 0:
            fired[c] = ["INFRA"]
    return n, fired


tot = 0
with ThreadPoolExecutor(max_workers=int(os.environ.get("JOBS", "10"))) as ex:
    for n, fired in ex.map(run, names):
        if fired:
            tot += 1
        print(n, "silent" if not fired else "ALARMS " + json.dumps({k: [x[len(k) + 1:][:80] for x in v[:4]] + (["+%d" % (len(v) - 4)] if len(v) > 4 else []) for k, v in fired.items()}))
        sys.stdout.flush()
print("%d/%d with alarms" % (tot, len(names)))
