#!/bin/bash
# bn.sh <ID>_<k> <check ids...> : run checks against the scratch copy /tmp/bnw/<ID>_<k>/repo (benign refactor applied)
w=/tmp/bnw/$1; shift
for c in "$@"; do MB2_REPO=$w/repo MB2_OUT_DIR=$w/out MB2_EVIDENCE_DIR=$w/ev /verif/check $c 2>&1 | grep -v "^\s*Compiling\|^\s*Checking\|^\s*Finished\|analysed" | cut -c1-${BN_W:-400}; done
