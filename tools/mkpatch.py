#!/usr/bin/env python3
"""mkpatch.py <out.diff> [--expect KEY] (<file> <old> <new>)+  -- exact single-occurrence replacements -> unified diff (-p1)"""
import difflib, sys
args = sys.argv[1:]
out = args.pop(0)
expect = None
if args and args[0] == "--expect":
    expect = args[1]; args = args[2:]
chunks = []
edits = {}
while args:
    f, old, new = args[:3]; args = args[3:]
    src = edits.get(f) or open("/repo/" + f).read()
    n = src.count(old)
    if n != 1:
        sys.exit("pattern occurs %d times in %s: %r" % (n, f, old[:60]))
    edits[f] = src.replace(old, new)
for f, new in edits.items():
    a = open("/repo/" + f).read().splitlines(keepends=True)
    b = new.splitlines(keepends=True)
    chunks += list(difflib.unified_diff(a, b, "a/" + f, "b/" + f))
with open(out, "w") as fh:
    if expect:
        fh.write("# expect: %s\n" % expect)
    fh.writelines(chunks)
print("wrote", out, len(chunks), "lines")
