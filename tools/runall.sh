#!/bin/bash
# run every claimed check (quick tier, or $1) on /repo's current tree; print one line per check
cd /verif
tier=${1:-quick}
fail=0
for p in $(python3 -c "import json;print(' '.join(c['property_id'] for c in json.load(open('MANIFEST.json'))['checks']))"); do
  out=$(./check $p --tier $tier 2>&1); rc=$?
  echo "$out" | grep -E "^$p:" | cut -c1-150
  if [ $rc -ne 0 ]; then fail=1; echo "   -> exit $rc"; echo "$out" | grep -E "FAILED|why:" | head -6 | cut -c1-300; fi
done
exit $fail
