"""READSET: which bytes of *self an accessor returns (offset/width through the compiler's layout)."""
from . import guard as G
from .guard import N, arg


def self_type(inst):
    ty = inst["body"]["locals"][1]["ty"]
    return ty[1:] if ty.startswith("&") else ty


def resolve_path(F, root_ty, n, root=("deref", ("arg", 1))):
    """n: N-form term built from fld() over `root`.  Returns (byte offset, width, leaf type) or None."""
    idxs = []
    t = n
    while isinstance(t, tuple) and t and t[0] == "fld":
        idxs.append(t[2])
        t = t[1]
    if t != root:
        return None
    idxs.reverse()
    off = 0
    ty = root_ty
    width = None
    for i in idxs:
        a = F.adts.get(ty)
        if a is None:
            info = F.ty(ty) or {}
            if info.get("kind") == "tuple":
                return ("tuple", None, ty)
            return None
        if i >= len(a.get("fields", [])):
            return None
        f = a["fields"][i]
        off += f["off"]
        width = f["size"]
        ty = f["ty"]
    return (off, width, ty)


def strip_casts(n):
    """peel value-preserving wrappers of an accessor's return term (N-form): int casts to a wider/equal type, &x of copies"""
    while isinstance(n, tuple) and n and n[0] == "cast" and n[1] == "IntToInt":
        n = n[2]
    return n


def cast_targets(n):
    out = []
    while isinstance(n, tuple) and n and n[0] == "cast" and n[1] == "IntToInt":
        out.append(n[3] if len(n) > 3 else None)
        n = n[2]
    return out


def accessor_reads(F, inst):
    """(offset, width, leaf type, shape) of a simple field accessor, shape in {'value','ref','cast'}; None if not simple"""
    from . import an
    rt, _ = an.of(F, inst).ret()
    if rt is None:
        return None
    n = N(rt)
    shape = "value"
    targets = []
    if n[0] == "cast" and n[1] == "IntToInt":
        shape = "cast"
        targets = cast_targets(n)
        n = strip_casts(n)
    if n[0] == "ref":
        shape = "ref"
        n = n[1]
    r = resolve_path(F, self_type(inst), n)
    if r is None:
        return None
    if targets and r[1] is not None:
        # every integer cast on the way out must keep the stored value: a target narrower than the field
        # (`self.header.size as u8 as usize`) returns only part of it
        from .terms import INT_BITS
        if any(t_ in INT_BITS and INT_BITS[t_] < 8 * r[1] for t_ in targets):
            return None
    return r + (shape,)
