"""CHAIN: early-exit chains of Result/Option-returning functions.

exits(A) lists every assignment to the return place with the facts under which it executes
(dominating-edge facts, nearest first) and its own guard (the facts of the nearest dominating
branch).  Precedence of error exits is dominance order: exit k's facts contain the negated
guards of all earlier exits."""
from . import guard as G
from . import classify as CL


class Exit:
    def __init__(self, bb, val, facts, own, kind, variant, payload):
        self.bb, self.val, self.facts, self.own = bb, val, facts, own
        self.kind, self.variant, self.payload = kind, variant, payload

    def __repr__(self):
        return "Exit(bb%d %s %s | own=%s)" % (self.bb, self.kind, self.variant, [G.show(f) for f in self.own])


def nearest_branch_facts(A, B):
    b = A.body
    for (d, s, lab) in A.g.dominating_edges(B):
        if b.term(d)["k"] in ("switch", "assert"):
            return A.g.edge_facts(d, s, lab), d
    return [], None


def describe(val):
    """(kind, variant-path, payload) of a Result/Option value term"""
    v = CL.variant_of(G.strip(val))
    if v is None:
        return ("other", None, None)
    _, adt, name, payload = v
    if name in ("Ok", "Err", "Some", "None"):
        inner = None
        innerv = None
        if payload:
            inner = G.strip(payload[0])
            iv = CL.variant_of(inner)
            if iv:
                path = [iv[2]]
                cur = iv
                while cur[3] and CL.variant_of(G.strip(cur[3][0])):
                    cur = CL.variant_of(G.strip(cur[3][0]))
                    path.append(cur[2])
                innerv = "::".join(path)
        return (name, innerv, inner)
    return ("variant", name, payload)


def exits(A):
    b = A.body
    out = []
    for site in A.tb.defs.get(0, []):
        kind, bb, i, proj = site
        if bb not in b.reachable:
            continue
        if kind == "stmt":
            st = b.stmts(bb)[i]
            if st["k"] != "assign" or proj:
                val = ("opq", "partial")
            else:
                val = A.tb.rvalue(st["rv"], (bb, i), st)
        else:
            val = A.tb.call_value(b.term(bb), bb)
        facts = A.g.facts_at(bb)
        if kind == "call":
            # value exists after the call returns: facts on the return edge are those of the successor
            succ = [t for (t, _) in b.succ[bb]]
            if succ:
                facts = A.g.facts_at(succ[0])
        own, at = nearest_branch_facts(A, bb)
        k, variant, payload = describe(val)
        out.append(Exit(bb, val, facts, own, k, variant, payload))
    out.sort(key=lambda e: (len(e.facts), e.bb))
    return out


def precedes(e1, e2):
    """exit e1 is tested before e2: e2 executes only if e1's own guard was false"""
    for f in e1.own:
        nf = G.negate(f)
        if nf not in e2.facts and not G.entails(e2.facts, nf) if nf[0] == "cmp" else nf not in e2.facts:
            return False
    return bool(e1.own)


# ---- canonical forms after INLINE/THREAD: every Option/Result test is a discriminant test of the scrutinee term --------
def is_discr_fact(f, scrut, idx, nvariants=2):
    """fact `scrut is variant idx` (N-form); for two-variant enums `discr != other` is the same fact"""
    f = G.N(f)
    if f == ("cmp", "Eq", ("discr", scrut), ("c", idx)):
        return True
    if nvariants == 2 and f == ("cmp", "Ne", ("discr", scrut), ("c", 1 - idx)):
        return True
    return False


def guarded_by_variant(facts, scrut, idx, nvariants=2):
    return any(is_discr_fact(f, scrut, idx, nvariants) for f in facts)


def payload_of(scrut, idx, field=0):
    """N-form of `(scrut as Variant#idx).field`"""
    return ("fld", ("dc", scrut, idx), field)


def own_is_variant(e, scrut, idx, nvariants=2):
    """the exit's own (nearest) guard is exactly the test `scrut is variant idx`"""
    return len(e.own) == 1 and is_discr_fact(e.own[0], scrut, idx, nvariants)
