"""UNSAFE: census of unsafe operations in a set of instances.

site kinds:  rawderef (place projection through a raw pointer), unsafecall (call of an `unsafe fn` / intrinsic),
             transmute (Rvalue::Cast Transmute), copy (copy_nonoverlapping statement), asm"""
from . import mir as M


class USite:
    def __init__(self, inst, bb, kind, what, span, detail=None):
        self.inst, self.bb, self.kind, self.what, self.span, self.detail = inst, bb, kind, what, span, detail

    def key(self):
        return "%s|%s|%s" % (self.inst["key"], self.kind, self.what)


def sites_of(F, inst):
    out = []
    body = M.Body(inst)
    ptr_locals = set()
    for i, l in enumerate(inst["body"]["locals"]):
        if (F.ty(l["ty"]) or {}).get("kind") == "ptr":
            ptr_locals.add(i)

    def scan_place(pl, bb, span):
        p = pl.get("p") or []
        if p and p[0] == "*" and pl["l"] in ptr_locals:
            pointee = (F.ty(inst["body"]["locals"][pl["l"]]["ty"]) or {}).get("pointee")
            out.append(USite(inst, bb, "rawderef", "*(%s)" % pointee, span, pl))

    def scan_operand(op, bb, span):
        pl = op.get("c") or op.get("m")
        if pl:
            scan_place(pl, bb, span)

    def scan_rv(rv, bb, span):
        k = rv["k"]
        if k in ("use", "repeat"):
            scan_operand(rv["op"], bb, span)
        elif k in ("ref", "rawptr", "discr"):
            scan_place(rv["pl"], bb, span)
        elif k == "cast":
            scan_operand(rv["op"], bb, span)
            if rv["ck"] == "Transmute":
                out.append(USite(inst, bb, "transmute", "%s -> %s" % (rv["from"], rv["ty"]), span, rv))
        elif k == "bin":
            scan_operand(rv["a"], bb, span)
            scan_operand(rv["b"], bb, span)
        elif k == "un":
            scan_operand(rv["a"], bb, span)
        elif k == "aggr":
            for o in rv["ops"]:
                scan_operand(o, bb, span)

    for bb in sorted(body.reachable):
        for st in body.stmts(bb):
            sp = st.get("span", "")
            if st.get("exp") and False:
                continue
            if st["k"] == "assign":
                scan_place(st["lhs"], bb, sp)
                scan_rv(st["rv"], bb, sp)
            elif st["k"] == "copy_nonoverlapping":
                out.append(USite(inst, bb, "copy", "copy_nonoverlapping", sp, st))
        t = body.term(bb)
        sp = t.get("span", "")
        if t["k"] == "call":
            for a in t["args"]:
                scan_operand(a, bb, sp)
            fr = M.callee_of(t)
            if fr is not None:
                r = fr.get("res") or {}
                path = r.get("path") or fr["path"]
                is_unsafe = fr.get("unsafe") or r.get("kind") == "intrinsic"
                if is_unsafe:
                    # macro internals of format_args!/log!: Arguments::new* are unsafe fns called by the expansion
                    if t.get("exp") and path.startswith(("core::fmt::", "log::")):
                        continue
                    out.append(USite(inst, bb, "unsafecall", path, sp, t))
        elif t["k"] == "switch":
            scan_operand(t["d"], bb, sp)
        elif t["k"] == "asm":
            out.append(USite(inst, bb, "asm", "inline asm", sp))
    # de-duplicate identical (kind, what) in the same block
    seen = set()
    uniq = []
    for s in out:
        k = (s.bb, s.kind, s.what)
        if k not in seen:
            seen.add(k)
            uniq.append(s)
    return uniq
