"""Check context: obligations (premise instances), verdicts, evidence, known findings."""
import json
import os
import re
import sys
import time

from . import facts as FA

VERIF = FA.VERIF


class Ob:
    __slots__ = ("rule", "key", "desc", "site", "status", "how", "nontrivial")

    def __init__(self, rule, key, desc, site, status, how, nontrivial):
        # keys must be position-free: closure types print as {closure@file:line:col}
        key = re.sub(r"\{closure@[^}]*\}", "{closure}", str(key))
        self.rule, self.key, self.desc, self.site = rule, key, desc, site
        self.status, self.how, self.nontrivial = status, how, nontrivial

    def as_json(self):
        return {"rule": self.rule, "key": self.key, "premise": self.desc, "site": self.site,
                "status": self.status, "how": self.how}


class Ctx:
    def __init__(self, prop, tier="quick"):
        self.prop = prop
        self.tier = tier
        self.t0 = time.time()
        self.obs = []
        self.notes = []
        self.analysed = {}
        self.cfgs = []
        self._facts = {}
        self.known = load_known()
        self.assumptions = []

    # -- facts ---------------------------------------------------------------
    def F(self, cfg="A"):
        if cfg not in self._facts:
            self._facts[cfg] = FA.load(cfg)
            if cfg not in self.cfgs:
                self.cfgs.append(cfg)
        return self._facts[cfg]

    # -- obligations -----------------------------------------------------------
    def ok(self, rule, key, desc, site="", how="", nontrivial=True):
        self.obs.append(Ob(rule, key, desc, site, "ok", how, nontrivial))
        return True

    def fail(self, rule, key, desc, site="", why=""):
        self.obs.append(Ob(rule, key, desc, site, "fail", why, True))
        return False

    def check(self, cond, rule, key, desc, site="", how="", why="", nontrivial=True):
        if cond:
            return self.ok(rule, key, desc, site, how, nontrivial)
        return self.fail(rule, key, desc, site, why)

    def count(self, name, n):
        self.analysed[name] = self.analysed.get(name, 0) + n

    def floor(self, rule, name, n, minimum):
        """fail closed when a rule matched fewer instances than confirmed by hand"""
        self.analysed[name] = n
        if n < minimum:
            self.fail(rule, "floor:" + name, "at least %d instances of %s are analysed" % (minimum, name), "",
                      "only %d found - an anchor moved or disappeared; the checker cannot vouch for what it cannot find" % n)
        else:
            self.ok(rule, "floor:" + name, "instance floor %s >= %d" % (name, minimum), "", "%d found" % n, nontrivial=False)

    def note(self, s):
        self.notes.append(s)

    def import_prop(self, pid, rule="IMPORT", only=None, label=None):
        """run another property's premises inside this check (shared facts) and record the outcome as one obligation.
        Open known findings of the imported property stay findings of that property; they fail the import unless they
        are also listed for this property."""
        import importlib
        key = (pid, label)
        if key in getattr(self, "_imports", {}):
            return self._imports[key]
        if not hasattr(self, "_imports"):
            self._imports = {}
        mod = importlib.import_module("mb2rules.props.%s" % pid.lower())
        child = Ctx(pid, self.tier)
        child._facts = self._facts
        child.cfgs = self.cfgs
        child.known = self.known
        child._imported = True
        mod.run(child)
        obs = child.obs
        if only is not None:
            # narrow import: only the premise instances of `pid` that this property depends on (named by `label`)
            obs = [o for o in child.obs if only(o)]
            if not obs:
                self.fail(rule, "%s[%s]" % (pid, label), "the imported premise instances of %s (%s) exist" % (pid, label), "", "0 matching premise instances")
                return (False, 0, [])
        fails = [o for o in obs if o.status == "fail"]
        open_known = self.known["open"]
        hard = [o for o in fails if ("%s:%s:%s" % (pid, o.rule, o.key)) not in open_known]
        ok = not hard
        self._imports[key] = (ok, len(obs), hard)
        name = pid if label is None else "%s[%s]" % (pid, label)
        self.check(ok, rule, name, "all %d premise instances of %s hold on the current tree" % (len(obs), name), "",
                   how="%d premise instances re-decided in this run" % len(obs),
                   why="failed premises of %s: %s" % (pid, [("%s:%s" % (o.rule, o.key))[:100] for o in hard[:6]]))
        self.analysed["imported premises of " + name] = len(obs)
        return self._imports[key]

    # -- finish ----------------------------------------------------------------
    def finish(self, level, explanation, trusted_base, rule_text, design_ref=""):
        if getattr(self, "_imported", False):
            return 0
        prop = self.prop
        fails = [o for o in self.obs if o.status == "fail"]
        known_hits, violations = [], []
        for o in fails:
            full = "%s:%s:%s" % (prop, o.rule, o.key)
            kf = self.known["open"].get(full)
            if kf is not None:
                o.status = "known"
                known_hits.append((full, kf, o))
            else:
                violations.append((full, o))
        for (full, kf, o) in known_hits:
            print("KNOWN-FINDING: property=%s %s -- %s [%s]" % (prop, full, kf.get("what", ""), o.site))
        outdir = os.environ.get("MB2_OUT_DIR", os.path.join(VERIF, "out"))
        os.makedirs(outdir, exist_ok=True)
        vpath = os.path.join(outdir, "%s.violations.json" % prop)
        if violations:
            with open(vpath, "w") as fh:
                json.dump([dict(o.as_json(), key=full) for (full, o) in violations], fh, indent=1)
            for (full, o) in violations:
                print("  FAILED PREMISE %s\n     rule=%s site=%s\n     premise: %s\n     why: %s" %
                      (full, o.rule, o.site, o.desc, o.how))
        elif os.path.exists(vpath):
            os.remove(vpath)
        n_ob = len(self.obs)
        n_ok = len([o for o in self.obs if o.status == "ok"])
        nontrivial = len({(o.rule, o.key) for o in self.obs if o.nontrivial and o.status == "ok"})
        samples = [o.as_json() for o in self.obs if o.status == "ok" and o.nontrivial][:12]
        samples += [o.as_json() for o in self.obs if o.status != "ok"][:12]
        f = self.F("A")
        cov = {
            "explanation": explanation,
            "obligations": n_ob,
            "discharged": n_ok,
            "evaluations": n_ob,
            "distinct_nontrivial": max(nontrivial, 0),
            "rule": rule_text,
            "samples": samples if samples else [{"note": "no obligations"}],
            "checker_cmd": "./check %s --tier %s" % (prop, self.tier),
            "trusted_base": trusted_base,
            "analysed": self.analysed,
            "configurations": self.cfgs,
            "known_findings_matched": [k for (k, _, _) in known_hits],
            "undischarged": [full for (full, _) in violations],
            "rustc": f.rustc,
            "target": f.target,
            "tree_hash": f.tree_hash,
            "facts_cached": f.cached,
            "notes": self.notes,
            "exhaustive": False,
        }
        ev = {
            "property_id": prop,
            "tier": self.tier,
            "seed": int(os.environ.get("VERIF_SEED", "0") or 0),
            "level": level,
            "coverage": cov,
            "assumptions": self.assumptions + [
                "x86_64-unknown-linux-gnu, little-endian, 64-bit usize (layouts and range rules are for this target)",
                "rustc's type checker, layout computation, const evaluation and MIR construction (-Zmir-opt-level=0)",
            ],
            "wall_s": round(time.time() - self.t0, 2),
            "violations": len(violations),
        }
        evdir = os.environ.get("MB2_EVIDENCE_DIR", os.path.join(VERIF, "evidence"))
        os.makedirs(evdir, exist_ok=True)
        with open(os.path.join(evdir, "%s.json" % prop), "w") as fh:
            json.dump(ev, fh, indent=1, default=str)
        print("%s: %d premise instances, %d discharged, %d known findings, %d violations (%.1fs; cfgs %s; tree %s%s)" %
              (prop, n_ob, n_ok, len(known_hits), len(violations), time.time() - self.t0,
               ",".join(self.cfgs), f.tree_hash, ", cached facts" if f.cached else ""))
        for k, v in sorted(self.analysed.items()):
            print("   analysed %-40s %s" % (k, v))
        if violations:
            print("VIOLATION property=%s replay=%s" % (prop, vpath))
            return 1
        return 0


def load_known():
    p = os.path.join(VERIF, "known_findings.json")
    out = {"open": {}, "fixed": {}}
    if os.path.exists(p):
        with open(p) as fh:
            for e in json.load(fh):
                k = e["key"]
                out["open" if e.get("status") == "open" else "fixed"][k] = e
    return out


def site_of(fn, bb=None):
    if bb is None:
        return fn.get("span", "?")
    blk = fn["body"]["blocks"][bb]
    return blk["t"].get("span", fn.get("span", "?"))
