"""Purity of repo functions: no writes through references/pointers, only pure callees.
Used to decide whether a call term may be compared for equality without a site tag."""
from . import mir as M

PURE_STD_PREFIXES = (
    "core::mem::size_of", "core::ptr::eq", "core::ptr::addr_eq", "core::mem::align_of", "core::mem::size_of_val",
    "core::slice::<impl [T]>::len", "core::slice::<impl [T]>::as_ptr", "core::slice::<impl [T]>::get",
    "core::slice::<impl [T]>::iter", "core::slice::<impl [T]>::ends_with", "core::slice::<impl [T]>::is_empty",
    "core::ptr::const_ptr::<impl *const T>::", "core::ptr::mut_ptr::<impl *mut T>::cast",
    "core::ptr::non_null::NonNull::<T>::", "core::convert::num::", "core::num::<impl ",
    "core::cmp::impls::", "core::cmp::PartialEq::eq", "core::cmp::PartialEq::ne",
    "core::option::Option::<T>::", "core::option::Option::<&T>::", "core::result::Result::<T, E>::", "core::convert::Into::into",
    "core::ops::range::RangeInclusive::<Idx>::contains", "core::ops::range::Range::<Idx>::contains",
    "core::convert::From::from", "<T as core::convert::Into<U>>::into", "<T as core::convert::TryInto<U>>::try_into",
    "<[T] as core::convert::AsRef<[T]>>::as_ref", "core::clone::impls::", "core::ops::deref::Deref::deref",
    "core::convert::<impl core::convert::From<T> for T>::from",
    "core::clone::Clone::clone", "core::ops::Deref::deref", "core::str::<impl str>::",
    "core::str::converts::from_utf8", "core::ffi::c_str::CStr::",
    "ptr_meta::from_raw_parts", "core::slice::raw::from_raw_parts", "core::slice::from_raw_parts",
    "core::panicking::", "core::cmp::Ord::", "core::cmp::min", "core::cmp::max",
    "core::ptr::metadata::", "core::intrinsics::", "core::hint::", "core::array::",
    "core::convert::TryFrom::try_from", "core::convert::TryInto::try_into",
    "core::convert::<impl core::convert::TryInto<U> for T>::try_into",
    "core::convert::<impl core::convert::TryFrom<U> for T>::try_from",
    "core::slice::index::", "core::ops::Index::index", "core::ops::function::Fn", "core::marker::",
    "core::option::unwrap_failed", "core::option::expect_failed", "core::result::unwrap_failed",
    # pointer arithmetic and comparisons on *mut T (no access through the pointer)
    "core::ptr::mut_ptr::<impl *mut T>::add", "core::ptr::mut_ptr::<impl *mut T>::sub", "core::ptr::mut_ptr::<impl *mut T>::offset",
    "core::ptr::mut_ptr::<impl *mut T>::wrapping_", "core::ptr::mut_ptr::<impl *mut T>::byte_", "core::ptr::mut_ptr::<impl *mut T>::is_null",
    "core::ptr::mut_ptr::<impl *mut T>::addr", "core::ptr::mut_ptr::<impl *mut T>::align_offset", "core::ptr::mut_ptr::<impl *mut T>::is_aligned",
    # building format arguments (of a panic message) does not touch program state
    "core::fmt::Arguments::", "core::fmt::rt::",
)

_memo = {}


def is_pure(F, key, stack=()):
    ck = (id(F), key)
    if ck in _memo:
        return _memo[ck]
    if key in stack:
        return True
    inst = F.insts.get(key)
    if inst is None:
        return False
    _memo[ck] = False
    body = M.Body(inst)
    ok = True
    # &mut arguments
    for i in range(1, body.argc + 1):
        ty = F.ty(body.local_ty(i)) or {}
        if ty.get("kind") in ("ref", "ptr") and ty.get("mut"):
            ok = False
    for b in sorted(body.reachable):
        for st in body.stmts(b):
            if st["k"] == "copy_nonoverlapping":
                ok = False
            if st["k"] in ("assign", "setdiscr"):
                if "*" in [p for p in st["lhs"].get("p", []) if isinstance(p, str)]:
                    ok = False
        t = body.term(b)
        if t["k"] == "call":
            fr = M.callee_of(t)
            if fr is None:
                ok = False
                continue
            r = fr.get("res")
            path = r["path"] if r else fr["path"]
            if r and r.get("repo"):
                if not is_pure(F, r["key"], stack + (key,)):
                    ok = False
            elif not path.startswith(PURE_STD_PREFIXES):
                ok = False
        elif t["k"] in ("asm",):
            ok = False
    _memo[ck] = ok
    return ok
