"""THREAD: fold `switch discriminant(x)` where x was just built as a known variant (after INLINE this is what `?`, ok_or,
map_err, and_then, bool::then ... leave behind).

For a block S ending in a switch on d = discriminant(x): walk backwards along the unique-predecessor chain looking for the
assignment that built x (following plain moves/copies of whole locals).  If it is an aggregate of a known variant, the switch
is replaced by a goto.  If the walk reaches a join block first and every predecessor of the join builds x with a known
variant, the straight-line chain join..S is duplicated per predecessor and each copy's switch folded (tail duplication).
Only chains of side-effect-free blocks (goto / no-op drop terminators) are duplicated, never through loops.
This changes no behaviour: it only removes branches whose outcome is fixed on the path that reaches them."""
import copy

# enums whose discriminant value equals the variant index
ENUM_DISCR = {}          # repo enum path -> {variant index: discriminant value}; filled from the fact file's adt table


def set_enum_table(F):
    ENUM_DISCR.clear()
    for k, a in F.adts.items():
        if a.get("kind") == "enum" and a.get("crate") in ("multiboot2", "multiboot2_common", "multiboot2_header") and a.get("variants"):
            tab = {v["idx"]: v.get("discr", v["idx"]) for v in a["variants"] if isinstance(v.get("discr", v["idx"]), int)}
            if len(tab) == len(a["variants"]):
                ENUM_DISCR[a["path"]] = tab


_IDX_IS_DISCR = ("core::option::Option", "core::result::Result", "core::ops::control_flow::ControlFlow")


def _preds(blocks):
    pr = {i: [] for i in range(len(blocks))}
    for i, bb in enumerate(blocks):
        if bb.get("cleanup"):
            continue
        for t in _succ(bb["t"]):
            pr[t].append(i)
    return pr


def _succ(t):
    k = t["k"]
    if k == "goto":
        return [t["t"]]
    if k == "switch":
        return list(t["ts"]) + [t["otherwise"]]
    if k in ("call", "assert", "drop"):
        return [t["t"]] if t.get("t") is not None else []
    return []


def _retarget(t, old, new):
    k = t["k"]
    if k == "goto":
        if t["t"] == old:
            t["t"] = new
    elif k == "switch":
        t["ts"] = [new if x == old else x for x in t["ts"]]
        if t["otherwise"] == old:
            t["otherwise"] = new
    elif k in ("call", "assert", "drop"):
        if t.get("t") == old:
            t["t"] = new


_SCALAR_TYS = ("bool", "u8", "u16", "u32", "u64", "usize", "i8", "i16", "i32", "i64", "isize")


def _whole(pl):
    return pl is not None and not pl.get("p")


def _scan(bb, upto, x):
    """scan statements of bb[:upto] backwards for the definition of local x.
    returns ('known', variant_idx, adt) | ('alias', y) handled internally | ('unknown',) | ('top', x) when the block start is reached"""
    st = bb["s"]
    i = upto - 1
    while i >= 0:
        s = st[i]
        if s["k"] == "assign":
            lhs = s["lhs"]
            if lhs["l"] == x:
                if lhs.get("p"):
                    return ("unknown",)
                rv = s["rv"]
                if rv["k"] == "aggr" and rv.get("ak") == "adt" and rv.get("variant_idx") is not None and rv.get("adt") in _IDX_IS_DISCR:
                    return ("known", rv["variant_idx"])
                if rv["k"] == "aggr" and rv.get("ak") == "adt" and rv.get("variant_idx") is not None and rv.get("adt") in ENUM_DISCR and \
                        rv["variant_idx"] in ENUM_DISCR[rv["adt"]]:
                    return ("known", ENUM_DISCR[rv["adt"]][rv["variant_idx"]])      # a repo enum: discriminant from the compiler's table
                if rv["k"] == "use" and "k" in rv["op"]:
                    k = rv["op"]["k"]
                    if k.get("variant_idx") is not None and str(k.get("ty", "")).startswith(_IDX_IS_DISCR):
                        return ("known", k["variant_idx"])
                    if isinstance(k.get("v"), int) and k.get("ty") in _SCALAR_TYS:
                        return ("known", k["v"])          # a flag / small integer that is switched on directly
                    return ("unknown",)
                if rv["k"] == "use":
                    pl = rv["op"].get("m") or rv["op"].get("c")
                    if _whole(pl):
                        x = pl["l"]
                        i -= 1
                        continue
                return ("unknown",)
            rv = s["rv"]
            if rv["k"] in ("ref", "rawptr") and rv["pl"]["l"] == x and rv.get("bk") != "shared" and rv["k"] == "ref":
                return ("unknown",)
        elif s["k"] in ("setdiscr",):
            return ("unknown",)
        i -= 1
    return ("top", x)


def _pure_link(t, x):
    """terminator through which the backwards walk / duplication may pass"""
    if t["k"] == "goto":
        return True
    if t["k"] == "drop":
        return t["pl"]["l"] != x
    return False


def simplify(body, max_rounds=40, max_blocks=4000):
    blocks = body["blocks"]
    total = 0
    for _ in range(max_rounds):
        pr = _preds(blocks)
        did = False
        for si in range(len(blocks)):
            S = blocks[si]
            if S.get("cleanup") or S["t"]["k"] != "switch":
                continue
            t = S["t"]
            dpl = t["d"].get("m") or t["d"].get("c")
            if not _whole(dpl):
                continue
            d = dpl["l"]
            # d = discriminant(x) assigned in S
            x = None
            at = None
            for i in range(len(S["s"]) - 1, -1, -1):
                s = S["s"][i]
                if s["k"] == "assign" and s["lhs"]["l"] == d and not s["lhs"].get("p"):
                    if s["rv"]["k"] == "discr" and _whole(s["rv"]["pl"]):
                        x, at = s["rv"]["pl"]["l"], i
                    break
            if x is None:
                # `switch flag` on a bool / integer local that is not the discriminant of something: the local itself, when the
                # values that reach it are constants (a helper answering `true` / `false` on different paths, after INLINE)
                if t.get("dty") in _SCALAR_TYS and not any(s_["k"] == "assign" and s_["lhs"]["l"] == d for s_ in S["s"]):
                    x, at = d, len(S["s"])
                else:
                    continue
            # walk back
            chain = [si]
            cur, upto, var = si, at, x
            result = None
            while True:
                r = _scan(blocks[cur], upto, var)
                if r[0] == "known":
                    result = ("const", r[1])
                    break
                if r[0] == "unknown":
                    break
                var = r[1]
                ps = pr[cur]
                if len(ps) == 1 and ps[0] != cur and ps[0] not in chain:
                    p = ps[0]
                    pt = blocks[p]["t"]
                    if pt["k"] == "call" and pt["dest"]["l"] == var:
                        break
                    if pt["k"] in ("goto", "drop", "switch", "assert", "call"):
                        if pt["k"] == "drop" and pt["pl"]["l"] == var:
                            break
                        cur, upto = p, len(blocks[p]["s"])
                        # only blocks reached through pure links may later be duplicated; for constant folding any link is fine
                        chain.append(cur)
                        continue
                    break
                if len(ps) >= 2:
                    result = ("join", cur, var)
                break
            if result is None:
                continue
            if result[0] == "const":
                tgt = _target(t, result[1])
                if tgt is None:
                    continue
                S["t"] = {"k": "goto", "t": tgt, "span": t.get("span", ""), "threaded": True}
                total += 1
                did = True
                break
            # join: chain from join block down to S must be pure links
            _, jb, var = result
            jidx = chain.index(jb)
            path = list(reversed(chain[:jidx + 1]))   # jb ... si
            ok = all(_pure_link(blocks[b]["t"], -1) for b in path[:-1])
            if not ok:
                continue
            # the chain join..S is straight-line (pure links, no block twice), so duplicating it per predecessor is tail
            # duplication even when it lies inside a loop body: each copy is entered from one predecessor whose last
            # assignment to x is the known aggregate found by walking that predecessor's own unique-predecessor chain
            if len(set(path)) != len(path):
                continue
            ps = list(dict.fromkeys(pr[jb]))
            known = {}
            for p in ps:
                pt = blocks[p]["t"]
                if pt["k"] == "call" and pt["dest"]["l"] == var:
                    continue
                r = _scan_chain(blocks, pr, p, var)
                if r is not None:
                    known[p] = r
            if not known or len(blocks) + len(path) * len(known) > max_blocks:
                continue
            for p, v in known.items():
                tgt = _target(t, v)
                if tgt is None:
                    continue
                base = len(blocks)
                for off, b in enumerate(path):
                    nb = copy.deepcopy(blocks[b])
                    if b == si:
                        nb["t"] = {"k": "goto", "t": tgt, "span": t.get("span", ""), "threaded": True}
                    else:
                        _retarget(nb["t"], path[off + 1], base + off + 1)
                    blocks.append(nb)
                _retarget(blocks[p]["t"], jb, base)
                total += 1
                did = True
            if did:
                break
        if not did:
            break
    return total


def _reaching_known(blocks, pr, start, var, limit=400):
    """all definitions of `var` that reach the entry of block `start` are aggregates of one known variant -> that variant,
    else None.  Backwards search over every path (loops included); a call that writes var, a mutable borrow of var, or
    reaching the function entry without a definition make it unknown."""
    work = [(p, var) for p in dict.fromkeys(pr[start])]
    seen = set()
    found = set()
    n = 0
    while work:
        b, v = work.pop()
        if (b, v) in seen:
            continue
        seen.add((b, v))
        n += 1
        if n > limit:
            return None
        bb = blocks[b]
        t = bb["t"]
        if t["k"] == "call" and t["dest"]["l"] == v:
            return None
        if t["k"] == "call":
            # a call taking `&mut v` would need the borrow statement first, which _scan reports as unknown
            pass
        r = _scan(bb, len(bb["s"]), v)
        if r[0] == "known":
            found.add(r[1])
            if len(found) > 1:
                return None
            continue
        if r[0] == "unknown":
            return None
        v2 = r[1]
        ps = list(dict.fromkeys(pr[b]))
        if not ps:
            return None        # function entry: an argument or an uninitialised local
        for q in ps:
            work.append((q, v2))
    return next(iter(found)) if len(found) == 1 else None


def _scan_chain(blocks, pr, p, var, limit=12):
    """definition of var at the end of block p, looking through unique-predecessor chains; where the chain ends at a join
    (a loop head, typically) every definition reaching it is considered"""
    cur, upto = p, len(blocks[p]["s"])
    seen = set()
    for _ in range(limit):
        r = _scan(blocks[cur], upto, var)
        if r[0] == "known":
            return r[1]
        if r[0] == "unknown":
            return None
        var = r[1]
        seen.add(cur)
        ps = list(dict.fromkeys(pr[cur]))
        if len(ps) >= 2:
            return _reaching_known(blocks, pr, cur, var)
        if len(ps) != 1 or ps[0] in seen:
            return None
        q = ps[0]
        qt = blocks[q]["t"]
        if qt["k"] == "call" and qt["dest"]["l"] == var:
            return None
        if qt["k"] == "drop" and qt["pl"]["l"] == var:
            return None
        cur, upto = q, len(blocks[q]["s"])
    return None


def _target(t, v):
    for val, tg in zip(t["vals"], t["ts"]):
        if val == v:
            return tg
    return t["otherwise"]


def _reaches(blocks, src, dst, limit=5000):
    seen = set()
    st = [src]
    n = 0
    while st and n < limit:
        b = st.pop()
        n += 1
        for s in _succ(blocks[b]["t"]):
            if s == dst:
                return True
            if s not in seen and not blocks[s].get("cleanup"):
                seen.add(s)
                st.append(s)
    return False


def split_returns(body, max_chain=16, max_preds=48, max_blocks=6000):
    """tail-duplicate straight-line code that ends in an assignment to the return place and is reached from a join, so that
    every way of producing the result is an exit block of its own (what `?` after an inlined helper merges, the plain
    early-return form keeps apart)."""
    blocks = body["blocks"]
    total = 0
    for _ in range(60):
        pr = _preds(blocks)
        reach = _reachable(blocks)
        did = False
        for bi in sorted(reach):
            B = blocks[bi]
            if B.get("cleanup"):
                continue
            if not any(s["k"] == "assign" and s["lhs"]["l"] == 0 and not s["lhs"].get("p") for s in B["s"]):
                continue
            # walk back over unique predecessors through pure links to a join
            chain = [bi]
            cur = bi
            join = None
            while len(chain) <= max_chain:
                ps = [p for p in dict.fromkeys(pr[cur]) if p in reach]
                if len(ps) >= 2:
                    join = cur
                    break
                if len(ps) != 1:
                    break
                p = ps[0]
                if p in chain or not _pure_link(blocks[p]["t"], -1):
                    break
                cur = p
                chain.append(cur)
            if join is None:
                continue
            ps = [p for p in dict.fromkeys(pr[join]) if p in reach]
            if len(ps) > max_preds or _reaches(blocks, bi, join) or len(blocks) + len(chain) * len(ps) > max_blocks:
                continue
            path = list(reversed(chain))   # join ... bi
            for p in ps[1:]:
                base = len(blocks)
                for off, b in enumerate(path):
                    nb = copy.deepcopy(blocks[b])
                    if off + 1 < len(path):
                        _retarget(nb["t"], path[off + 1], base + off + 1)
                    blocks.append(nb)
                _retarget(blocks[p]["t"], join, base)
                total += 1
            did = True
            break
        if not did:
            break
    return total


def _reachable(blocks):
    seen = {0}
    st = [0]
    while st:
        b = st.pop()
        for s in _succ(blocks[b]["t"]):
            if s not in seen and not blocks[s].get("cleanup"):
                seen.add(s)
                st.append(s)
    return seen


def normalize(body):
    n = 0
    for _ in range(6):
        a = simplify(body)
        b = split_returns(body)
        n += a + b
        if a + b == 0:
            break
    return n
