"""Oracle tables, hand-written from the specifications (Multiboot2 1.6 / multiboot2.h,
UEFI 2.x EFI_MEMORY_DESCRIPTOR, ELF gABI section headers, ACPI RSDP, VBE 3.0) and
from the crates' public documentation (API name -> specified item).  Nothing here
is derived from the repository's code.
"""

BOOT_MAGIC = 0x36D76289      # value in EAX at handoff
HEADER_MAGIC = 0xE85250D6

# multiboot2.h MULTIBOOT_TAG_TYPE_* -> crate variant name (public enum `TagType`)
MBI_TAG_TYPES = {
    0: "End", 1: "Cmdline", 2: "BootLoaderName", 3: "Module", 4: "BasicMeminfo", 5: "Bootdev",
    6: "Mmap", 7: "Vbe", 8: "Framebuffer", 9: "ElfSections", 10: "Apm", 11: "Efi32", 12: "Efi64",
    13: "Smbios", 14: "AcpiV1", 15: "AcpiV2", 16: "Network", 17: "EfiMmap", 18: "EfiBs",
    19: "Efi32Ih", 20: "Efi64Ih", 21: "LoadBaseAddr",
}

# multiboot2.h MULTIBOOT_MEMORY_* -> crate variant name (`MemoryAreaType`)
MEMORY_AREA_TYPES = {1: "Available", 2: "Reserved", 3: "AcpiAvailable", 4: "ReservedHibernate", 5: "Defective"}

# ELF gABI sh_type values -> crate variant (`ElfSectionType`), as documented on the enum
ELF_SECTION_TYPES = {
    0: "Unused", 1: "ProgramSection", 2: "LinkerSymbolTable", 3: "StringTable", 4: "RelaRelocation",
    5: "SymbolHashTable", 6: "DynamicLinkingTable", 7: "Note", 8: "Uninitialized", 9: "RelRelocation",
    10: "Reserved", 11: "DynamicLoaderSymbolTable",
}
ELF_SECTION_RANGES = [((0x6000_0000, 0x6FFF_FFFF), "EnvironmentSpecific"),   # SHT_LOOS..SHT_HIOS
                      ((0x7000_0000, 0x7FFF_FFFF), "ProcessorSpecific")]     # SHT_LOPROC..SHT_HIPROC
ELF_SECTION_OTHER = "Unused"   # documented: unknown values are treated as Unused

# framebuffer_type byte (multiboot2.h MULTIBOOT_FRAMEBUFFER_TYPE_*)
FRAMEBUFFER_TYPES = {0: "Indexed", 1: "RGB", 2: "Text"}

# ---- header side (multiboot2.h MULTIBOOT_HEADER_TAG_*)
HEADER_TAG_TYPES = {
    0: "End", 1: "InformationRequest", 2: "Address", 3: "EntryAddress", 4: "ConsoleFlags", 5: "Framebuffer",
    6: "ModuleAlign", 7: "EfiBS", 8: "EntryAddressEFI32", 9: "EntryAddressEFI64", 10: "Relocatable",
}
HEADER_ARCH = {0: "I386", 4: "MIPS32"}
HEADER_TAG_FLAGS = {0: "Required", 1: "Optional"}           # bit 0 of `flags`: optional
RELOCATABLE_PREFERENCE = {0: "None", 1: "Low", 2: "High"}
CONSOLE_FLAGS = {1: "ConsoleRequired", 2: "EgaTextSupported"}  # bit 0 / bit 1 of console_flags
