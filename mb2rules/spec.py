"""Oracle tables, hand-written from the specifications (Multiboot2 1.6 / multiboot2.h,
UEFI 2.x EFI_MEMORY_DESCRIPTOR, ELF gABI section headers, ACPI RSDP, VBE 3.0) and
from the crates' public documentation (API name -> specified item).  Nothing here
is derived from the repository's code.
"""

BOOT_MAGIC = 0x36D76289      # value in EAX at handoff
HEADER_MAGIC = 0xE85250D6

# multiboot2.h MULTIBOOT_TAG_TYPE_* -> crate variant name (public enum `TagType`)
MBI_TAG_TYPES = {
    0: "End", 1: "Cmdline", 2: "BootLoaderName", 3: "Module", 4: "BasicMeminfo", 5: "Bootdev",
    6: "Mmap", 7: "Vbe", 8: "Framebuffer", 9: "ElfSections", 10: "Apm", 11: "Efi32", 12: "Efi64",
    13: "Smbios", 14: "AcpiV1", 15: "AcpiV2", 16: "Network", 17: "EfiMmap", 18: "EfiBs",
    19: "Efi32Ih", 20: "Efi64Ih", 21: "LoadBaseAddr",
}

# multiboot2.h MULTIBOOT_MEMORY_* -> crate variant name (`MemoryAreaType`)
MEMORY_AREA_TYPES = {1: "Available", 2: "Reserved", 3: "AcpiAvailable", 4: "ReservedHibernate", 5: "Defective"}

# ELF gABI sh_type values -> crate variant (`ElfSectionType`), as documented on the enum
ELF_SECTION_TYPES = {
    0: "Unused", 1: "ProgramSection", 2: "LinkerSymbolTable", 3: "StringTable", 4: "RelaRelocation",
    5: "SymbolHashTable", 6: "DynamicLinkingTable", 7: "Note", 8: "Uninitialized", 9: "RelRelocation",
    10: "Reserved", 11: "DynamicLoaderSymbolTable",
}
ELF_SECTION_RANGES = [((0x6000_0000, 0x6FFF_FFFF), "EnvironmentSpecific"),   # SHT_LOOS..SHT_HIOS
                      ((0x7000_0000, 0x7FFF_FFFF), "ProcessorSpecific")]     # SHT_LOPROC..SHT_HIPROC
ELF_SECTION_OTHER = "Unused"   # documented: unknown values are treated as Unused

# framebuffer_type byte (multiboot2.h MULTIBOOT_FRAMEBUFFER_TYPE_*)
FRAMEBUFFER_TYPES = {0: "Indexed", 1: "RGB", 2: "Text"}

# ---- header side (multiboot2.h MULTIBOOT_HEADER_TAG_*)
HEADER_TAG_TYPES = {
    0: "End", 1: "InformationRequest", 2: "Address", 3: "EntryAddress", 4: "ConsoleFlags", 5: "Framebuffer",
    6: "ModuleAlign", 7: "EfiBS", 8: "EntryAddressEFI32", 9: "EntryAddressEFI64", 10: "Relocatable",
}
HEADER_ARCH = {0: "I386", 4: "MIPS32"}
HEADER_TAG_FLAGS = {0: "Required", 1: "Optional"}           # bit 0 of `flags`: optional
RELOCATABLE_PREFERENCE = {0: "None", 1: "Low", 2: "High"}
CONSOLE_FLAGS = {1: "ConsoleRequired", 2: "EgaTextSupported"}  # bit 0 / bit 1 of console_flags

# ---------------------------------------------------------------------------------------------
# Boot-information tags (multiboot2.h `struct multiboot_tag_*`).  Offsets from the tag start,
# widths in bytes.  `fixed` = size of the fixed part; `var` = element size of the variable part
# (None for fixed-size kinds, whose `fixed` is also the exact value of the size field).
# `ty` = name of the public type in crate `multiboot2` that models the kind (API table).
# Where the prose of the specification and multiboot2.h disagree (framebuffer `reserved`
# u16 and palette count u16) the header file - which GRUB implements - is followed.
MBI_TAGS = {
    "End":            dict(num=0, ty="EndTag", fixed=8, var=None, fields=[]),
    "Cmdline":        dict(num=1, ty="CommandLineTag", fixed=8, var=1, fields=[]),
    "BootLoaderName": dict(num=2, ty="BootLoaderNameTag", fixed=8, var=1, fields=[]),
    "Module":         dict(num=3, ty="ModuleTag", fixed=16, var=1,
                           fields=[("mod_start", 8, 4), ("mod_end", 12, 4)]),
    "BasicMeminfo":   dict(num=4, ty="BasicMemoryInfoTag", fixed=16, var=None,
                           fields=[("mem_lower", 8, 4), ("mem_upper", 12, 4)]),
    "Bootdev":        dict(num=5, ty="BootdevTag", fixed=20, var=None,
                           fields=[("biosdev", 8, 4), ("slice", 12, 4), ("part", 16, 4)]),
    "Mmap":           dict(num=6, ty="MemoryMapTag", fixed=16, var=24,
                           fields=[("entry_size", 8, 4), ("entry_version", 12, 4)]),
    "Vbe":            dict(num=7, ty="VBEInfoTag", fixed=784, var=None,
                           fields=[("vbe_mode", 8, 2), ("vbe_interface_seg", 10, 2), ("vbe_interface_off", 12, 2),
                                   ("vbe_interface_len", 14, 2), ("vbe_control_info", 16, 512), ("vbe_mode_info", 528, 256)]),
    "Framebuffer":    dict(num=8, ty="FramebufferTag", fixed=32, var=1,
                           fields=[("framebuffer_addr", 8, 8), ("framebuffer_pitch", 16, 4), ("framebuffer_width", 20, 4),
                                   ("framebuffer_height", 24, 4), ("framebuffer_bpp", 28, 1), ("framebuffer_type", 29, 1),
                                   ("reserved", 30, 2)]),
    "ElfSections":    dict(num=9, ty="ElfSectionsTag", fixed=20, var=1,
                           fields=[("num", 8, 4), ("entsize", 12, 4), ("shndx", 16, 4)]),
    "Apm":            dict(num=10, ty="ApmTag", fixed=28, var=None,
                           fields=[("version", 8, 2), ("cseg", 10, 2), ("offset", 12, 4), ("cseg_16", 16, 2), ("dseg", 18, 2),
                                   ("flags", 20, 2), ("cseg_len", 22, 2), ("cseg_16_len", 24, 2), ("dseg_len", 26, 2)]),
    "Efi32":          dict(num=11, ty="EFISdt32Tag", fixed=12, var=None, fields=[("pointer", 8, 4)]),
    "Efi64":          dict(num=12, ty="EFISdt64Tag", fixed=16, var=None, fields=[("pointer", 8, 8)]),
    "Smbios":         dict(num=13, ty="SmbiosTag", fixed=16, var=1,
                           fields=[("major", 8, 1), ("minor", 9, 1), ("reserved", 10, 6)]),
    "AcpiV1":         dict(num=14, ty="RsdpV1Tag", fixed=28, var=None,
                           fields=[("signature", 8, 8), ("checksum", 16, 1), ("oemid", 17, 6), ("revision", 23, 1),
                                   ("rsdt_address", 24, 4)]),
    "AcpiV2":         dict(num=15, ty="RsdpV2Tag", fixed=44, var=None,
                           fields=[("signature", 8, 8), ("checksum", 16, 1), ("oemid", 17, 6), ("revision", 23, 1),
                                   ("rsdt_address", 24, 4), ("length", 28, 4), ("xsdt_address", 32, 8),
                                   ("extended_checksum", 40, 1), ("reserved", 41, 3)]),
    "Network":        dict(num=16, ty="NetworkTag", fixed=8, var=1, fields=[]),
    "EfiMmap":        dict(num=17, ty="EFIMemoryMapTag", fixed=16, var=1,
                           fields=[("descr_size", 8, 4), ("descr_vers", 12, 4)]),
    "EfiBs":          dict(num=18, ty="EFIBootServicesNotExitedTag", fixed=8, var=None, fields=[]),
    "Efi32Ih":        dict(num=19, ty="EFIImageHandle32Tag", fixed=12, var=None, fields=[("pointer", 8, 4)]),
    "Efi64Ih":        dict(num=20, ty="EFIImageHandle64Tag", fixed=16, var=None, fields=[("pointer", 8, 8)]),
    "LoadBaseAddr":   dict(num=21, ty="ImageLoadPhysAddrTag", fixed=12, var=None, fields=[("load_base_addr", 8, 4)]),
}
MBI_TAG_HEADER = [("type", 0, 4), ("size", 4, 4)]
MBI_HEADER = [("total_size", 0, 4), ("reserved", 4, 4)]

# struct multiboot_mmap_entry (24 bytes, entry_version 0)
MMAP_ENTRY = dict(ty="MemoryArea", size=24, fields=[("addr", 0, 8), ("len", 8, 8), ("type", 16, 4), ("zero", 20, 4)])
# struct multiboot_color (3 bytes) and the direct-RGB descriptor (6 bytes)
FB_COLOR = dict(ty="FramebufferColor", size=3, fields=[("red", 0, 1), ("green", 1, 1), ("blue", 2, 1)])
FB_PALETTE_COUNT_WIDTH = 2
FB_RGB_FIELDS = ["red_field_position", "red_mask_size", "green_field_position", "green_mask_size",
                 "blue_field_position", "blue_mask_size"]

# UEFI EFI_MEMORY_DESCRIPTOR, version 1 (40 bytes incl. padding after Type)
EFI_MEMORY_DESCRIPTOR = dict(size=40, align=8, version=1,
                             fields=[("Type", 0, 4), ("PhysicalStart", 8, 8), ("VirtualStart", 16, 8),
                                     ("NumberOfPages", 24, 8), ("Attribute", 32, 8)])

# ELF gABI section headers
ELF32_SHDR = dict(size=40, fields=[("sh_name", 0, 4), ("sh_type", 4, 4), ("sh_flags", 8, 4), ("sh_addr", 12, 4),
                                   ("sh_offset", 16, 4), ("sh_size", 20, 4), ("sh_link", 24, 4), ("sh_info", 28, 4),
                                   ("sh_addralign", 32, 4), ("sh_entsize", 36, 4)])
ELF64_SHDR = dict(size=64, fields=[("sh_name", 0, 4), ("sh_type", 4, 4), ("sh_flags", 8, 8), ("sh_addr", 16, 8),
                                   ("sh_offset", 24, 8), ("sh_size", 32, 8), ("sh_link", 40, 4), ("sh_info", 44, 4),
                                   ("sh_addralign", 48, 8), ("sh_entsize", 56, 8)])

# ACPI RSDP
RSDP_V1_LEN = 20
RSDP_V2_LEN = 36

# ---------------------------------------------------------------------------------------------
# Multiboot2 header (multiboot2.h `struct multiboot_header*`)
MB2_HEADER = dict(ty="Multiboot2BasicHeader", size=16,
                  fields=[("magic", 0, 4), ("architecture", 4, 4), ("header_length", 8, 4), ("checksum", 12, 4)])
HEADER_TAG_HEADER = [("type", 0, 2), ("flags", 2, 2), ("size", 4, 4)]
HEADER_TAGS = {
    "End":                dict(num=0, ty="EndHeaderTag", fixed=8, var=None, fields=[]),
    "InformationRequest": dict(num=1, ty="InformationRequestHeaderTag", fixed=8, var=4, fields=[]),
    "Address":            dict(num=2, ty="AddressHeaderTag", fixed=24, var=None,
                               fields=[("header_addr", 8, 4), ("load_addr", 12, 4), ("load_end_addr", 16, 4), ("bss_end_addr", 20, 4)]),
    "EntryAddress":       dict(num=3, ty="EntryAddressHeaderTag", fixed=12, var=None, fields=[("entry_addr", 8, 4)]),
    "ConsoleFlags":       dict(num=4, ty="ConsoleHeaderTag", fixed=12, var=None, fields=[("console_flags", 8, 4)]),
    "Framebuffer":        dict(num=5, ty="FramebufferHeaderTag", fixed=20, var=None,
                               fields=[("width", 8, 4), ("height", 12, 4), ("depth", 16, 4)]),
    "ModuleAlign":        dict(num=6, ty="ModuleAlignHeaderTag", fixed=8, var=None, fields=[]),
    "EfiBS":              dict(num=7, ty="EfiBootServiceHeaderTag", fixed=8, var=None, fields=[]),
    "EntryAddressEFI32":  dict(num=8, ty="EntryEfi32HeaderTag", fixed=12, var=None, fields=[("entry_addr", 8, 4)]),
    "EntryAddressEFI64":  dict(num=9, ty="EntryEfi64HeaderTag", fixed=12, var=None, fields=[("entry_addr", 8, 4)]),
    "Relocatable":        dict(num=10, ty="RelocatableHeaderTag", fixed=24, var=None,
                               fields=[("min_addr", 8, 4), ("max_addr", 12, 4), ("align", 16, 4), ("preference", 20, 4)]),
}

# ---------------------------------------------------------------------------------------------
# VBE 3.0  VbeInfoBlock (512 bytes) and ModeInfoBlock (256 bytes): (field, offset, width)
VBE_INFO_BLOCK = dict(size=512, fields=[
    ("VbeSignature", 0, 4), ("VbeVersion", 4, 2), ("OemStringPtr", 6, 4), ("Capabilities", 10, 4), ("VideoModePtr", 14, 4),
    ("TotalMemory", 18, 2), ("OemSoftwareRev", 20, 2), ("OemVendorNamePtr", 22, 4), ("OemProductNamePtr", 26, 4),
    ("OemProductRevPtr", 30, 4), ("Reserved", 34, 222), ("OemData", 256, 256)])
VBE_MODE_INFO_BLOCK = dict(size=256, fields=[
    ("ModeAttributes", 0, 2), ("WinAAttributes", 2, 1), ("WinBAttributes", 3, 1), ("WinGranularity", 4, 2), ("WinSize", 6, 2),
    ("WinASegment", 8, 2), ("WinBSegment", 10, 2), ("WinFuncPtr", 12, 4), ("BytesPerScanLine", 16, 2),
    ("XResolution+YResolution", 18, 4), ("XCharSize+YCharSize", 22, 2), ("NumberOfPlanes", 24, 1), ("BitsPerPixel", 25, 1),
    ("NumberOfBanks", 26, 1), ("MemoryModel", 27, 1), ("BankSize", 28, 1), ("NumberOfImagePages", 29, 1), ("Reserved", 30, 1),
    ("RedMaskSize+RedFieldPosition", 31, 2), ("GreenMaskSize+GreenFieldPosition", 33, 2), ("BlueMaskSize+BlueFieldPosition", 35, 2),
    ("RsvdMaskSize+RsvdFieldPosition", 37, 2), ("DirectColorModeInfo", 39, 1), ("PhysBasePtr", 40, 4), ("OffScreenMemOffset", 44, 4),
    ("OffScreenMemSize", 48, 2), ("Reserved2", 50, 206)])
# crate field name -> VBE field (API table from the field documentation of VBEControlInfo / VBEModeInfo)
VBE_CONTROL_FIELDS = {"signature": "VbeSignature", "version": "VbeVersion", "oem_string_ptr": "OemStringPtr", "capabilities": "Capabilities",
                      "mode_list_ptr": "VideoModePtr", "total_memory": "TotalMemory", "oem_software_revision": "OemSoftwareRev",
                      "oem_vendor_name_ptr": "OemVendorNamePtr", "oem_product_name_ptr": "OemProductNamePtr",
                      "oem_product_revision_ptr": "OemProductRevPtr", "reserved": "Reserved", "oem_data": "OemData"}
VBE_MODE_FIELDS = {"mode_attributes": "ModeAttributes", "window_a_attributes": "WinAAttributes", "window_b_attributes": "WinBAttributes",
                   "window_granularity": "WinGranularity", "window_size": "WinSize", "window_a_segment": "WinASegment",
                   "window_b_segment": "WinBSegment", "window_function_ptr": "WinFuncPtr", "pitch": "BytesPerScanLine",
                   "resolution": "XResolution+YResolution", "character_size": "XCharSize+YCharSize", "number_of_planes": "NumberOfPlanes",
                   "bpp": "BitsPerPixel", "number_of_banks": "NumberOfBanks", "memory_model": "MemoryModel", "bank_size": "BankSize",
                   "number_of_image_pages": "NumberOfImagePages", "reserved0": "Reserved", "red_field": "RedMaskSize+RedFieldPosition",
                   "green_field": "GreenMaskSize+GreenFieldPosition", "blue_field": "BlueMaskSize+BlueFieldPosition",
                   "reserved_field": "RsvdMaskSize+RsvdFieldPosition", "direct_color_attributes": "DirectColorModeInfo",
                   "framebuffer_base_ptr": "PhysBasePtr", "offscreen_memory_offset": "OffScreenMemOffset",
                   "offscreen_memory_size": "OffScreenMemSize", "reserved1": "Reserved2"}

# ---------------------------------------------------------------------------------------------
# API tables: public accessor -> specified field of the kind (names as in MBI_TAGS / HEADER_TAGS `fields`,
# "hdr.type" / "hdr.size" / "hdr.flags" for the common header).  Accessors that are not plain field reads are
# listed in COMPOUND_ACCESSORS with the property/premise that decides them.
MBI_ACCESSORS = {
    "ApmTag": {"version": "version", "cseg": "cseg", "offset": "offset", "cset_16": "cseg_16", "dseg": "dseg", "flags": "flags",
               "cseg_len": "cseg_len", "cseg_16_len": "cseg_16_len", "dseg_len": "dseg_len"},
    "BootLoaderNameTag": {"size": "hdr.size"},
    "BootdevTag": {"biosdev": "biosdev", "slice": "slice", "part": "part"},
    "EFIImageHandle32Tag": {"image_handle": "pointer"}, "EFIImageHandle64Tag": {"image_handle": "pointer"},
    "EFISdt32Tag": {"sdt_address": "pointer"}, "EFISdt64Tag": {"sdt_address": "pointer"},
    "ElfSectionsTag": {"number_of_sections": "num", "entry_size": "entsize", "shndx": "shndx"},
    "FramebufferTag": {"address": "framebuffer_addr", "pitch": "framebuffer_pitch", "width": "framebuffer_width",
                       "height": "framebuffer_height", "bpp": "framebuffer_bpp"},
    "ImageLoadPhysAddrTag": {"load_base_addr": "load_base_addr"},
    "BasicMemoryInfoTag": {"memory_lower": "mem_lower", "memory_upper": "mem_upper"},
    "MemoryMapTag": {"entry_size": "entry_size", "entry_version": "entry_version"},
    "ModuleTag": {"start_address": "mod_start", "end_address": "mod_end"},
    "RsdpV1Tag": {"revision": "revision", "rsdt_address": "rsdt_address"},
    "RsdpV2Tag": {"revision": "revision", "xsdt_address": "xsdt_address", "ext_checksum": "extended_checksum"},
    "SmbiosTag": {"major": "major", "minor": "minor"},
    "VBEInfoTag": {"mode": "vbe_mode", "interface_segment": "vbe_interface_seg", "interface_offset": "vbe_interface_off",
                   "interface_length": "vbe_interface_len", "control_info": "vbe_control_info", "mode_info": "vbe_mode_info"},
}
MMAP_ENTRY_ACCESSORS = {"start_address": "addr", "size": "len", "typ": "type"}
# (type, accessor) -> where it is decided
COMPOUND_ACCESSORS = {
    ("BootLoaderNameTag", "name"): "C17", ("BootLoaderNameTag", "typ"): "G6 decoder TagType::from(hdr.type)",
    ("CommandLineTag", "cmdline"): "C17", ("ModuleTag", "cmdline"): "C17", ("ModuleTag", "module_size"): "G6 mod_end - mod_start",
    ("ElfSectionsTag", "sections"): "C19", ("EFIMemoryMapTag", "memory_areas"): "C18", ("MemoryMapTag", "memory_areas"): "C05",
    ("SmbiosTag", "tables"): "C05", ("FramebufferTag", "buffer_type"): "G4/G6", ("MemoryArea", "end_address"): "G6 addr + len",
    ("RsdpV1Tag", "signature"): "G6 from_utf8(signature)", ("RsdpV1Tag", "oem_id"): "G6 from_utf8(oemid)", ("RsdpV1Tag", "checksum_is_valid"): "G6",
    ("RsdpV2Tag", "signature"): "G6 from_utf8(signature)", ("RsdpV2Tag", "oem_id"): "G6 from_utf8(oemid)", ("RsdpV2Tag", "checksum_is_valid"): "G6",
}
# typed getter of BootInformation -> kind
MBI_GETTERS = {
    "apm_tag": "Apm", "basic_memory_info_tag": "BasicMeminfo", "boot_loader_name_tag": "BootLoaderName", "bootdev_tag": "Bootdev",
    "command_line_tag": "Cmdline", "efi_bs_not_exited_tag": "EfiBs", "efi_sdt32_tag": "Efi32", "efi_sdt64_tag": "Efi64",
    "efi_ih32_tag": "Efi32Ih", "efi_ih64_tag": "Efi64Ih", "elf_sections_tag": "ElfSections", "load_base_addr_tag": "LoadBaseAddr",
    "memory_map_tag": "Mmap", "network_tag": "Network", "rsdp_v1_tag": "AcpiV1", "rsdp_v2_tag": "AcpiV2", "smbios_tag": "Smbios",
    "vbe_info_tag": "Vbe",
}
MBI_WRAPPER_GETTERS = {"efi_memory_map_tag": "EfiMmap", "framebuffer_tag": "Framebuffer", "elf_sections": "ElfSections", "module_tags": "Module"}

HEADER_ACCESSORS = {
    "AddressHeaderTag": {"header_addr": "header_addr", "load_addr": "load_addr", "load_end_addr": "load_end_addr", "bss_end_addr": "bss_end_addr"},
    "ConsoleHeaderTag": {"console_flags": "console_flags"},
    "EntryAddressHeaderTag": {"entry_addr": "entry_addr"}, "EntryEfi32HeaderTag": {"entry_addr": "entry_addr"},
    "EntryEfi64HeaderTag": {"entry_addr": "entry_addr"},
    "FramebufferHeaderTag": {"width": "width", "height": "height", "depth": "depth"},
    "RelocatableHeaderTag": {"min_addr": "min_addr", "max_addr": "max_addr", "align": "align", "preference": "preference"},
    "EndHeaderTag": {}, "ModuleAlignHeaderTag": {}, "EfiBootServiceHeaderTag": {}, "InformationRequestHeaderTag": {},
}
HEADER_COMMON_ACCESSORS = {"typ": "hdr.type", "flags": "hdr.flags", "size": "hdr.size"}
HEADER_GETTERS = {
    "information_request_tag": "InformationRequest", "address_tag": "Address", "entry_address_tag": "EntryAddress",
    "entry_address_efi32_tag": "EntryAddressEFI32", "entry_address_efi64_tag": "EntryAddressEFI64", "console_flags_tag": "ConsoleFlags",
    "framebuffer_tag": "Framebuffer", "module_align_tag": "ModuleAlign", "efi_boot_services_tag": "EfiBS", "relocatable_tag": "Relocatable",
}
MB2_HEADER_ACCESSORS = {"header_magic": "magic", "arch": "architecture", "length": "header_length", "checksum": "checksum"}


# named bit constants of the flag types, by (type name, constant name) -> specified bit value.
# ELF gABI (sh_flags): SHF_WRITE 0x1, SHF_ALLOC 0x2, SHF_EXECINSTR 0x4.
ELF_FLAG_CONSTANTS = {
    ("ElfSectionFlags", "WRITABLE"): 0x1, ("ElfSectionFlags", "ALLOCATED"): 0x2, ("ElfSectionFlags", "EXECUTABLE"): 0x4,
}
# VBE 3.0: VbeInfoBlock.Capabilities D0 DAC switchable to 8 bit, D1 controller not VGA compatible, D2 RAMDAC needs the blank bit;
# ModeInfoBlock.ModeAttributes D0 mode supported, D2 TTY output functions, D3 colour, D4 graphics, D5 not VGA compatible,
# D6 no VGA-compatible windowed mode, D7 linear frame buffer; WinA/BAttributes D0 relocatable, D1 readable, D2 writeable;
# DirectColorModeInfo D0 colour ramp programmable, D1 reserved bits usable
VBE_FLAG_CONSTANTS = {
    ("VBECapabilities", "SWITCHABLE_DAC"): 0x1, ("VBECapabilities", "NOT_VGA_COMPATIBLE"): 0x2, ("VBECapabilities", "RAMDAC_FIX"): 0x4,
    ("VBEModeAttributes", "SUPPORTED"): 0x1, ("VBEModeAttributes", "TTY_SUPPORTED"): 0x4, ("VBEModeAttributes", "COLOR"): 0x8,
    ("VBEModeAttributes", "GRAPHICS"): 0x10, ("VBEModeAttributes", "NOT_VGA_COMPATIBLE"): 0x20, ("VBEModeAttributes", "NO_VGA_WINDOW"): 0x40,
    ("VBEModeAttributes", "LINEAR_FRAMEBUFFER"): 0x80,
    ("VBEWindowAttributes", "RELOCATABLE"): 0x1, ("VBEWindowAttributes", "READABLE"): 0x2, ("VBEWindowAttributes", "WRITEABLE"): 0x4,
    ("VBEDirectColorAttributes", "PROGRAMMABLE"): 0x1, ("VBEDirectColorAttributes", "RESERVED_USABLE"): 0x2,
}

# VBE 3.0 ModeInfoBlock.MemoryModel: 00h text, 01h CGA graphics, 02h Hercules graphics, 03h planar, 04h packed pixel,
# 05h non-chain 4 / 256 colour, 06h direct colour, 07h YUV (08h-0Fh reserved by VESA, 10h-FFh OEM defined)
VBE_MEMORY_MODELS = {0: "Text", 1: "CGAGraphics", 2: "HerculesGraphics", 3: "Planar", 4: "PackedPixel", 5: "Unchained", 6: "DirectColor", 7: "YUV"}
