"""Counter invariants of private iterator structs, discovered and proved structurally:

   S.a <= S.b   holds for every value of S  if
     (1) all fields of S are private and every aggregate construction of S outside derived impls sets a to constant 0,
     (2) field b is never written after construction,
     (3) every write to field a is `a + 1` at a point where the fact a < b holds.

Used as a type-invariant fact source by GUARD (e.g. EFIMemoryAreaIter: i <= entries).

Stride invariants (stride_invariants): for a struct with private fields R: &[u8] and D: usize,
   len(S.R) % S.D == 0   holds for every value of S  if
     (1) every aggregate construction of S outside derived impls happens where the fact len(R) % D == 0 holds for the values given,
     (2) D is never written after construction,
     (3) every write to R stores the rest of the current R after its first D bytes (`R.split_at(D).1` / `&R[D..]`).
(A cursor over a slice that is consumed D bytes at a time.)"""
from . import mir as M

_cache = {}


def adt_path_of(F, ty):
    t = F.ty(ty) or {}
    while t.get("kind") in ("ref", "ptr"):
        t = F.ty(t.get("pointee")) or {}
    return t.get("adt") if t.get("kind") == "adt" else None


def counter_invariants(F):
    if id(F) in _cache:
        return _cache[id(F)]
    _cache[id(F)] = {}
    from . import an, guard as G
    out = {}
    # candidate structs: private fields, >= 2 usize fields
    for key, a in F.adts.items():
        if key.startswith("generic ") or a.get("kind") != "struct" or a.get("crate") not in ("multiboot2", "multiboot2_header", "multiboot2_common"):
            continue
        fl = a.get("fields", [])
        us = [f for f in fl if f["ty"] == "usize"]
        if len(us) < 2 or any(f["pub"] for f in fl):
            continue
        path = a["path"]
        ctor_vals = {f["i"]: [] for f in us}
        writes = {f["i"]: [] for f in us}
        ok = True
        for k, inst in F.insts.items():
            body = None
            for bi, bb in enumerate(inst["body"]["blocks"]):
                if bb.get("cleanup"):
                    continue
                for si, st in enumerate(bb["s"]):
                    if st["k"] != "assign":
                        continue
                    rv = st["rv"]
                    if rv["k"] == "aggr" and rv.get("adt") == path and not inst.get("derived"):
                        A = an.of(F, inst)
                        ops = [A.tb.operand(o, (bi, si)) for o in rv["ops"]]
                        for f in us:
                            ctor_vals[f["i"]].append(ops[f["i"]])
                    lhs = st["lhs"]
                    p = lhs.get("p") or []
                    if len(p) >= 2 and p[0] == "*" and isinstance(p[1], dict) and "f" in p[1]:
                        if adt_path_of(F, inst["body"]["locals"][lhs["l"]]["ty"]) == path and p[1]["f"] in writes:
                            A = an.of(F, inst)
                            val = A.tb.rvalue(rv, (bi, si), st)
                            writes[p[1]["f"]].append((inst, bi, si, val, A))
        for fa in us:
            for fb in us:
                if fa is fb:
                    continue
                ia, ib = fa["i"], fb["i"]
                if writes[ib]:
                    continue
                if not ctor_vals[ia] or any(v != ("c", 0) for v in ctor_vals[ia]):
                    continue
                good = bool(writes[ia])
                for (inst, bi, si, val, A) in writes[ia]:
                    selfl = ("arg", 1, A.body.local_ty(1))
                    cur_a = ("fld", ("deref", selfl), ia, fa["name"], "usize")
                    cur_b = ("fld", ("deref", selfl), ib, fb["name"], "usize")
                    nv = G.N(val)
                    if nv != ("bin", "Add", G.N(cur_a), ("c", 1)):
                        good = False
                        break
                    facts = A.g.facts_at(bi)
                    if G.entails(facts, ("cmp", "Lt", cur_a, cur_b)) is None:
                        good = False
                        break
                if good:
                    out.setdefault(path, []).append((ia, fa["name"], ib, fb["name"]))
    _cache[id(F)] = out
    an._cache.clear()   # analyses memoised while the invariants were being computed lack them
    return out


_cache2 = {}


def stride_invariants(F):
    if id(F) in _cache2:
        return _cache2[id(F)]
    _cache2[id(F)] = {}
    from . import an, guard as G
    out = {}
    for key, a in F.adts.items():
        if key.startswith("generic ") or a.get("kind") != "struct" or a.get("crate") not in ("multiboot2", "multiboot2_header", "multiboot2_common"):
            continue
        fl = a.get("fields", [])
        rs = [f for f in fl if str(f["ty"]).replace("'_ ", "").replace("'a ", "") in ("&[u8]",) or str(f["ty"]).endswith("[u8]") and str(f["ty"]).startswith("&") and "mut" not in str(f["ty"])]
        ds = [f for f in fl if f["ty"] == "usize"]
        if len(rs) != 1 or len(ds) != 1 or any(f["pub"] for f in fl):
            continue
        fr, fd = rs[0], ds[0]
        path = a["path"]
        good = True
        n_ctor = 0
        n_write = 0
        for k, inst in F.insts.items():
            for bi, bb in enumerate(inst["body"]["blocks"]):
                if bb.get("cleanup") or not good:
                    continue
                for si, st in enumerate(bb["s"]):
                    if st["k"] != "assign":
                        continue
                    rv = st["rv"]
                    if rv["k"] == "aggr" and rv.get("adt") == path and not inst.get("derived"):
                        A = an.of(F, inst)
                        ops = [A.tb.operand(o, (bi, si)) for o in rv["ops"]]
                        need = ("cmp", "Eq", ("bin", "Rem", ("len", ops[fr["i"]]), ops[fd["i"]], "usize"), ("c", 0))
                        nf = [G.N(f) for f in A.g.facts_at(bi)]
                        if G.N(need) not in nf:
                            good = False
                        n_ctor += 1
                    lhs = st["lhs"]
                    p = lhs.get("p") or []
                    if len(p) >= 2 and p[0] == "*" and isinstance(p[1], dict) and "f" in p[1] and \
                            adt_path_of(F, inst["body"]["locals"][lhs["l"]]["ty"]) == path:
                        if p[1]["f"] == fd["i"]:
                            good = False
                        elif p[1]["f"] == fr["i"]:
                            A = an.of(F, inst)
                            val = G.N(A.tb.rvalue(rv, (bi, si), st))
                            selfl = ("arg", 1)
                            cur_r = ("fld", ("deref", selfl), fr["i"])
                            cur_d = ("fld", ("deref", selfl), fd["i"])
                            want = ("sub", cur_r, cur_d, ("len", cur_r))
                            if lhs["l"] != 1 or val != want:
                                good = False
                            n_write += 1
        if good and n_ctor >= 1:
            out.setdefault(path, []).append((fr["i"], fr["name"], fr["ty"], fd["i"], fd["name"]))
    _cache2[id(F)] = out
    an._cache.clear()
    return out
