"""SLICE: sub-slices of one base slice in one form, so that bounds tests written with `get`, with explicit length
comparisons, or implied by indexing all become linear constraints over (len(base), offsets).

  ("sub", B, lo, hi)      B[lo..hi]  (lo, hi integer terms; B a base slice term that is not itself a sub-slice)
  ("elem", B, i)          B[i]
  ("le32", B, off)        u32::from_le_bytes(B[off..off+4])   - however the four bytes are gathered

norm(t, facts) rewrites, bottom-up, on N-form terms:
  index(X, a..b | a.. | ..b | ..)      -> sub            (the call returned, so the range was in bounds)
  get(X, range)                          -> ite(in-bounds?, Some(sub), None)  as nested single-condition ites
  Option::unwrap_or(ite(c, Some(x), None), d) -> ite(c, x, d)
  ite(c, a, b) with facts |- c / not c   -> a / b
  len(sub)                                -> hi - lo
  idx / constant-index of a sub          -> elem
  from_le_bytes of 4 consecutive elems, of <[u8;4]>::try_from(sub of length 4).unwrap(), of an array filled by
  copy_from_slice(sub)                   -> le32
  u32 -> usize conversions (TryFrom .. unwrap, `as`)  -> the value

norm_fact(f, facts) does the same for facts; a fact `discr(get(..)) == Some/None` becomes the bounds condition (a list of
facts, or an ("or", ..) for the negation of a conjunction)."""
from . import guard as G
from .guard import N, cn

RANGE = "core::ops::range::"


def _range(t):
    """(kind, ops) of a range aggregate"""
    if isinstance(t, tuple) and t and t[0] == "aggr" and isinstance(t[1], tuple) and t[1][0] == "adt" and str(t[1][1]).startswith(RANGE):
        return t[1][1][len(RANGE):], t[2]
    return None, None


def add(a, b):
    if a == ("c", 0):
        return b
    if b == ("c", 0):
        return a
    if a[0] == "c" and b[0] == "c":
        return ("c", a[1] + b[1])
    return ("bin", "Add", a, b)


def same(a, b):
    try:
        return G.lin(a).key() == G.lin(b).key()
    except Exception:
        return a == b


def as_sub(x):
    """(B, lo, hi) of a slice-valued term in normal form"""
    if isinstance(x, tuple) and x and x[0] == "sub":
        return x[1], x[2], x[3]
    return x, ("c", 0), ("len", x)


def mk_sub(B, lo, hi):
    if lo == ("c", 0) and hi == ("len", B):
        return B
    return ("sub", B, lo, hi)


def _is_index(t):
    return t[0] == "call" and (cn(t[1]) == "core::slice::index::index" or "core::ops::index::Index<" in str(t[1]) and str(t[1]).split("::<")[0].endswith(">::index")
                               or str(t[1]).startswith("core::slice::index::<impl core::ops::index::Index<")) and len(t[2]) == 2


def _is_get(t):
    return t[0] == "call" and cn(t[1]) == "core::slice::get" and len(t[2]) == 2


SOME = ("adt", "core::option::Option", "Some", ("0",))
NONE = ("adt", "core::option::Option", "None", ())


def some(x):
    return ("aggr", SOME, (x,))


def none():
    return ("aggr", NONE, ())


class Norm:
    def __init__(self, facts=(), A=None):
        self.facts = list(facts)
        self.A = A
        self.memo = {}

    def assume(self, extra):
        return Norm(self.facts + [f for f in extra if f not in self.facts], self.A)

    def holds(self, c):
        """True / False / None for a condition fact under the known facts"""
        if c[0] == "const":
            return bool(c[1])
        if c[0] == "cmp":
            try:
                if c[2][0] == "c" and c[3][0] == "c":
                    return {"Eq": c[2][1] == c[3][1], "Ne": c[2][1] != c[3][1], "Lt": c[2][1] < c[3][1], "Le": c[2][1] <= c[3][1],
                            "Gt": c[2][1] > c[3][1], "Ge": c[2][1] >= c[3][1]}[c[1]]
                if G.entails(self.facts, c) is not None:
                    return True
                if G.entails(self.facts, G.negate(c)) is not None:
                    return False
            except Exception:
                return None
        if c in self.facts:
            return True
        if G.negate(c) in self.facts:
            return False
        return None

    def ite(self, c, a, b):
        h = self.holds(c)
        if h is True:
            return a
        if h is False:
            return b
        from . import terms as T
        return T._canon_ite(("ite", c, a, b))

    def norm(self, t):
        if not isinstance(t, tuple) or not t:
            return t
        if t in self.memo:
            return self.memo[t]
        r = self._norm(t)
        self.memo[t] = r
        return r

    def _norm(self, t):
        k = t[0]
        if k in ("c", "arg", "cs", "fn"):
            return t
        if k == "opq":
            return t
        if k == "ite":
            c = self.norm_cond(t[1])
            if len(c) == 1 and c[0][0] == "cmp":
                # each branch is normalised under the condition that selects it
                a = self.assume([c[0]]).norm(t[2])
                b = self.assume([G.negate(c[0])]).norm(t[3])
            else:
                a, b = self.norm(t[2]), self.norm(t[3])
            if len(c) == 1:
                r = self.ite(c[0], a, b)
                # a choice between two prefixes of one slice is the prefix of the chosen length
                if r[0] == "ite":
                    (B1, l1, h1), (B2, l2, h2) = as_sub(self.unref(r[2])), as_sub(self.unref(r[3]))
                    if B1 == B2 and same(l1, l2) and (r[2][0] == "sub" or r[3][0] == "sub"):
                        from . import terms as T
                        return mk_sub(B1, l1, T._canon_ite(("ite", r[1], h1, h2)))
                return r
            return ("ite", t[1], a, b)
        if k == "call":
            args = tuple(self.norm(x) for x in t[2])
            t2 = ("call", t[1], args)
            if _is_index(t2):
                X, rg = args
                kind, ops = _range(rg)
                if kind is not None:
                    X = self.unref(X)
                    B, lo, hi = as_sub(X)
                    if kind == "RangeFull":
                        return X
                    if kind == "RangeFrom":
                        return mk_sub(B, add(lo, ops[0]), hi)
                    if kind == "RangeTo":
                        return mk_sub(B, lo, add(lo, ops[0]))
                    if kind == "Range":
                        return mk_sub(B, add(lo, ops[0]), add(lo, ops[1]))
                    if kind == "RangeInclusive" and len(ops) >= 2:
                        return mk_sub(B, add(lo, ops[0]), add(lo, add(ops[1], ("c", 1))))
                return t2
            if _is_get(t2):
                X, rg = args
                kind, ops = _range(rg)
                if kind is not None:
                    X = self.unref(X)
                    B, lo, hi = as_sub(X)
                    ln = self.length(X)
                    if kind == "RangeFrom":
                        return self.ite(("cmp", "Le", ops[0], ln), some(mk_sub(B, add(lo, ops[0]), hi)), none())
                    if kind == "RangeTo":
                        return self.ite(("cmp", "Le", ops[0], ln), some(mk_sub(B, lo, add(lo, ops[0]))), none())
                    if kind == "Range":
                        inner = self.ite(("cmp", "Le", ops[1], ln), some(mk_sub(B, add(lo, ops[0]), add(lo, ops[1]))), none())
                        return self.ite(("cmp", "Le", ops[0], ops[1]), inner, none())
                    if kind == "RangeFull":
                        return some(X)
                if "::get::<usize>" in str(t[1]):
                    # s.get(i) with a plain index: Some(&s[i]) iff i < len
                    X = self.unref(X)
                    B, lo, hi = as_sub(X)
                    return self.ite(("cmp", "Lt", rg, self.length(X)), some(("ref", ("elem", B, add(lo, rg)))), none())
                return t2
            name = cn(t[1])
            if name == "core::option::Option::unwrap_or" and len(args) == 2:
                o = args[0]
                return self.opt_else(o, args[1])
            if name == "core::option::Option::and_then" or name == "core::option::Option::map":
                return t2
            if name == "core::slice::len" and len(args) == 1:
                return self.length(self.unref(args[0]))
            if "TryFrom<u32>" in str(t[1]) and "usize" in str(t[1]) and len(args) == 1:
                return ("widen", args[0])
            return t2
        if k == "unwrap" and len(t) == 2:
            x = self.norm(t[1])
            if x[0] == "widen":
                return x[1]
            if x[0] == "aggr" and x[1] == SOME:
                return x[2][0]
            return ("unwrap", x)
        if k == "len":
            return self.length(self.unref(self.norm(t[1])))
        if k == "cast" and t[1] == "IntToInt" and len(t) >= 4 and t[3] in ("usize", "u64"):
            x = self.norm(t[2])
            if x[0] in ("le32",):
                return x
            return ("cast", t[1], x) + tuple(t[3:])
        if k == "fld" and len(t) == 3:
            b = self.norm(t[1])
            if b[0] == "dc" and b[2] == 1 and t[2] == 0 and b[1][0] == "aggr" and b[1][1][:3] == SOME[:3]:
                return b[1][2][0]
            if b[0] == "dc" and b[2] == 0 and t[2] == 0 and b[1][0] == "aggr" and b[1][1][:3] == ("adt", "core::result::Result", "Ok"):
                return b[1][2][0]
            if b[0] == "dc" and b[2] == 1 and t[2] == 0 and b[1][0] == "ite":
                # payload of Some on a path where the choice is known to be Some
                return ("fld", b, 0)
            return ("fld", b, t[2])
        if k == "optderef" and len(t) == 2:
            # Option<&T>::copied / cloned
            o = self.norm(t[1])
            return self.opt_map(o, lambda x: x[1] if x[0] == "ref" else ("deref", x))
        if k == "dc":
            b = self.norm(t[1])
            if b[0] == "widen" and t[2] == 0:
                return ("dc", ("aggr", ("adt", "core::result::Result", "Ok", ("0",)), (b[1],)), 0)
            for _ in range(3):
                if b[0] == "ite" and b[1][0] == "cmp":
                    h = self.holds(b[1])
                    if h is True:
                        b = b[2]
                        continue
                    if h is False:
                        b = b[3]
                        continue
                break
            if b[0] == "aggr" and b[1][:3] == ("adt", "core::option::Option", "Some") and t[2] == 1:
                return ("dc", b, 1)
            return ("dc", b) + tuple(t[2:])
        if k == "discr":
            b = self.norm(t[1])
            if b[0] == "widen":
                return ("c", 0)        # usize::try_from(u32) is Ok (variant 0) on a 64-bit target
            if b[0] == "aggr" and b[1][:3] == ("adt", "core::result::Result", "Ok"):
                return ("c", 0)
            if b[0] == "aggr" and b[1] == SOME:
                return ("c", 1)
            if b[0] == "aggr" and b[1] == NONE:
                return ("c", 0)
            return ("discr", b)
        if k in ("idx", "cidx"):
            base = self.unref(self.norm(t[1]))
            i = self.norm(t[2]) if k == "idx" else ("c", t[2])
            if k == "cidx" and len(t) > 3 and t[3]:
                # constant index counted from the end is not used by the patterns handled here
                pass
            B, lo, hi = as_sub(base)
            if base[0] == "sub" or base[0] in ("arg",):
                return ("elem", B, add(lo, i))
            return (k, base) + tuple(t[2:])
        if k == "from_bytes" and t[1] in ("from_le_bytes", "from_ne_bytes") and t[3] == "u32":
            # native endianness is little endian on the target the layouts are for (facts: target.endian)
            src = self.norm(t[2])
            r = self.le32(src)
            if r is not None:
                return r
            return ("from_bytes", t[1], src, t[3])
        if k == "sub" and len(t) == 4:
            # a sub-slice of a sub-slice (e.g. the halves of split_at) is a sub-slice of the base
            X = self.unref(self.norm(t[1]))
            B, lo, hi = as_sub(X)
            return mk_sub(B, add(lo, self.norm(t[2])), add(lo, self.norm(t[3])))
        if k == "unsize":
            x = self.norm(t[1])
            return ("unsize", x) + tuple(t[2:])
        if k in ("ref", "deref") and len(t) == 2:
            x = self.norm(t[1])
            other = "deref" if k == "ref" else "ref"
            if isinstance(x, tuple) and x and x[0] == other and len(x) == 2:
                return x[1]
            if x[0] == "sub":
                return x              # a sub-slice is used as a value: borrows of it are the same slice
            if x[0] == "ite" and x[2][0] == "sub" or x[0] == "ite" and x[3][0] == "sub":
                return x
            return (k, x)
        if k == "bin":
            return ("bin", t[1], self.norm(t[2]), self.norm(t[3]))
        return tuple(self.norm(x) if isinstance(x, tuple) else x for x in t)

    def opt_map(self, o, f):
        if o[0] == "aggr" and o[1] == SOME:
            return some(f(o[2][0]))
        if o[0] == "aggr" and o[1] == NONE:
            return o
        if o[0] == "ite":
            return ("ite", o[1], self.opt_map(o[2], f), self.opt_map(o[3], f))
        return ("optderef", o)

    def opt_else(self, o, d):
        if o[0] == "aggr" and o[1] == SOME:
            return o[2][0]
        if o[0] == "aggr" and o[1] == NONE:
            return d
        if o[0] == "ite":
            return self.ite(o[1], self.opt_else(o[2], d), self.opt_else(o[3], d))
        return ("call", "core::option::Option::unwrap_or", (o, d))

    def unref(self, x):
        for _ in range(6):
            if x[0] == "ref" and x[1][0] in ("sub", "deref"):
                x = x[1]
            elif x[0] == "deref" and x[1][0] in ("sub", "arg", "ref"):
                x = x[1]
            elif x[0] == "ref" and x[1][0] == "arg":
                x = x[1]
            else:
                break
        return x

    def length(self, X):
        if X[0] == "rawslice" and len(X) > 2:
            return X[2]
        if X[0] == "sub":
            return ("bin", "Sub", X[3], X[2]) if X[2] != ("c", 0) else X[3]
        if X[0] == "unsize" and len(X) > 3 and str(X[3]).startswith(("&[", "&mut [")) and ";" in str(X[3]):
            try:
                return ("c", int(str(X[3]).rsplit(";", 1)[1].strip(" ]")))
            except ValueError:
                pass
        if X[0] == "ite":
            return ("ite", X[1], self.length(X[2]), self.length(X[3]))
        return ("len", X)

    def le32(self, src):
        """src: the [u8; 4] value handed to from_le_bytes"""
        # the Ok payload of <[u8; 4]>::try_from(slice) taken by a match / `.ok()` instead of unwrap(): the same array
        if src[0] == "fld" and src[2] == 0 and src[1][0] == "dc" and src[1][2] == 0 and src[1][1][0] == "call" and \
                "TryFrom<&[u8]> for [u8; 4]" in str(src[1][1][1]):
            src = ("unwrap", src[1][1])
        if src[0] == "try_ok" and src[1][0] == "call" and "TryFrom<&[u8]> for [u8; 4]" in str(src[1][1]):
            src = ("unwrap", src[1])
        # <[u8; 4]>::try_from(slice).unwrap()
        if src[0] == "unwrap" and src[1][0] == "call" and ("TryFrom<&[u8]> for [u8; 4]" in str(src[1][1]) or "TryFrom<&[T]> for [T; N]" in str(src[1][1])) and len(src[1][2]) == 1:
            s_ = self.unref(src[1][2][0])
            if s_[0] == "fld" and s_[2] == 0 and s_[1][0] == "dc":
                return None
            B, lo, hi = as_sub(s_)
            if s_[0] == "sub" and same(("bin", "Sub", hi, lo), ("c", 4)):
                return ("le32", B, G.canon(lo))
            return None
        # [b0, b1, b2, b3] of four consecutive elements
        if src[0] == "aggr" and src[1] == ("array",) and len(src[2]) == 4:
            es = [self.unref(x) for x in src[2]]
            if all(e[0] == "elem" and e[1] == es[0][1] for e in es):
                if all(same(es[i][2], add(es[0][2], ("c", i))) for i in range(4)):
                    return ("le32", es[0][1], G.canon(es[0][2]))
        # an array local filled by copy_from_slice(sub): represented by the clobbering call
        if src[0] == "opq" and self.A is not None:
            v = self.filled_by(src)
            if v is not None:
                B, lo, hi = as_sub(v)
                if v[0] == "sub" and same(("bin", "Sub", hi, lo), ("c", 4)):
                    return ("le32", B, G.canon(lo))
        return None

    def filled_by(self, opq):
        """the slice an array local was filled from by `<[u8]>::copy_from_slice(&mut local, src)`, if that call is what the
        opaque value stands for"""
        A = self.A
        sites = [x for x in opq if isinstance(x, tuple)]
        flat = []

        def walk(x):
            if isinstance(x, tuple):
                if len(x) == 2 and x[0] == "clobber" and isinstance(x[1], int):
                    flat.append(x[1])
                for y in x:
                    walk(y)
        walk(opq)
        if len(flat) != 1:
            return None
        bb = flat[0]
        t = A.body.term(bb)
        from . import mir as M
        if t["k"] != "call" or not (M.callee_path(t) or "").endswith("copy_from_slice"):
            return None
        at = (bb, len(A.body.stmts(bb)))
        return self.unref(self.norm(N(A.tb.operand(t["args"][1], at))))

    # ---- conditions and facts
    def norm_cond(self, c):
        """list of facts equivalent to the condition (conjunction)"""
        if c[0] == "cmp":
            a, b = self.norm(c[2]), self.norm(c[3])
            # discriminant of a normalised Option
            for (x, y, op) in ((a, b, c[1]), (b, a, G.SWAP.get(c[1], c[1]))):
                if x[0] == "discr" and y[0] == "c" and x[1][0] == "ite" and op in ("Eq", "Ne"):
                    want_some = (y[1] == 1) == (op == "Eq")
                    r = self.option_is(x[1], want_some)
                    if r is not None:
                        return r
                if x[0] == "c" and y[0] == "c":
                    return [("const", bool({"Eq": x[1] == y[1], "Ne": x[1] != y[1], "Lt": x[1] < y[1], "Le": x[1] <= y[1], "Gt": x[1] > y[1], "Ge": x[1] >= y[1]}[op]))]
            try:
                d_ = G.lin(a).add(G.lin(b), -1)
                if d_.is_const():
                    v_ = d_.c
                    return [("const", bool({"Eq": v_ == 0, "Ne": v_ != 0, "Lt": v_ < 0, "Le": v_ <= 0, "Gt": v_ > 0, "Ge": v_ >= 0}[c[1]]))]
            except Exception:
                pass
            return [("cmp", c[1], a, b)]
        if c[0] == "not":
            inner = self.norm_cond(c[1])
            if len(inner) == 1:
                return [G.negate(inner[0])]
            return [("or", tuple((G.negate(x),) for x in inner))]
        if c[0] in ("istrue", "is_some", "is_ok"):
            return [(c[0], self.norm(c[1]))]
        if c[0] == "or":
            return [("or", tuple(tuple(y for x in conj for y in self.norm_cond(x)) for conj in c[1]))]
        return [c]

    def option_is(self, o, want_some):
        """facts for `o is Some` (want_some) / `o is None` where o is a nest of single-condition ites over Some / None leaves;
        only the shapes produced by `get` are handled: ite(c1, ite(c2, Some, None), None)"""
        conds = []
        x = o
        while x[0] == "ite" and x[3][0] == "aggr" and x[3][1] == NONE:
            conds.append(x[1])
            x = x[2]
        if not (x[0] == "aggr" and x[1] == SOME) or not conds:
            return None
        if want_some:
            return list(conds)
        if len(conds) == 1:
            return [G.negate(conds[0])]
        return [("or", tuple((G.negate(c),) for c in conds))]


def norm_facts(facts, A=None, rounds=3):
    """normalise a fact list to a fixpoint: facts established earlier simplify the choices inside later ones"""
    cur = [N(f) for f in facts]
    for _ in range(rounds):
        nm = Norm([f for f in cur if f[0] == "cmp"], A)
        out = []
        for f in cur:
            for g in nm.norm_cond(f):
                if g == ("const", False) and f != ("const", False):
                    # keep what was contradictory, for the report
                    out.append(("const", False))
                    continue
                if g != ("const", True) and g not in out:
                    out.append(g)
        if out == cur:
            break
        cur = out
    return cur
