"""WITNESS: compile-fail / compile-pass doc-test pairs (nothing is executed: every test is compile_fail or no_run)."""
import os
import re
import shutil
import subprocess
import tempfile

from . import facts as FA

SRC = os.path.join(FA.VERIF, "witnesses", "src", "lib.rs")


def run_witnesses():
    """returns {witness struct name: {'fail_ok': bool, 'twin_ok': bool}} and the raw log"""
    repo = FA.REPO
    d = tempfile.mkdtemp(prefix="mb2wit.")
    try:
        os.makedirs(os.path.join(d, "src"))
        shutil.copy(SRC, os.path.join(d, "src", "lib.rs"))
        with open(os.path.join(d, "Cargo.toml"), "w") as fh:
            fh.write('[package]\nname = "mb2witnesses"\nversion = "0.0.0"\nedition = "2021"\n\n[lib]\npath = "src/lib.rs"\n\n[dependencies]\n'
                     'multiboot2 = { path = "%s/multiboot2" }\nmultiboot2-header = { path = "%s/multiboot2-header" }\nmultiboot2-common = { path = "%s/multiboot2-common" }\n\n'
                     '[patch.crates-io]\nmultiboot2 = { path = "%s/multiboot2" }\nmultiboot2-common = { path = "%s/multiboot2-common" }\nmultiboot2-header = { path = "%s/multiboot2-header" }\n\n[workspace]\n'
                     % ((repo,) * 6))
        shutil.copy(os.path.join(repo, "Cargo.lock"), os.path.join(d, "Cargo.lock"))
        env = dict(os.environ, CARGO_NET_OFFLINE="true", CARGO_TARGET_DIR=os.path.join(d, "target"))
        env.pop("RUSTC_WORKSPACE_WRAPPER", None)
        r = subprocess.run(["cargo", "+nightly", "test", "--doc", "--offline"], cwd=d, env=env, stdout=subprocess.PIPE, stderr=subprocess.STDOUT, text=True)
        log = r.stdout
        res = {}
        for m in re.finditer(r"test src/lib\.rs - (\w+) \(line \d+\)( - compile fail)?( - compile)? \.\.\. (\w+)", log):
            name, cf, nr, status = m.group(1), m.group(2), m.group(3), m.group(4)
            e = res.setdefault(name, {"fail_ok": None, "twin_ok": None})
            if cf:
                e["fail_ok"] = status == "ok"
            else:
                e["twin_ok"] = status == "ok"
        return res, log
    finally:
        shutil.rmtree(d, ignore_errors=True)


_RES = {}


def check(ctx, names, rule="WITNESS"):
    if "r" not in _RES:
        _RES["r"] = run_witnesses()
    res, log = _RES["r"]
    for n, what in names:
        e = res.get(n)
        ok = bool(e) and e["fail_ok"] is True and e["twin_ok"] is True
        ctx.check(ok, rule, n, what + " (violating program fails to compile with the expected error code; its twin, differing only in the offending line, compiles)",
                  "witnesses/src/lib.rs", how="compile_fail ok + twin compiles", why="result %s; log tail: %s" % (e, log[-400:]))
