"""TERMS: value terms over MIR (value numbering, no path enumeration).

A term is a nested tuple.  Tags:
  ('c', int)                      integer / bool constant
  ('cs', text)                    other constant (string, unit, enum-valued const text)
  ('fn', pretty)                  function item value
  ('arg', i, ty)                  i-th argument (1-based MIR local)
  ('deref', t) ('ref', t, mut)    memory read / address-of  (deref(ref(x)) == x)
  ('fld', t, idx, name, ty)       field projection
  ('dc', t, variant_idx)          enum downcast
  ('idx', t, ti) ('cidx', t, off, from_end) ('sub', t, a, b, from_end)
  ('cast', kind, t, to, frm)      casts that change the value domain (truncations, ptr<->int, transmute)
  ('bin', op, a, b) ('un', op, a)
  ('len', t)                      slice length (PtrMetadata / slice::len)
  ('call', key, args, site)       un-inlined call; site is None for pure callees
  ('aggr', desc, ops)             aggregate (desc = ('adt', name, variant) | ('tuple',) | ('array',) | ('closure', def) | ('rawptr',))
  ('discr', t)
  ('opq', what...)                opaque (phi of several definitions, clobbered memory, ...)
  ('padd', base, byte_off)        pointer arithmetic in bytes
"""
from . import mir as M

MAX_INLINE = 4

INT_BITS = {"u8": 8, "u16": 16, "u32": 32, "u64": 64, "u128": 128, "usize": 64,
            "i8": 8, "i16": 16, "i32": 32, "i64": 64, "i128": 128, "isize": 64}


def is_uint(ty):
    return ty in ("u8", "u16", "u32", "u64", "u128", "usize")


def is_sint(ty):
    return ty in ("i8", "i16", "i32", "i64", "i128", "isize")


def C(v):
    return ("c", int(v))


def overlap(p, q):
    """place projections overlap if one is a prefix of the other (indices are wildcards)"""
    for a, b in zip(p, q):
        if a == b:
            continue
        if isinstance(a, tuple) and isinstance(b, tuple) and a[0] == "f" and b[0] == "f":
            if a[1] != b[1]:
                return False
            continue
        if isinstance(a, tuple) and isinstance(b, tuple) and a[0] == "dc" and b[0] == "dc":
            if a[1] != b[1]:
                return False
            continue
        # index vs anything, or mismatched kinds: assume overlap
        continue
    return True


def proj_key(p):
    """hashable normal form of a JSON projection list"""
    out = []
    for e in p or []:
        if e == "*":
            out.append("*")
        elif isinstance(e, str):
            out.append(e)
        elif "f" in e:
            out.append(("f", e["f"], e.get("n"), e.get("ty")))
        elif "dc" in e:
            out.append(("dc", e["dc"], e.get("n")))
        elif "idx" in e:
            out.append(("idx", e["idx"]))
        elif "cidx" in e:
            out.append(("cidx",) + tuple(e["cidx"]))
        elif "sub" in e:
            out.append(("sub",) + tuple(e["sub"]))
        else:
            out.append(("?", str(e)))
    return tuple(out)


def _cfield(f):
    """field of an enum/struct constant: its integer value, or ("ptrto", n) for a reference to the integer n"""
    if f.get("v") is not None:
        return f["v"]
    if f.get("pv") is not None:
        return ("ptrto", f["pv"])
    return None


def _unz(v):
    while isinstance(v, tuple) and v and v[0] == "zext":
        v = v[1]
    return v


def _infallible_widening(F, t):
    """t is the call `usize::try_from(x: u32)` and the build's usize has at least 32 bits (the layout table of the build analysed):
    the conversion cannot fail (std: `try_from_upper_bounded` is only generated for narrower targets)"""
    return isinstance(t, tuple) and len(t) > 2 and t[0] == "call" and len(t[2]) == 1 and \
        str(t[1]) == "core::convert::num::ptr_try_from_impls::<impl core::convert::TryFrom<u32> for usize>::try_from" and (F.size_of("usize") or 0) >= 4


def _exact_array_try_from(t):
    """t is `<[u8; N]>::try_from(s: &[u8])` for a slice whose length is the constant N in the linear form (a sub-slice / the
    payload of `get(a..a+N)`)"""
    if not (isinstance(t, tuple) and len(t) > 2 and t[0] == "call" and len(t[2]) == 1 and "core::array::<impl core::convert::TryFrom<&[u8]> for [u8; " in str(t[1])):
        return False
    try:
        n = int(str(t[1]).split("for [u8; ")[1].split("]")[0])
        from . import guard as G_
        l = G_.lin(("len", G_.strip(t[2][0])))
        return l.is_const() and l.c == n
    except Exception:
        return False


_STD_VARIANT_DISCR = {("core::option::Option", "None"): 0, ("core::option::Option", "Some"): 1,
                      ("core::result::Result", "Ok"): 0, ("core::result::Result", "Err"): 1}


def _canon_ite(t):
    """conditional values with a closed arithmetic meaning"""
    _, c, a, b = t
    # a test of two constants (the discriminant of a value that is known to be one variant) chooses now
    if c[0] == "cmp" and c[2][0] == "c" and c[3][0] == "c" and c[1] in ("Eq", "Ne", "Lt", "Le", "Gt", "Ge"):
        x_, y_ = c[2][1], c[3][1]
        return a if {"Eq": x_ == y_, "Ne": x_ != y_, "Lt": x_ < y_, "Le": x_ <= y_, "Gt": x_ > y_, "Ge": x_ >= y_}[c[1]] else b
    # match x.checked_sub(y) { Some(v) => v, None => 0 }  ==  x.saturating_sub(y)   (also unwrap_or(0) / unwrap_or_default() once spliced)
    if c[0] == "cmp" and c[1] == "Eq" and c[3] == ("c", 1) and c[2][0] == "discr":
        chk = c[2][1]
        while chk[0] == "zext":
            chk = chk[1]
        if chk[0] == "checked" and chk[1] == "Sub" and b == ("c", 0):
            av = a
            while av[0] == "zext":
                av = av[1]
            if av[0] == "fld" and av[2] == 0 and av[1][0] == "dc" and av[1][2] == 1 and av[1][1] == chk:
                return ("saturating", "Sub", chk[2], chk[3])
            if av[0] == "bin" and av[1] in ("Sub", "SubUnchecked") and (av[2], av[3]) == (chk[2][0], chk[2][1]):
                # the payload already folded to x - y (project1)
                return ("saturating", "Sub", chk[2], chk[3])
    # if x < y { x } else { y }  ==  min(x, y)   (and the mirrored / non-strict spellings)
    if c[0] == "cmp" and c[1] in ("Lt", "Le", "Gt", "Ge"):
        x, y = c[2], c[3]
        sx, sy, sa, sb = (_unz(v) for v in (x, y, a, b))
        if {sa, sb} == {sx, sy} and sa != sb:
            small_first = c[1] in ("Lt", "Le")
            # cond true selects a: a is the smaller iff (x<y and a==x) or (x>y and a==y)
            a_is_min = (sa == sx) == small_first
            return ("min", x, y) if a_is_min else ("max", x, y)
    # if x < y { 0 } else { x - y }  /  if x >= y { x - y } else { 0 }
    if c[0] == "cmp" and c[1] in ("Lt", "Ge", "Le", "Gt"):
        x, y = c[2], c[3]
        for (cond_op, then_v, else_v) in ((c[1], a, b),):
            sub = lambda p, q, v: v[0] == "bin" and v[1] in ("Sub", "SubUnchecked") and v[2] == p and v[3] == q
            if cond_op == "Lt" and then_v == ("c", 0) and sub(x, y, else_v):
                return ("saturating", "Sub", (x, y), else_v[4] if len(else_v) > 4 else None)
            if cond_op == "Ge" and else_v == ("c", 0) and sub(x, y, then_v):
                return ("saturating", "Sub", (x, y), then_v[4] if len(then_v) > 4 else None)
            # the strict / non-strict twins (x - y is 0 when x == y) and the mirrored comparisons
            if cond_op == "Le" and then_v == ("c", 0) and sub(x, y, else_v):
                return ("saturating", "Sub", (x, y), else_v[4] if len(else_v) > 4 else None)
            if cond_op == "Gt" and else_v == ("c", 0) and sub(x, y, then_v):
                return ("saturating", "Sub", (x, y), then_v[4] if len(then_v) > 4 else None)
            if cond_op in ("Gt", "Ge") and then_v == ("c", 0) and sub(y, x, else_v):        # if y <(=) x' .. written as x >(=) y
                return ("saturating", "Sub", (y, x), else_v[4] if len(else_v) > 4 else None)
            if cond_op in ("Lt", "Le") and else_v == ("c", 0) and sub(y, x, then_v):
                return ("saturating", "Sub", (y, x), then_v[4] if len(then_v) > 4 else None)
    return t


class Summary:
    """What a callee contributes at a call site: return term and facts on normal return,
    both over ('arg', i, ty) atoms of the callee."""

    def __init__(self, ret, facts, pure, may_panic):
        self.ret = ret
        self.facts = facts
        self.pure = pure
        self.may_panic = may_panic


def _byte_string(vs):
    """bytes of rustc's rendering of a byte-string constant (`b"\\x00ab"`), or None"""
    if not isinstance(vs, str) or not (vs.startswith('b"') and vs.endswith('"')):
        return None
    body, out, i = vs[2:-1], [], 0
    esc = {"n": 10, "r": 13, "t": 9, "\\": 92, "0": 0, '"': 34, "'": 39}
    while i < len(body):
        c = body[i]
        if c != "\\":
            if ord(c) > 127:
                return None
            out.append(ord(c)); i += 1
            continue
        if i + 1 >= len(body):
            return None
        e = body[i + 1]
        if e == "x" and i + 3 < len(body) + 0:
            try:
                out.append(int(body[i + 2:i + 4], 16))
            except ValueError:
                return None
            i += 4
        elif e in esc:
            out.append(esc[e]); i += 2
        else:
            return None
    return out


class TB:
    def __init__(self, facts, fn, depth=0, stack=()):
        self.F = facts
        self.fn = fn
        self.body = fn if isinstance(fn, M.Body) else M.Body(fn)
        self.fn = self.body.fn
        self.depth = depth
        self.stack = stack + (self.body.key,)
        self._index_defs()
        self._memo = {}
        self._post_call_facts = {}  # bb -> [cond terms true after the call returns]

    # ------------------------------------------------------------------ defs
    def _index_defs(self):
        b = self.body
        self.defs = {}       # local -> list of sites ('stmt',bb,i) | ('call',bb) with projection
        self.mutrefs = {}    # ref local -> (L, P) it mutably borrows
        self.escaped = set()
        for bi in sorted(b.reachable):
            for si, st in enumerate(b.stmts(bi)):
                if st["k"] in ("assign", "setdiscr"):
                    lhs = st["lhs"]
                    self.defs.setdefault(lhs["l"], []).append(("stmt", bi, si, proj_key(lhs.get("p"))))
            t = b.term(bi)
            if t["k"] == "call":
                d = t["dest"]
                self.defs.setdefault(d["l"], []).append(("call", bi, None, proj_key(d.get("p"))))
        # references that denote the same referent: `_a = move/copy _b`, `_a = &mut *_b`, `_a = &*_b` (all definitions of _a).
        # After INLINE a helper's `self` parameter is such a copy of the caller's; stores and loads through either must be
        # seen as stores and loads of one place, so every `(*_a)...` is filed and looked up under the root local.
        self.alias_root = {}
        changed = True
        rounds = 0
        while changed and rounds < 8:
            changed = False
            rounds += 1
            for l, ds in self.defs.items():
                if l in self.alias_root or (1 <= l <= b.argc):
                    continue
                whole = [d for d in ds if not (d[3] and d[3][0] == "*")]
                if not whole:
                    continue
                roots = set()
                for d in whole:
                    if d[0] != "stmt" or d[3]:
                        roots = None
                        break
                    st = b.stmts(d[1])[d[2]]
                    if st["k"] != "assign":
                        roots = None
                        break
                    rv = st["rv"]
                    src = None
                    if rv["k"] == "use":
                        pl = rv["op"].get("c") or rv["op"].get("m")
                        if pl and not pl.get("p"):
                            src = pl["l"]
                    elif rv["k"] == "ref" and rv["pl"].get("p") == ["*"]:
                        src = rv["pl"]["l"]
                    if src is None:
                        roots = None
                        break
                    ty = self.F.ty(b.local_ty(src)) or {}
                    if ty.get("kind") not in ("ref", "ptr"):
                        roots = None
                        break
                    roots.add(self.alias_root.get(src, src))
                if roots and len(roots) == 1:
                    r = next(iter(roots))
                    if r != l:
                        self.alias_root[l] = r
                        changed = True
        if self.alias_root:
            # re-file the stores through aliases under their root
            for l, r in self.alias_root.items():
                moved = [d for d in self.defs.get(l, []) if d[3] and d[3][0] == "*"]
                if moved:
                    self.defs[l] = [d for d in self.defs[l] if d not in moved]
                    self.defs.setdefault(r, []).extend(moved)
        # mutable borrows: `_r = &mut PLACE` / `&raw mut PLACE`
        for bi in sorted(b.reachable):
            for si, st in enumerate(b.stmts(bi)):
                if st["k"] != "assign":
                    continue
                rv = st["rv"]
                if rv["k"] == "ref" and rv["bk"] == "mut" or rv["k"] == "rawptr" and rv["bk"] == "Mut":
                    pl = rv["pl"]
                    r = st["lhs"]
                    if r.get("p"):
                        self.escaped.add(pl["l"])
                    else:
                        self.mutrefs.setdefault(r["l"], []).append((pl["l"], proj_key(pl.get("p"))))

    def is_mut_ref_local(self, l):
        ty = self.F.ty(self.body.local_ty(l)) or {}
        return ty.get("kind") in ("ref", "ptr") and ty.get("mut")

    def _borrow_targets(self, l, seen=None):
        """places (L,P) that may be written through ref-local l"""
        seen = seen or set()
        if l in seen:
            return []
        seen.add(l)
        out = []
        for (L, P) in self.mutrefs.get(l, []):
            out.append((L, P))
            if P and P[0] == "*":
                # a reborrow `&mut (*L).rest`: whatever L itself borrows is what is written through this reference
                for (L2, P2) in self._borrow_targets(L, seen):
                    out.append((L2, tuple(P2) + tuple(P[1:])))
        # copies / moves / reborrows: `_a = move _b`, `_a = &mut (*_b)`
        for site in self.defs.get(l, []):
            if site[0] == "stmt" and not site[3]:
                st = self.body.stmts(site[1])[site[2]]
                if st["k"] != "assign":
                    continue
                rv = st["rv"]
                if rv["k"] == "use" or rv["k"] == "cast" and str(rv.get("ck", "")).startswith("PointerCoercion(Unsize"):
                    # a moved / copied reference, or the same reference unsized (`&mut [u8; 4]` -> `&mut [u8]`)
                    op = rv["op"]
                    pl = op.get("c") or op.get("m")
                    if pl and not pl.get("p"):
                        out += self._borrow_targets(pl["l"], seen)
        if self.is_mut_ref_local(l) and l <= self.body.argc and l >= 1:
            out.append((l, ("*",)))
        return out

    def _call_clobbers(self, t):
        """list of (L,P) possibly written by call terminator t through &mut arguments"""
        out = []
        for a in t["args"]:
            pl = a.get("c") or a.get("m")
            if not pl:
                continue
            l = pl["l"]
            if pl.get("p"):
                continue
            if self.is_mut_ref_local(l):
                tg = self._borrow_targets(l)
                out += tg
        return out

    def reaching(self, L, P, at):
        """definitions of place (L,P) reaching program point at=(bb,i)"""
        b = self.body
        root = self.alias_root
        if P and P[0] == "*":
            L = root.get(L, L)
        res = set()
        seen = set()
        work = [(at[0], at[1], True)]
        while work:
            bb, upto, first = work.pop()
            stmts = b.stmts(bb)
            found = False
            n = len(stmts)
            if upto is None:
                # coming from a successor: terminator of bb executes first (walking backwards)
                t = b.term(bb)
                if t["k"] == "call":
                    d = t["dest"]
                    if d["l"] == L and overlap(proj_key(d.get("p")), P):
                        res.add(("call", bb))
                        continue
                    hit = False
                    for (cl, cp) in self._call_clobbers(t):
                        if cl == L and overlap(cp, P):
                            hit = True
                    if hit:
                        res.add(("clobber", bb))
                        continue
                upto = n
            for i in range(min(upto, n) - 1, -1, -1):
                st = stmts[i]
                if st["k"] in ("assign", "setdiscr"):
                    lhs = st["lhs"]
                    ll = lhs["l"]
                    if lhs.get("p") and lhs["p"][0] == "*":
                        ll = root.get(ll, ll)
                    if ll == L and overlap(proj_key(lhs.get("p")), P):
                        res.add(("stmt", bb, i))
                        found = True
                        break
                elif st["k"] == "copy_nonoverlapping":
                    pass
            if found:
                continue
            if bb == 0:
                res.add(("entry",))
            for (p, _) in b.pred[bb]:
                if p not in seen:
                    seen.add(p)
                    work.append((p, None, False))
                elif p == at[0] and first is False:
                    pass
        return res

    # ------------------------------------------------------------------ terms
    def local_ty(self, l):
        return self.body.local_ty(l)

    def operand(self, op, at):
        if "k" in op:
            return self.const(op["k"])
        if "rtc" in op:
            return ("opq", "rtc", op["rtc"])
        pl = op.get("c") or op.get("m")
        return self.place(pl, at)

    def _operand_ty(self, op):
        if "k" in op:
            return op["k"].get("ty")
        pl = op.get("c") or op.get("m")
        if not pl.get("p"):
            return self.local_ty(pl["l"])
        last = pl["p"][-1]
        if isinstance(last, dict) and "ty" in last:
            return last["ty"]
        return None

    def const(self, k):
        if "fn" in k:
            f = k["fn"]
            r = f.get("res")
            return ("fn", r["key"] if r else f["pretty"])
        if "v" in k and k["v"] is not None:
            return ("c", k["v"])
        if k.get("deref_v") is not None:
            return ("ref", ("c", k["deref_v"]))
        if k.get("deref_array") is not None:
            return ("ref", ("aggr", ("array",), tuple(("c", v) for v in k["deref_array"])))
        # constant tables of non-integers (enum values ..) are read element-wise; integer arrays keep their existing forms
        if k.get("deref_const") is not None and k["deref_const"].get("elems") is not None and any(e.get("v") is None for e in k["deref_const"]["elems"]):
            return ("ref", self._const_array(k["deref_const"]))
        if k.get("elems") is not None and any(e.get("v") is None for e in k["elems"]):
            return self._const_array(k)
        if k.get("deref_const") is not None:
            d = k["deref_const"]
            if "variant" in d:
                return ("ref", ("cs", d.get("val_s"), d["variant"], tuple(_cfield(f) for f in d.get("fields", []))))
            return ("ref", ("cs", d.get("val_s")))
        if "variant" in k:
            return ("cs", k.get("val_s") or k.get("s"), k["variant"],
                    tuple(_cfield(f) for f in k.get("fields", [])))
        # a named constant of type &[u8] (`const NUL_BYTE: &[u8] = &[0];`): the driver's constant table has its evaluated bytes; it
        # reads as the unsized reference to that array, the form a literal `&[0]` in place has
        if k.get("uneval") and str(k.get("ty", "")).replace("'static ", "") == "&[u8]":
            bs = _byte_string((self.F.consts.get(k["uneval"]) or {}).get("val_s"))
            if bs is not None:
                return ("unsize", ("ref", ("aggr", ("array",), tuple(("c", b_) for b_ in bs))), "&[u8]", "&[u8; %d]" % len(bs))
        return ("cs", k.get("val_s") or k.get("s"))

    def _const_array(self, d):
        """a constant array as the aggregate of its (constant) elements"""
        els = []
        for e in d["elems"]:
            if e.get("v") is not None:
                els.append(("c", e["v"]))
            elif "variant" in e:
                els.append(("cs", e.get("val_s"), e["variant"], tuple(_cfield(f) for f in e.get("fields", []))))
            elif e.get("elems") is not None:
                els.append(self._const_array(e))
            else:
                els.append(("cs", e.get("val_s")))
        return ("aggr", ("array",), tuple(els))

    def place(self, pl, at):
        L = pl["l"]
        P = proj_key(pl.get("p"))
        return self.read(L, P, at)

    def _needs_version(self, L, P):
        """True if the value of place (L,P) can change during the body."""
        nd = len(self.defs.get(L, []))
        if L in self.escaped:
            return True
        if L >= 1 and L <= self.body.argc:
            multi = nd >= 1
        else:
            multi = nd > 1
        if multi:
            return True
        # mutably borrowed local
        for r, tg in self.mutrefs.items():
            for (tl, tp) in tg:
                if tl == L:
                    return True
        # read through a &mut reference
        if "*" in P and self.is_mut_ref_local(L):
            return True
        return False

    def read(self, L, P, at):
        if P and P[0] == "*":
            L = self.alias_root.get(L, L)
        if not self._needs_version(L, P):
            base = self.local_value(L)
            return self.project(base, P)
        # longest prefix of P that is exactly written somewhere? use reaching defs on full P
        rd = self.reaching(L, P, at)
        if rd == {("entry",)}:
            base = self.entry_value(L)
            return self.project(base, P)
        if len(rd) == 1:
            d = next(iter(rd))
            if d[0] == "stmt":
                st = self.body.stmts(d[1])[d[2]]
                lp = proj_key(st["lhs"].get("p"))
                if st["k"] == "assign" and len(lp) <= len(P) and lp == P[:len(lp)]:
                    val = self.rvalue(st["rv"], (d[1], d[2]), st)
                    return self.project(val, P[len(lp):])
            if d[0] == "call":
                t = self.body.term(d[1])
                dp = proj_key(t["dest"].get("p"))
                if len(dp) <= len(P) and dp == P[:len(dp)]:
                    val = self.call_value(t, d[1])
                    return self.project(val, P[len(dp):])
        g = self._gated_phi(L, P, at, rd)
        if g is not None:
            return g
        return ("opq", "phi", L, P, tuple(sorted(rd)))

    # ------------------------------------------------------------------ gated phi
    def _def_value(self, d, P):
        if d[0] == "stmt":
            st = self.body.stmts(d[1])[d[2]]
            lp = proj_key(st["lhs"].get("p"))
            if st["k"] == "assign" and len(lp) <= len(P) and lp == P[:len(lp)]:
                return self.project(self.rvalue(st["rv"], (d[1], d[2]), st), P[len(lp):])
        if d[0] == "call":
            t = self.body.term(d[1])
            dp = proj_key(t["dest"].get("p"))
            if len(dp) <= len(P) and dp == P[:len(dp)]:
                return self.project(self.call_value(t, d[1]), P[len(dp):])
        return None

    def _gated_phi(self, L, P, at, rd):
        """`let x = if c { a } else { b }` (and what INLINE leaves of unwrap_or & co): two definitions on the two sides of one
        branch, outside any loop through the use -> ("ite", condition fact, value if it holds, value otherwise)"""
        if len(rd) != 2 or any(d[0] not in ("stmt", "call") for d in rd):
            return None
        if L == 0 and self.local_ty(0) not in INT_BITS and self.local_ty(0) != "bool":
            return None     # the return place of an enum/struct-valued function: several exits stay several exits (CHAIN)
        key = ("ite", L, P, tuple(sorted(rd)))
        if key in self._memo:
            return self._memo[key]
        self._memo[key] = None      # re-entrancy: fall back to the opaque phi
        b = self.body
        d1, d2 = sorted(rd)
        # acyclic: the use must not reach either definition again
        reach = self._reach_from(at[0])
        if d1[1] in reach or d2[1] in reach or d1[1] == d2[1]:
            return None
        v1, v2 = self._def_value(d1, P), self._def_value(d2, P)
        if v1 is None or v2 is None:
            return None
        from . import guard as G_
        if getattr(self, "_own_guards", None) is None:
            self._own_guards = G_.Guards(self)
        g = self._own_guards

        def nearest(bb):
            for (d, s_, lab) in g.dominating_edges(bb):
                if b.term(d)["k"] == "switch":      # assertions on the way (overflow checks) are not the choice between the two values
                    c_ = g.edge_condition(d, s_, lab)
                    return d, ([c_] if c_ is not None else [])
            return None, []
        n1, f1 = nearest(d1[1])
        n2, f2 = nearest(d2[1])
        if n1 is None or n1 != n2 or len(f1) != 1 or len(f2) != 1:
            # `if c1 && c2 { a } else { b }` / `match x { [.., 0] => a, _ => b }`: one value behind a chain of tests, the other on
            # every way out of the chain -> nested choice ite(c_outer, ite(c_inner, a, b), b)
            for (dx, dy, vx, vy) in ((d1, d2, v1, v2), (d2, d1, v2, v1)):
                out = self._chain_phi(g, dx[1], dy[1], vx, vy)
                if out is not None:
                    self._memo[key] = out
                    return out
            return None
        a, c = f1[0], f2[0]
        # two different outcomes of the same test
        same_test = G_.negate(a) == c or a == G_.negate(c) or (a[0] == "cmp" and c[0] == "cmp" and a[2] == c[2] and a[3] != c[3] and a[3][0] == "c" and c[3][0] == "c")
        if not same_test:
            return None
        # canonical orientation: positive / higher-discriminant outcome first
        def rank(f):
            if f[0] == "not" or (f[0] == "cmp" and f[1] == "Ne") or f == ("const", False):
                return -1
            if f[0] == "cmp" and f[3][0] == "c":
                return f[3][1]
            return 0
        if rank(c) > rank(a):
            a, c, v1, v2 = c, a, v2, v1
        out = _canon_ite(("ite", a, v1, v2))
        self._memo[key] = out
        return out

    def _chain_phi(self, g, bx, by, vx, vy):
        """value vx is assigned in block bx behind the two-way tests e_1 (nearest) .. e_j whose other edges all lead straight to
        block by (where vy is assigned) and are its only predecessors"""
        b = self.body
        preds_y = [(p, lab) for (p, lab) in b.pred[by]]
        if len(preds_y) < 2:
            return None
        conds = []
        for (d, s_, lab) in g.dominating_edges(bx):
            if b.term(d)["k"] != "switch":
                continue
            # (the `otherwise -> unreachable` target of a switch over an enum's discriminant is no way out)
            succ = [(t_, l_) for (t_, l_) in b.succ[d] if b.term(t_)["k"] != "unreachable"]
            if len(succ) != 2 or not any(t_ == by for (t_, _) in succ) or not any(t_ == s_ for (t_, _) in succ) or s_ == by:
                break
            c_ = g.edge_condition(d, s_, lab)
            if c_ is None:
                return None
            conds.append((d, c_))
            if len(conds) == len(preds_y):
                break
        if len(conds) != len(preds_y) or {p for (p, _) in preds_y} != {d for (d, _) in conds}:
            return None
        if not b.dominates(conds[-1][0], by):
            return None
        out = None
        for (d, c_) in conds:                # innermost first
            out = ("ite", c_, vx if out is None else out, vy)
        return out

    def _reach_from(self, bb):
        k = ("reach", bb)
        if k in self._memo:
            return self._memo[k]
        seen = set()
        st = [t for (t, _) in self.body.succ[bb]]
        while st:
            x = st.pop()
            if x in seen:
                continue
            seen.add(x)
            st += [t for (t, _) in self.body.succ[x]]
        self._memo[k] = seen
        return seen

    def entry_value(self, L):
        if 1 <= L <= self.body.argc:
            return ("arg", L, self.local_ty(L))
        return ("opq", "uninit", L)

    def local_value(self, L):
        key = ("lv", L)
        if key in self._memo:
            v = self._memo[key]
            if v is None:
                return ("opq", "cycle", L)
            return v
        self._memo[key] = None
        if 1 <= L <= self.body.argc and not self.defs.get(L):
            v = ("arg", L, self.local_ty(L))
        else:
            ds = self.defs.get(L, [])
            if len(ds) == 1 and not ds[0][3]:
                d = ds[0]
                if d[0] == "stmt":
                    st = self.body.stmts(d[1])[d[2]]
                    if st["k"] == "assign":
                        v = self.rvalue(st["rv"], (d[1], d[2]), st)
                    else:
                        v = ("opq", "setdiscr", L)
                else:
                    v = self.call_value(self.body.term(d[1]), d[1])
            elif not ds:
                v = ("opq", "uninit", L)
            else:
                # only projected writes (aggregate built field by field)
                v = ("opq", "partial", L)
        self._memo[key] = v
        return v

    def project(self, t, P):
        for e in P:
            t = self.project1(t, e)
        return t

    def project1(self, t, e):
        if e == "*":
            if t[0] == "ref":
                return t[1]
            return ("deref", t)
        if isinstance(e, str):
            return ("opq", e, t)
        if e[0] == "f":
            idx, name, ty = e[1], e[2], e[3]
            if t[0] == "aggr":
                ops = t[2]
                if idx < len(ops):
                    return ops[idx]
            if idx == 0 and t[0] == "dc" and t[2] == 0 and _infallible_widening(self.F, t[1]):
                # payload of Ok(..) of usize::try_from(u32): the value, zero-extended
                a0 = t[1][2][0]
                return a0 if a0[0] == "c" else ("zext", a0, "u32", "usize")
            if idx == 0 and t[0] == "dc" and t[2] == 1 and t[1][0] == "checked":
                # payload of Some(..) of x.checked_op(y) is x op y (the Some edge is the no-overflow fact, guard.edge_facts)
                c = t[1]
                return ("bin", c[1], c[2][0], c[2][1], c[3])
            if t[0] == "bin" and t[1].endswith("WithOverflow"):
                base = t[1][:-len("WithOverflow")]
                if idx == 0:
                    return self.binop(base, t[2], t[3], t[4] if len(t) > 4 else None)
                return ("ovf", base, t[2], t[3], t[4] if len(t) > 4 else None)
            return ("fld", t, idx, name, ty)
        if e[0] == "dc":
            # downcast of a value built as that very variant: the variant's fields are the aggregate's operands
            if t[0] == "aggr" and t[1][0] == "adt" and e[2] is not None and t[1][2] == e[2]:
                return t
            return ("dc", t, e[1])
        if e[0] == "idx":
            return ("idx", t, self.local_value(e[1]))
        if e[0] == "cidx":
            return ("cidx", t, e[1], e[3])
        if e[0] == "sub":
            return ("sub", t, e[1], e[2], e[3])
        return ("opq", "proj", t, e)

    def rvalue(self, rv, at, st=None):
        k = rv["k"]
        if k == "use":
            return self.operand(rv["op"], at)
        if k == "ref":
            inner = self.place(rv["pl"], at)
            if inner[0] == "deref":
                # &*x == x (same address); keep mutability out of the term
                return inner[1]
            return ("ref", inner)
        if k == "rawptr":
            inner = self.place(rv["pl"], at)
            if inner[0] == "deref":
                return inner[1]
            return ("ref", inner)
        if k == "cast":
            return self.cast(rv, at)
        if k == "bin":
            a = self.operand(rv["a"], at)
            b = self.operand(rv["b"], at)
            return self.binop(rv["op"], a, b, rv.get("aty"))
        if k == "un":
            a = self.operand(rv["a"], at)
            if rv["op"] == "PtrMetadata":
                return ("len", a)
            if rv["op"] == "Not" and a[0] == "c":
                aty = self._operand_ty(rv["a"])
                if aty == "bool":
                    return C(0 if a[1] else 1)
                bits = INT_BITS.get(aty)
                if bits and is_uint(aty):
                    return C((~a[1]) & ((1 << bits) - 1))
            return ("un", rv["op"], a)
        if k == "discr":
            pv = self.place(rv["pl"], at)
            if pv[0] == "ite":
                da, db = self._variant_discr(pv[2]), self._variant_discr(pv[3])
                if da is not None and db is not None:
                    return ("ite", pv[1], C(da), C(db))
            if _infallible_widening(self.F, pv):
                return C(0)          # usize::try_from(u32) is Ok on a target whose usize has 32 bits or more
            if _exact_array_try_from(pv):
                return C(0)          # <[u8; N]>::try_from(s) is Ok when s has exactly N bytes (std contract)
            if pv[0] == "aggr" and pv[1][0] == "adt" and len(pv[1]) > 2 and (pv[1][1], pv[1][2]) in _STD_VARIANT_DISCR:
                return C(_STD_VARIANT_DISCR[(pv[1][1], pv[1][2])])
            return ("discr", pv)
        if k == "aggr":
            ops = tuple(self.operand(o, at) for o in rv["ops"])
            ak = rv["ak"]
            if ak == "adt":
                return ("aggr", ("adt", rv["adt"], rv["variant"], tuple(rv.get("fields", []))), ops)
            if ak == "closure":
                return ("aggr", ("closure", rv["def"]), ops)
            if ak == "rawptr":
                # (data ptr, metadata)
                return ("aggr", ("rawptr", rv.get("pointee")), ops)
            return ("aggr", (ak,), ops)
        if k == "repeat":
            return ("aggr", ("repeat", rv.get("n")), (self.operand(rv["op"], at),))
        return ("opq", "rv", k)

    def _variant_discr(self, v):
        """discriminant value of an aggregate built as a named variant of a repo enum (from the compiler's adt table)"""
        if v[0] == "aggr" and v[1][0] == "adt" and len(v[1]) > 2:
            a = None
            for key in (v[1][1] + "<'_>", v[1][1]):
                a = self.F.adts.get(key) or a
            if a and a.get("kind") == "enum":
                for var in a.get("variants", []):
                    if var["name"] == v[1][2]:
                        return var.get("discr", var.get("idx"))
        return None

    def binop(self, op, a, b, aty=None):
        if op in ("Sub", "SubUnchecked") and a[0] == "max" and (a[1] == b or a[2] == b):
            # max(x, y) - y  ==  x.saturating_sub(y)
            return ("saturating", "Sub", (a[2] if a[1] == b else a[1], b), aty)
        if op in ("Sub", "SubUnchecked") and b[0] == "bin" and b[1] in ("Mul", "MulUnchecked") and (aty is None or is_uint(aty)):
            # a - (a / d) * d  ==  a % d   (unsigned; d != 0 on every path that evaluated a / d)
            for q, d in ((b[2], b[3]), (b[3], b[2])):
                if q[0] == "bin" and q[1] == "Div" and q[2] == a and q[3] == d:
                    return ("bin", "Rem", a, d, aty)
        if a[0] == "c" and b[0] == "c":
            x, y = a[1], b[1]
            bits = INT_BITS.get(aty, 64)
            try:
                if op in ("Add", "AddUnchecked"):
                    return C(x + y)
                if op in ("Sub", "SubUnchecked"):
                    return C(x - y)
                if op in ("Mul", "MulUnchecked"):
                    return C(x * y)
                if op == "Div" and y != 0:
                    return C(x // y)
                if op == "Rem" and y != 0:
                    return C(x % y)
                if op == "BitAnd":
                    return C(x & y)
                if op == "BitOr":
                    return C(x | y)
                if op == "Shl":
                    return C((x << y) & ((1 << bits) - 1))
                if op == "Shr":
                    return C(x >> y)
                if op == "Eq":
                    return C(int(x == y))
                if op == "Ne":
                    return C(int(x != y))
                if op == "Lt":
                    return C(int(x < y))
                if op == "Le":
                    return C(int(x <= y))
                if op == "Gt":
                    return C(int(x > y))
                if op == "Ge":
                    return C(int(x >= y))
            except Exception:
                pass
        if op == "Offset":
            # ptr.offset(count) in units of pointee; resolved by caller who knows the type
            return ("bin", "Offset", a, b, aty)
        return ("bin", op, a, b, aty)

    def cast(self, rv, at):
        a = self.operand(rv["op"], at)
        ck, to, frm = rv["ck"], rv["ty"], rv["from"]
        if ck == "IntToInt":
            if a[0] == "c":
                bits = INT_BITS.get(to)
                if bits and is_uint(to):
                    return C(a[1] & ((1 << bits) - 1))
                return a
            fb, tb = INT_BITS.get(frm), INT_BITS.get(to)
            if frm == to:
                return a
            if fb and tb and is_uint(frm) and tb >= fb:
                return ("zext", a, frm, to)
            if fb and tb and is_uint(frm) and is_sint(to) and tb > fb:
                return ("zext", a, frm, to)
            # bool / enum / char -> int
            fk = (self.F.ty(frm) or {}).get("kind")
            if fk == "bool":
                return ("zext", a, "bool", to)
            return ("cast", "IntToInt", a, to, frm)
        if ck in ("PtrToPtr",):
            return a  # same address; pointee type is tracked by the analyzers via local types
        if ck.startswith("PointerCoercion(Unsize"):
            return ("unsize", a, to, frm)
        if ck.startswith("PointerCoercion(MutToConstPointer") or ck.startswith("PointerCoercion(ArrayToPointer"):
            return a
        return ("cast", ck, a, to, frm)

    # ------------------------------------------------------------------ calls
    def call_value(self, t, bb):
        key = ("call", bb)
        if key in self._memo:
            return self._memo[key] if self._memo[key] is not None else ("opq", "cycle-call", bb)
        self._memo[key] = None
        v = self._call_value(t, bb)
        self._memo[key] = v
        return v

    def _call_value(self, t, bb):
        return canon_alias(self.F, self._call_value0(t, bb))

    def _call_value0(self, t, bb):
        at = (bb, len(self.body.stmts(bb)))
        fr = M.callee_of(t)
        args = tuple(self.operand(a, at) for a in t["args"])
        if fr is None:
            return ("call", ("indirect", self.operand(t["f"], at)), args, (self.body.key, bb))
        path = (fr.get("res") or {}).get("path") or fr["path"]
        upath = fr["path"]
        key = M.callee_key(t)
        # see through std's blanket forwarding impls (Into -> From, TryInto -> TryFrom) via the instance graph
        if path in FORWARDERS:
            node = self.F.graph.get(key)
            tg = [e["to"] for e in (node or {}).get("edges", []) if e.get("why") == "call"]
            if len(tg) == 1 and tg[0] in self.F.graph:
                key = tg[0]
                path = self.F.graph[key]["path"]
                fr = dict(fr, res={"key": key, "path": path, "repo": self.F.graph[key].get("repo")},
                          gargs=list(reversed(fr.get("gargs", []))))
        if path in REF_FORWARDERS and len(args) == 2:
            # `a == b` on two references: std's `impl PartialEq<&B> for &A` is `PartialEq::eq(*self, *other)` - the one call in
            # its instance graph - on the referents
            node = self.F.graph.get(key)
            tg = [e["to"] for e in (node or {}).get("edges", []) if e.get("why") == "call"]
            if len(tg) == 1 and tg[0] in self.F.graph:
                key = tg[0]
                path = self.F.graph[key]["path"]
                fr = dict(fr, res={"key": key, "path": path, "repo": self.F.graph[key].get("repo")})
                args = tuple(a[1] if a[0] == "ref" else ("deref", a) for a in args)
        s = std_summary(self, path, upath, fr, args)
        if s is not None:
            return s
        # repo callee with MIR: inline
        inst = self.F.insts.get(key)
        if key in {a_ for (a_, _m) in call_aliases(self.F).values()}:
            return ("call", key, args, None)       # a forwarding anchor stays a call of itself (see ALIAS_ANCHORS)
        if inst is not None and self.depth < MAX_INLINE and key not in self.stack:
            sm = summarize(self.F, inst, self.depth + 1, self.stack)
            if sm is not None and sm.ret is not None:
                mapping = {i + 1: a for i, a in enumerate(args)}
                val = subst(sm.ret, mapping)
                facts = [subst(f, mapping) for f in sm.facts]
                if facts:
                    self._post_call_facts[bb] = facts
                return val
            if sm is not None and sm.facts:
                mapping = {i + 1: a for i, a in enumerate(args)}
                self._post_call_facts[bb] = [subst(f, mapping) for f in sm.facts]
        pure = is_pure_callee(fr)
        if not pure and inst is not None:
            from . import purity
            pure = purity.is_pure(self.F, key)
        return ("call", key, args, None if pure else (self.body.key, bb))

    def post_call_facts(self, bb):
        t = self.body.term(bb)
        if t["k"] == "call":
            self.call_value(t, bb)
        return self._post_call_facts.get(bb, [])


# Two functions of the reference tree compute the same thing, one by forwarding to the other: `TagType::val(&self)` and
# `u32::from(TagType)`.  The rules name the conversion (`From<TagType> for u32`); which of the two holds the table and which
# forwards is an implementation choice (C20 checks that one of them is the table and the other forwards).  Calls of the
# forwarding partner are written as calls of the named one.  (anchor key suffix, partner path, how the argument is passed)
ALIAS_ANCHORS = [
    "<impl core::convert::From<multiboot2::tag_type::TagType> for u32>::from",
    "<impl core::convert::From<u32> for multiboot2::tag_type::TagType>::from",
]
_alias_cache = {}


def call_aliases(F):
    """{partner key: (anchor key, 'ref' | 'val')} for the anchors whose body is exactly one call of another repo function (the
    partner) on the anchor's own argument - passed by reference or by value - whose result is returned unchanged.  Calls of the
    partner then appear in terms wherever the anchor's summary is inlined; they are written back as calls of the anchor."""
    if id(F) in _alias_cache:
        return _alias_cache[id(F)]
    out = {}
    _alias_cache[id(F)] = out
    for anchor_sfx in ALIAS_ANCHORS:
        ak = [k for k in F.insts if k.endswith(anchor_sfx)]
        if len(ak) != 1:
            continue
        body = F.insts[ak[0]]["body"]
        calls = [bb["t"] for bb in body["blocks"] if not bb.get("cleanup") and bb["t"]["k"] == "call"]
        if len(calls) != 1 or any(bb["t"]["k"] in ("switch", "assert") for bb in body["blocks"] if not bb.get("cleanup")):
            continue
        pk = M.callee_key(calls[0])
        pi = F.insts.get(pk) if pk else None
        if pi is None or pi.get("crate") not in ("multiboot2", "multiboot2_common", "multiboot2_header"):
            continue
        b_ = M.Body(F.insts[ak[0]])
        tb_ = TB(F, b_)
        rb = b_.return_blocks
        if len(rb) != 1:
            continue
        rt = tb_.read(0, (), (rb[0], len(b_.stmts(rb[0]))))
        while isinstance(rt, tuple) and rt and rt[0] == "zext":
            rt = rt[1]
        if isinstance(rt, tuple) and rt and rt[0] == "call" and rt[1] == pk and len(rt[2]) == 1:
            a = rt[2][0]
            if a[0] == "ref" and a[1][0] == "arg" and a[1][1] == 1:
                out[pk] = (ak[0], "ref")
            elif a[0] == "arg" and a[1] == 1:
                out[pk] = (ak[0], "val")
    return out


def canon_alias(F, v):
    if not (isinstance(v, tuple) and v and v[0] == "call" and isinstance(v[1], str)):
        return v
    al = call_aliases(F)
    if v[1] in al and len(v[2]) == 1:
        anchor, mode = al[v[1]]
        a = v[2][0]
        inner = a if mode == "val" else (a[1] if a[0] == "ref" else ("deref", a))
        return ("call", anchor, (inner,)) + tuple(v[3:])
    return v


FORWARDERS = {
    "<T as core::convert::Into<U>>::into",
    "<T as core::convert::TryInto<U>>::try_into",
}

REF_FORWARDERS = {
    "core::cmp::impls::<impl core::cmp::PartialEq<&B> for &A>::eq",
    "core::cmp::impls::<impl core::cmp::PartialEq<&mut B> for &mut A>::eq",
}

PURE_TRAIT_METHODS = {
    "multiboot2_common::Header::payload_len", "multiboot2_common::Header::total_size",
    "multiboot2_common::tag::MaybeDynSized::dst_len", "multiboot2_common::tag::MaybeDynSized::header",
    "multiboot2_common::tag::MaybeDynSized::payload", "multiboot2_common::tag::MaybeDynSized::as_bytes",
    "multiboot2_common::tag::MaybeDynSized::as_ptr",
}


def is_pure_callee(fr):
    p = fr["path"]
    if p in PURE_TRAIT_METHODS:
        return True
    return False


_SUMMARY_CACHE = {}


def summarize(F, inst, depth, stack):
    """Return-term and return-facts of a repo function, over its ('arg', i, ty) atoms."""
    from . import guard
    # the result depends on how much inlining budget is left: cache per depth (otherwise the first caller's depth decides
    # what every later caller sees, i.e. results would depend on the order of the analyses)
    ck = (id(F), inst["key"] if "key" in inst else inst["path"], depth)
    if ck in _SUMMARY_CACHE:
        return _SUMMARY_CACHE[ck]
    _SUMMARY_CACHE[ck] = None
    body = M.Body(inst)
    tb = TB(F, body, depth, stack)
    rets = body.return_blocks
    ret = None
    facts = []
    if len(rets) == 1:
        rb = rets[0]
        at = (rb, len(body.stmts(rb)))
        ret = tb.read(0, (), at)
        if contains_opaque(ret) or contains_ite(ret):
            # a callee whose result is a choice between values stays a call term in its callers
            ret_ok = False
        else:
            ret_ok = True
        g = guard.Guards(tb)
        facts = [f for f in g.facts_at(rb) if not contains_opaque(f)]
        if not ret_ok:
            ret = None
    sm = Summary(ret, facts, True, None)
    _SUMMARY_CACHE[ck] = sm
    return sm


def contains_ite(t):
    if not isinstance(t, tuple):
        return False
    if t and t[0] == "ite":
        return True
    return any(contains_ite(x) for x in t if isinstance(x, tuple))


def contains_opaque(t):
    if not isinstance(t, tuple):
        return False
    if t and t[0] == "opq":
        return True
    if t and t[0] == "call" and t[3] is not None:
        return True
    return any(contains_opaque(x) for x in t if isinstance(x, tuple))


def subst(t, mapping):
    if not isinstance(t, tuple):
        return t
    if t and t[0] == "arg":
        return mapping.get(t[1], t)
    new = tuple(subst(x, mapping) if isinstance(x, tuple) else x for x in t)
    # re-simplify a few forms
    if new and new[0] == "deref" and isinstance(new[1], tuple) and new[1][0] == "ref":
        return new[1][1]
    if new and new[0] == "fld" and isinstance(new[1], tuple) and new[1][0] == "aggr":
        ops = new[1][2]
        if new[2] < len(ops):
            return ops[new[2]]
    return new


def atoms(t, acc=None):
    acc = acc if acc is not None else set()
    if isinstance(t, tuple):
        acc.add(t)
        for x in t:
            if isinstance(x, tuple):
                atoms(x, acc)
    return acc


# ---------------------------------------------------------------------- std summaries
def _ty_size(tb, ty):
    return tb.F.size_of(ty)


def std_summary(tb, path, upath, fr, args):
    g = fr.get("gargs", [])
    F = tb.F
    if path == "core::mem::size_of":
        s = F.size_of(g[0]) if g else None
        return C(s) if s is not None else ("sizeof", g[0] if g else "?")
    if path == "core::mem::align_of":
        s = F.align_of(g[0]) if g else None
        return C(s) if s is not None else ("alignof", g[0] if g else "?")
    if path in ("core::mem::size_of_val",):
        return ("sizeofval", args[0], g[0] if g else None)
    if path in ("core::slice::<impl [T]>::len", "core::str::<impl str>::len"):
        return ("len", args[0])
    if path in ("core::slice::<impl [T]>::as_ptr", "core::slice::<impl [T]>::as_mut_ptr",
                "core::str::<impl str>::as_ptr"):
        a0 = args[0]
        if a0[0] == "sub":
            # a sub-slice starts `lo` elements into its base
            es = F.size_of(g[0]) if g else None
            if a0[2] == C(0):
                return ("asptr", a0[1])
            return ("ptrop", "add", ("asptr", a0[1]), a0[2], es if es is not None else ("sizeof", g[0] if g else "?"))
        if a0[0] == "call" and isinstance(a0[1], str) and a0[1].startswith("core::slice::index::<impl core::ops::index::Index<core::ops::range::Range") and \
                a0[1].endswith("::index") and len(a0[2]) == 2 and a0[2][1][0] == "aggr" and a0[2][1][1][0] == "adt" and \
                a0[2][1][1][1] in ("core::ops::range::RangeFrom", "core::ops::range::Range") and a0[2][1][2]:
            # `&s[lo..]` / `&s[lo..hi]` (bounds-checked: a PANIC site of its own) starts `lo` elements into s
            es = F.size_of(g[0]) if g else None
            lo = a0[2][1][2][0]
            if lo == C(0):
                return ("asptr", a0[2][0])
            return ("ptrop", "add", ("asptr", a0[2][0]), lo, es if es is not None else ("sizeof", g[0] if g else "?"))
        a1 = a0[1] if a0[0] == "unwrap" and isinstance(a0[1], tuple) and a0[1] else None
        if a1 is not None and a1[0] == "call" and isinstance(a1[1], str) and a1[1].startswith("core::slice::<impl [") and "]>::get::<core::ops::range::Range" in a1[1] and \
                len(a1[2]) == 2 and a1[2][1][0] == "aggr" and a1[2][1][1][0] == "adt" and \
                a1[2][1][1][1] in ("core::ops::range::RangeFrom", "core::ops::range::Range") and a1[2][1][2]:
            # `s.get(lo..).unwrap()` / `.expect(..)`: the sub-slice of that range (std contract), starting `lo` elements into s
            es = F.size_of(g[0]) if g else None
            lo = a1[2][1][2][0]
            if lo == C(0):
                return ("asptr", a1[2][0])
            return ("ptrop", "add", ("asptr", a1[2][0]), lo, es if es is not None else ("sizeof", g[0] if g else "?"))
        return ("asptr", a0)
    if path in ("core::ptr::eq", "core::ptr::addr_eq") and len(args) == 2:
        # address comparison (for thin pointers: pointer equality); a fat pointer built over p has p's address
        def thin(t_):
            while isinstance(t_, tuple) and t_ and t_[0] == "fatptr":
                t_ = t_[1]
            return t_
        if path == "core::ptr::addr_eq" or all(not str(g_).startswith(("[", "dyn ", "str")) for g_ in g[:1]):
            return ("bin", "Eq", thin(args[0]), thin(args[1]), "usize")
    if path == "core::slice::<impl [T]>::is_empty":
        return ("bin", "Eq", ("len", args[0]), C(0), "usize")
    if path == "core::slice::<impl [T]>::split_at" and len(args) == 2:
        # (s[..mid], s[mid..]) - panics if mid > len (a PANIC site of its own)
        return ("aggr", ("tuple",), (("sub", args[0], C(0), args[1]), ("sub", args[0], args[1], ("len", args[0]))))
    if path == "core::slice::<impl [T]>::as_ptr_range":
        # Range { start: s.as_ptr(), end: s.as_ptr().add(s.len()) }  (std contract)
        es = F.size_of(g[0]) if g else None
        st = ("asptr", args[0])
        return ("aggr", ("adt", "core::ops::range::Range", "Range", ("start", "end")),
                (st, ("ptrop", "add", st, ("len", args[0]), es if es is not None else ("sizeof", g[0] if g else "?"))))
    if path in ("core::str::<impl str>::as_bytes",):
        return args[0]
    if path in ("<core::ptr::non_null::NonNull<T> as core::convert::From<&T>>::from", "<core::ptr::non_null::NonNull<T> as core::convert::From<&mut T>>::from",
                "core::ptr::non_null::NonNull::<T>::from_ref", "core::ptr::non_null::NonNull::<T>::from_mut", "core::ptr::from_ref", "core::ptr::from_mut",
                "core::ptr::non_null::NonNull::<T>::new_unchecked"):
        return args[0]          # the pointer to the referent (same address); NonNull values are represented by their pointer
    if path in ("core::ptr::const_ptr::<impl *const T>::cast", "core::ptr::mut_ptr::<impl *mut T>::cast",
                "core::ptr::const_ptr::<impl *const T>::cast_mut", "core::ptr::mut_ptr::<impl *mut T>::cast_const",
                "core::ptr::non_null::NonNull::<T>::as_ptr", "core::ptr::non_null::NonNull::<T>::cast",
                "core::ptr::const_ptr::<impl *const T>::cast_const"):
        return args[0]
    if path in ("core::ptr::const_ptr::<impl *const T>::add", "core::ptr::mut_ptr::<impl *mut T>::add",
                "core::ptr::const_ptr::<impl *const T>::sub", "core::ptr::mut_ptr::<impl *mut T>::sub",
                "core::ptr::const_ptr::<impl *const T>::offset", "core::ptr::mut_ptr::<impl *mut T>::offset",
                "core::ptr::const_ptr::<impl *const T>::byte_add", "core::ptr::const_ptr::<impl *const T>::wrapping_add"):
        es = F.size_of(g[0]) if g else None
        opn = path.rsplit("::", 1)[1]
        if opn == "byte_add":
            es, opn = 1, "add"
        if opn == "wrapping_add":
            opn = "add"
        if args[1] == ("c", 0):
            return args[0]          # p.add(0) / p.offset(0) is p
        return ("ptrop", opn, args[0], args[1], es if es is not None else ("sizeof", g[0] if g else "?"))
    if path in ("core::ptr::const_ptr::<impl *const T>::align_offset", "core::ptr::mut_ptr::<impl *mut T>::align_offset"):
        return ("align_offset", args[0], args[1])
    if path in ("core::ptr::const_ptr::<impl *const T>::is_null", "core::ptr::mut_ptr::<impl *mut T>::is_null"):
        return ("is_null", args[0])
    if path in ("core::ptr::non_null::NonNull::<T>::as_ref", "core::ptr::non_null::NonNull::<T>::as_mut"):
        # (&nn).as_ref() = &*nn.as_ptr(); NonNull values are represented by their pointer
        a = args[0]
        nn = a[1] if a[0] == "ref" else ("deref", a)
        return ("ref", ("deref", nn))
    if path == "core::ptr::non_null::NonNull::<T>::new":
        return ("nonnull_new", args[0])
    if path in ("<[T] as core::convert::AsRef<[T]>>::as_ref", "core::clone::impls::<impl core::clone::Clone for &T>::clone"):
        return args[0] if path.startswith("<[T]") else ("deref", args[0]) if args[0][0] != "ref" else args[0][1]
    if path.startswith("core::clone::impls::<impl core::clone::Clone for ") and path.endswith(">::clone"):
        a = args[0]
        return a[1] if a[0] == "ref" else ("deref", a)
    if path.startswith("core::convert::num::<impl core::convert::From<") and path.endswith(">::from"):
        # lossless integer widening
        inner = path[len("core::convert::num::<impl core::convert::From<"):]
        frm = inner.split(">")[0]
        to = inner.split(" for ")[1].split(">")[0]
        if frm in INT_BITS and to in INT_BITS:
            if args[0][0] == "c":
                return args[0]
            return ("zext", args[0], frm, to)
    if upath == "core::convert::Into::into" and path == "<T as core::convert::Into<U>>::into":
        # resolved blanket impl: defer to From via its generic args (T -> U)
        if len(g) == 2 and g[0] in INT_BITS and g[1] in INT_BITS and INT_BITS[g[1]] >= INT_BITS[g[0]] and is_uint(g[0]):
            if args[0][0] == "c":
                return args[0]
            return ("zext", args[0], g[0], g[1])
    if path.startswith("core::num::<impl ") and path.rsplit("::", 1)[1] in (
            "to_ne_bytes", "to_le_bytes"):
        ity = path[len("core::num::<impl "):].split(">")[0]
        return ("to_bytes", path.rsplit("::", 1)[1], args[0], ity)
    if path.startswith("core::num::<impl ") and path.rsplit("::", 1)[1] in ("from_le_bytes", "from_ne_bytes"):
        ity = path[len("core::num::<impl "):].split(">")[0]
        return ("from_bytes", path.rsplit("::", 1)[1], args[0], ity)
    if path.startswith("core::num::<impl ") and path.rsplit("::", 1)[1] in (
            "wrapping_add", "wrapping_sub", "wrapping_mul", "wrapping_neg"):
        ity = path[len("core::num::<impl "):].split(">")[0]
        opn = path.rsplit("::", 1)[1]
        if opn == "wrapping_neg":
            return ("wrap", "Neg", (args[0],), ity)
        return ("wrap", {"wrapping_add": "Add", "wrapping_sub": "Sub", "wrapping_mul": "Mul"}[opn], args, ity)
    if path.startswith("core::num::<impl ") and path.rsplit("::", 1)[1] in ("checked_rem", "checked_div"):
        ity = path[len("core::num::<impl "):].split(">")[0]
        if is_uint(ity):
            return ("checked", path.rsplit("::", 1)[1][8:].capitalize(), args, ity)
    if path == "core::alloc::layout::Layout::size" and len(args) == 1:
        a = args[0]
        a = a[1] if a[0] in ("ref",) else a
        if a[0] == "unwrap" and a[1][0] == "call" and str(a[1][1]).endswith("Layout::from_size_align") and len(a[1][2]) == 2:
            return a[1][2][0]        # Layout::from_size_align(size, align).unwrap().size() == size
    if path.startswith("core::num::<impl ") and path.rsplit("::", 1)[1] in ("checked_sub", "checked_add", "checked_mul"):
        ity = path[len("core::num::<impl "):].split(">")[0]
        return ("checked", path.rsplit("::", 1)[1][8:].capitalize(), args, ity)
    if path.startswith("core::num::<impl ") and path.rsplit("::", 1)[1] in ("saturating_sub",):
        ity = path[len("core::num::<impl "):].split(">")[0]
        return ("saturating", "Sub", args, ity)
    if path.startswith("core::num::<impl ") and path.rsplit("::", 1)[1] in ("next_multiple_of", "div_ceil", "is_multiple_of"):
        ity = path[len("core::num::<impl "):].split(">")[0]
        return ("numfn", path.rsplit("::", 1)[1], args, ity)
    if path in ("core::cmp::Ord::min", "core::cmp::min") or path.endswith("::min") and path.startswith("core::cmp::impls::<impl core::cmp::Ord for "):
        return ("min", args[0], args[1])
    if path in ("core::cmp::Ord::max", "core::cmp::max") or path.endswith("::max") and path.startswith("core::cmp::impls::<impl core::cmp::Ord for "):
        return ("max", args[0], args[1])
    if path.startswith("<") and path.endswith(" as core::default::Default>::default") and (path[1:].split(" as ")[0] in INT_BITS or path[1:].split(" as ")[0] == "bool"):
        return C(0)
    if path.startswith("core::default::impls::<impl core::default::Default for ") and path.endswith(">::default"):
        ty = path[len("core::default::impls::<impl core::default::Default for "):-len(">::default")]
        if ty in INT_BITS or ty == "bool":
            return C(0)
    if path in ("core::ops::range::RangeInclusive::<Idx>::contains", "core::ops::range::Range::<Idx>::contains") and len(args) == 2:
        # (a..=b).contains(&x)  ==  a <= x && x <= b   (a..b: x < b); integer ranges only
        r = args[0][1] if args[0][0] == "ref" else None
        x = args[1][1] if args[1][0] == "ref" else ("deref", args[1])
        lo = hi = None
        if r is not None and r[0] == "cs" and len(r) > 3 and len(r[3]) >= 2 and all(isinstance(v, int) for v in r[3][:2]):
            lo, hi = C(r[3][0]), C(r[3][1])
        elif r is not None and r[0] == "aggr" and r[1][0] == "adt" and len(r[2]) >= 2:
            lo, hi = r[2][0], r[2][1]
        if lo is not None:
            incl = "RangeInclusive" in path
            return ("ite", ("cmp", "Le", lo, x), ("bin", "Le" if incl else "Lt", x, hi, None), C(0))
    if path.startswith("<core::option::Option<T> as core::ops::try_trait::FromResidual<core::option::Option<core::convert::Infallible>>>::from_residual") and len(args) == 1:
        # `None?` in a function returning Option: the residual of an Option is None, and from_residual(None) is None (std)
        return ("aggr", ("adt", "core::option::Option", "None", ()), ())
    if path in ("core::option::Option::<&T>::cloned", "core::option::Option::<&T>::copied"):
        return ("optderef", args[0])
    if path in ("core::option::Option::<T>::unwrap", "core::option::Option::<T>::expect"):
        a = args[0]
        if a[0] == "checked":
            return ("bin", a[1], a[2][0], a[2][1], a[3])
        if a[0] == "optderef":
            # x.copied().unwrap() == *x.unwrap()
            return ("deref", ("unwrap", a[1]))
        return ("unwrap", a)
    if path in ("core::result::Result::<T, E>::unwrap", "core::result::Result::<T, E>::expect"):
        return ("unwrap", args[0])
    if path == "ptr_meta::from_raw_parts" or path == "ptr_meta::from_raw_parts_mut":
        return ("fatptr", args[0], args[1], g[0] if g else None)
    if path in ("core::slice::from_raw_parts", "core::slice::from_raw_parts_mut", "core::slice::raw::from_raw_parts",
                "core::slice::raw::from_raw_parts_mut"):
        return ("rawslice", args[0], args[1], g[0] if g else None)
    if path in ("core::ptr::addr_of",):
        return args[0]
    # the following std items are spliced at MIR level in monomorphic bodies (INLINE); polymorphic bodies keep the calls,
    # so the same meaning is given here at term level
    if path in ("<I as core::iter::traits::collect::IntoIterator>::into_iter", "core::iter::traits::iterator::Iterator::by_ref"):
        return args[0]
    if path == "core::cmp::PartialEq::ne" and len(args) == 2:
        key = (fr.get("res") or {}).get("key") or ""
        if key.endswith("::ne"):
            eqk = key[:-4] + "::eq"
            inst = tb.F.insts.get(eqk)
            if inst is not None and tb.depth < MAX_INLINE and eqk not in tb.stack:
                sm = summarize(tb.F, inst, tb.depth + 1, tb.stack)
                if sm is not None and sm.ret is not None:
                    return ("un", "Not", subst(sm.ret, {1: args[0], 2: args[1]}))
            return ("un", "Not", ("call", eqk, args, None))
    return None
