"""LAYOUT helpers: ADT lookup by public name, field-by-offset, oracle comparison."""


def adt(F, crate, name):
    """the unique non-generic ADT named `name` defined in `crate` (any module)"""
    hits = {}
    for k, a in F.adts.items():
        if k.startswith("generic "):
            continue
        if a.get("name") == name and a.get("crate") == crate:
            hits[a["path"]] = a
    if len(hits) == 1:
        return next(iter(hits.values()))
    return None


def field_at(a, off, width=None):
    for f in a.get("fields", []):
        if f.get("off") == off and (width is None or f.get("size") == width):
            return f
    return None


def field_named(a, name):
    for f in a.get("fields", []):
        if f["name"] == name:
            return f
    return None


def impls_of(F, trait_suffix):
    return [i for i in F.impls if i.get("trait", "").endswith(trait_suffix)]


def impl_item(im, name):
    for it in im["items"]:
        if it["name"] == name:
            return it
    return None
