"""C08 — results do not depend on build profile or optional features.

Rephrased structurally: the parse path contains no construct whose meaning depends on the profile or on a feature.
AR  ARITH census: every overflow-checked / unchecked arithmetic site and every division in the instances reachable from
    the public API of the no-default-features build is discharged (R1 constants, R2 guarded subtraction, R3 type ranges,
    R4 bounded counters, proven struct invariants) or listed in the exception table with the reason it is benign
NI  NICHE: no type that is viewed over boot-loader memory has an invalid bit pattern (an invalid enum value lets the
    optimiser drop branches only in optimised builds)
CD  CFGDIFF: every function body that exists with and without the builder/alloc features is structurally identical;
    (thorough) also with alloc only, and with debug assertions on (no debug_assert!/cfg!(debug_assertions) in parsing)
ZC  zero-census: no unchecked_* arithmetic intrinsics on the parse path (positive control: the census sees wrapping_add)
"""
from .. import cfgdiff as CD
from .. import guard as G
from .. import layout as L
from .. import mir as M
from .. import panic as P

# Confirmed by reading (one reason each).  An entry names the enclosing function (closures count as their function, helper
# functions are already spliced into it), the operation, and the *leaf operands* (stored field names / constants) - not the
# shape of the surrounding term, so that renaming a local or hoisting a sub-expression does not orphan it.
EXCEPTIONS = [
    dict(fn="<multiboot2::memory_map::EFIMemoryAreaIter<'_> as core::iter::traits::iterator::Iterator>::next", kind="overflow", what="Mul",
         leaves={"i", "desc_size"},
         reason="strided lemma (C18 S1,S3): i < entries = len/desc_size, so i*desc_size < len <= isize::MAX; cannot overflow in any profile"),
    dict(fn="<multiboot2::memory_map::EFIMemoryAreaIter<'_> as core::iter::traits::iterator::Iterator>::next", kind="overflow", what="Add",
         leaves={"i", "desc_size", "40"},
         reason="strided lemma with room (C18 S1,S3,S4): i < entries and desc_size >= 40, so i*desc_size + 40 <= (i+1)*desc_size <= entries*desc_size = len "
                "<= isize::MAX: the end of the descriptor's sub-slice `memory_map[off..off + 40]` cannot overflow in any profile"),
    dict(fn="<multiboot2::network::NetworkTag as multiboot2_common::tag::MaybeDynSized>::dst_len", kind="overflow", what="Sub", leaves={"size", "8"},
         reason="reached only through cast() on an existing DynSizedStructure<TagHeader>, whose creation called TagHeader::payload_len (asserts size >= 8) - "
                "an undersized tag panics there in every profile before this subtraction runs"),
    dict(fn="<multiboot2_header::information_request::InformationRequestHeaderTag as multiboot2_common::tag::MaybeDynSized>::dst_len", kind="overflow", what="Sub",
         leaves={"size", "8"},
         reason="reached only through cast() on an existing DynSizedStructure<HeaderTagHeader>; for size < 8 its construction fails in every profile "
                "(overflow panic in HeaderTagHeader::payload_len, or the wrapped value is rejected by ref_from_bytes and TagIter unwraps the error) - C14.B3w"),
    dict(fn="<multiboot2_header::tags::HeaderTagHeader as multiboot2_common::Header>::payload_len", kind="overflow", what="Sub", leaves={"size", "8"},
         reason="size < 8: with overflow checks this panics; without, the wrapped value (>= 2^64-8) exceeds every slice length and ref_from_bytes returns "
                "InvalidReportedTotalSize, which the only caller on the parse path (TagIter::next) unwraps - a controlled panic in both profiles (C14.B3w)"),
    dict(fn="multiboot2::boot_information::BootInformation::<'_>::elf_sections", kind="overflow", what="Mul", leaves={"entry_size", "shndx"},
         reason="deprecated getter's redundant assert: the u32 product overflows only if shndx*entry_size >= 2^32 > tag size, i.e. shndx >= n, for which "
                "sections() panics afterwards in every profile (C19.E1); for well-formed tags it cannot overflow"),
    dict(fn="multiboot2::boot_information::BootInformation::<'_>::end_address", kind="overflow", what="Add", leaves={"0", "total_size"},
         reason="start + total_size is the end of a region that load()'s safety contract requires to be valid memory: it cannot wrap the address space"),
    dict(fn="multiboot2::elf_sections::ElfSection::<'_>::name", kind="overflow", what="Add", leaves={"phi", "1"},
         reason="strlen over the external string table (documented exception of C01): the isize counter cannot reach isize::MAX over addressable memory"),
    dict(fn="multiboot2_common::increase_to_alignment", kind="overflow", what="Add", leaves=None, leaves_within={"arg1", "7", "8"},
         reason="all callers pass sizes below 2^33 (a u32 size plus a header, or an offset inside a slice plus that); C14 claims the function for x < 2^32 only"),
]


def leaves_of(terms):
    """names of the stored fields / arguments / constants a site's operand terms bottom out in"""
    out = set()

    def walk(t, top=True):
        if not isinstance(t, tuple) or not t:
            return
        k = t[0]
        if k == "fld":
            # outermost named field of a place path is the leaf; do not descend into its base
            out.add(str(t[3]) if len(t) > 3 and t[3] is not None else str(t[2]))
            return
        if k == "c":
            out.add(str(t[1]))
            return
        if k == "arg":
            out.add("arg%d" % t[1])
            return
        if k == "opq":
            out.add("phi" if len(t) > 1 and t[1] == "phi" else "opq")
            return
        for x in t[1:]:
            if isinstance(x, tuple):
                walk(x, False)
    for t in terms:
        walk(t)
    return out


def match_exception(s):
    fk = s.inst["key"] if "key" in s.inst else s.inst["path"]
    base = fk.split("::{closure")[0]
    for i, e in enumerate(EXCEPTIONS):
        lv = leaves_of(s.terms)
        if e["fn"] == base and e["kind"] == s.kind and e["what"] == s.what and \
                (lv == e["leaves"] if e.get("leaves") is not None else (bool(lv) and lv <= e["leaves_within"])):
            return i
    return None


def parse_roots(F):
    return [k for k, i in F.insts.items() if i.get("eff_pub") and not i.get("closure") and "test_utils" not in k]


def run(ctx):
    FB = ctx.F("B")
    FA = ctx.F("A")
    roots = parse_roots(FB)
    cl = P.repo_closure(FB, roots, exclude=("test_utils",))
    ctx.count("public roots (no default features)", len(roots))
    ctx.count("instances on the parse path", len(cl))
    n_sites = 0
    used_exc = set()
    saw_wrapping = False
    unchecked_calls = []
    # A recorded finding names a call site: function, kind of site, operator.  Its full key also renders the operand terms, which
    # change when the code around the site is rewritten without changing what the site does (an accessor reached through an enum
    # instead of a trait object).  So: if a function has exactly as many undischarged sites of one (kind, operator) as there are
    # recorded findings for that (function, kind, operator), and the rendered keys differ, the sites are those findings (reported
    # under the recorded keys).  One site more than recorded, and nothing is renamed: every site is reported under its own key.
    known_ar = {}
    for kk in ctx.known["open"]:
        if kk.startswith("C08:AR:"):
            parts = kk[len("C08:AR:"):].split("|")
            if len(parts) >= 4:
                known_ar.setdefault((parts[0], parts[1], parts[2]), []).append(kk[len("C08:AR:"):])
    open_sites = {}
    for k in cl:
        for s_ in P.sites_of(FB, FB.insts[k]):
            if s_.kind in ("overflow", "unchecked") and s_.status != "discharged" and match_exception(s_) is None:
                fk_ = s_.inst["key"] if "key" in s_.inst else s_.inst["path"]
                open_sites.setdefault((fk_, s_.kind, s_.what), []).append(s_)
    rename = {}
    for cls, sites_ in open_sites.items():
        rec = known_ar.get(cls, [])
        exact = [s_.key() for s_ in sites_]
        if rec and len(rec) == len(sites_) and sorted(rec) != sorted(exact):
            unmatched_sites = [s_ for s_ in sites_ if s_.key() not in rec]
            unmatched_rec = [r_ for r_ in rec if r_ not in exact]
            if len(unmatched_sites) == len(unmatched_rec) == 1:
                rename[unmatched_sites[0].key()] = unmatched_rec[0]
    for k in cl:
        inst = FB.insts[k]
        b = M.Body(inst)
        for bb, t in b.calls():
            p = M.callee_path(t) or ""
            if ".wrapping_" in p or "::wrapping_" in p:
                saw_wrapping = True
            if "::unchecked_" in p or p.endswith("unreachable_unchecked") or "get_unchecked" in p:
                unchecked_calls.append((k, p, t.get("span", "")))
        for s in P.sites_of(FB, inst):
            if s.kind not in ("overflow", "unchecked", "divzero"):
                continue
            n_sites += 1
            key = rename.get(s.key(), s.key())
            if s.status == "discharged":
                ctx.ok("AR", key, "%s %s cannot behave differently across profiles" % (s.kind, s.what), s.span, how=s.how, nontrivial=not s.how.startswith("R1"))
            elif s.kind == "divzero":
                ctx.ok("AR", key, "division by a stored value: panics identically in every profile (not profile dependent)", s.span, how=s.how)
            elif match_exception(s) is not None:
                ei = match_exception(s)
                used_exc.add(ei)
                ctx.ok("AR", key, "%s %s: benign by confirmed reason" % (s.kind, s.what), s.span, how="EXCEPTION: " + EXCEPTIONS[ei]["reason"])
            else:
                ctx.fail("AR", key, "%s `%s` on stored values cannot overflow, or overflows identically in all profiles" % (s.kind, s.what), s.span,
                         "undischarged: panics with overflow checks, wraps without (operands: %s)" % ", ".join(G.show(t)[:80] for t in s.terms))
    ctx.floor("AR", "arithmetic sites on the parse path", n_sites, 40)
    stale = sorted("%s|%s|%s" % (e["fn"], e["what"], sorted(e["leaves"] or e.get("leaves_within") or [])) for i, e in enumerate(EXCEPTIONS) if i not in used_exc)
    # a stale entry suppresses nothing (the site it named is gone): reported as a note, not a violation
    ctx.ok("AR", "exceptions-live", "exception-table entries are matched by exact site key only; entries without a site suppress nothing", "",
           how="%d entries, %d matched a site%s" % (len(EXCEPTIONS), len(used_exc), ("; unmatched (site no longer exists): %s" % [x[:90] for x in stale]) if stale else ""))
    if stale:
        ctx.note("exception-table entries that no longer match any site: %s" % stale)
    # ---- ZC
    ctx.check(not unchecked_calls, "ZC", "unchecked-intrinsics", "no unchecked_* / unreachable_unchecked / get_unchecked call on the parse path", "",
              how="0 of %d instances" % len(cl), why=str(unchecked_calls[:5]))
    ctx.check(saw_wrapping, "ZC", "positive-control", "the call census sees the known wrapping_* calls (RSDP checksum / header checksum)", "",
              how="wrapping_* call found", why="census is blind")
    # ---- NI
    viewed = {}
    for im in FB.impls:
        tr = im.get("trait", "")
        if (tr.endswith("::tag::MaybeDynSized") or tr == "multiboot2_common::Header") and not im["generic"] and im["crate"] != "multiboot2_common":
            viewed[im["self"]] = "impl %s" % tr.split("::")[-1]
    for k in cl:
        inst = FB.insts[k]
        for bb in inst["body"]["blocks"]:
            if bb.get("cleanup"):
                continue
            for st in bb["s"]:
                if st["k"] == "assign" and st["rv"]["k"] == "cast" and st["rv"]["ck"] == "PtrToPtr":
                    ty = st["rv"]["ty"]
                    for pre in ("*const ", "*mut "):
                        if ty.startswith(pre):
                            pt = ty[len(pre):]
                            if pt in FB.adts:
                                viewed.setdefault(pt, "pointer cast in %s" % k.split("::")[-1])
        b = M.Body(inst)
        for bb, t in b.calls():
            fr = M.callee_of(t)
            if fr and fr["path"] in ("core::slice::raw::from_raw_parts", "core::ptr::const_ptr::<impl *const T>::cast", "core::ptr::const_ptr::<impl *const T>::as_ref"):
                for g in fr.get("gargs", []):
                    if g in FB.adts:
                        viewed.setdefault(g, "%s in %s" % (fr["name"], k.split("::")[-1]))
    # element types of unsized tails are viewed too (a slice layout carries no niche of its elements)
    for ty in list(viewed):
        a = FB.adts.get(ty) or {}
        el = (a.get("tail") or {}).get("elem")
        if el and el in FB.adts:
            viewed.setdefault(el, "tail element of %s" % ty.split("::")[-1])
        for f in a.get("fields", []):
            fi = FB.ty(f["ty"]) or {}
            if fi.get("kind") in ("array", "slice") and fi.get("elem") in FB.adts:
                viewed.setdefault(fi["elem"], "array element in %s" % ty.split("::")[-1])
    n_v = 0
    from .. import niche as NI
    leaves = {}
    for ty, why in sorted(viewed.items()):
        a = FB.adts.get(ty)
        if a is None or a.get("crate") not in ("multiboot2", "multiboot2_header", "uefi_raw"):
            continue
        n_v += 1
        ni = a.get("niche")
        if ni is None:
            ctx.ok("NI", ty, "every bit pattern of %s (viewed over boot-loader memory: %s) is a valid value" % (ty.split("::")[-1], why), a.get("span", ""),
                   how="largest_niche = None")
            continue
        ls = NI.restricted_leaves(FB, ty)
        if not ls:
            ls = [(a["path"], " / ".join(ni["path"]) or "?", "?", "niche at byte %s (valid %s..=%s)" % (ni["off"], ni["lo"], ni["hi"]))]
        for (owner, fname, fty, reason) in ls:
            leaves.setdefault((owner, fname), (fty, reason, []))[2].append(ty.split("::")[-1])
    for (owner, fname), (fty, reason, users) in sorted(leaves.items()):
        oa = FB.adts.get(owner) or {}
        ctx.fail("NI", "%s.%s" % (owner, fname), "field `%s` of %s, read from boot-loader memory, accepts every bit pattern" % (fname, owner.split("::")[-1]),
                 oa.get("span", ""), "its type %s has invalid bit patterns (%s): an unexpected stored value is undefined behaviour and lets optimised builds "
                 "drop branches; part of viewed types %s" % (fty.split("::")[-1], reason, sorted(set(users))[:6]))
    ctx.floor("NI", "types viewed over untrusted memory", n_v, 35)
    # ---- CD
    only_a, only_b, differing, common = CD.diff(FA, FB)
    ctx.check(not differing and not only_b, "CD", "A-vs-B", "all %d function bodies present with and without the default features are structurally identical" % common, "",
              how="%d common bodies hash-equal; %d exist only with the builder feature" % (common, len(only_a)),
              why="differing: %s; only without features: %s" % (differing[:8], only_b[:8]))
    # builder-only functions must be unreachable from the no-default roots: trivially true (they do not exist in B); assert B's closure keys exist in A
    missing = [k for k in cl if k not in FA.insts]
    ctx.check(not missing, "CD", "B-subset-A", "every parse-path instance of the minimal build also exists in the default build", "",
              how="%d instances" % len(cl), why=str(missing[:5]))
    # and the other way round: from the same public roots, the default build must reach the same repo functions - a function that
    # exists only with a feature (an override of a trait's provided method behind #[cfg(feature = ..)], a feature-gated helper)
    # and is reachable from the parse API makes the result depend on the feature although every common body is identical
    roots_a = [k for k in roots if k in FA.insts]
    cl_a = P.repo_closure(FA, roots_a, exclude=("test_utils",))
    extra = [k for k in cl_a if k not in cl]
    lost = [k for k in cl if k not in cl_a]
    # the same instance key can resolve to different code (a trait's provided method in one build, a cfg-gated override of it in the
    # other): the monomorphic bodies of the parse path, after INLINE, must be identical too
    extra += ["%s (resolves to different code)" % k for k in cl if k in FA.insts and k in cl_a and CD.body_hash(FA.insts[k]) != CD.body_hash(FB.insts[k])]
    ctx.check(not extra and not lost and len(roots_a) == len(roots), "CD", "same-parse-path", "from the public roots of the minimal build, the default build reaches exactly the "
              "same repo functions, resolved to the same code (no feature-gated override or helper on the parse path)", "",
              how="%d instances in both closures" % len(cl_a), why="only with features: %s; only without: %s" % (extra[:6], lost[:6]))
    # debug assertions are a profile switch of their own (on in dev, off in release): decided in every tier
    FD = ctx.F("D")
    only_a2, only_d, diff_d, common_d = CD.diff(FA, FD)
    # a body that differs only in the value of `cfg!(debug_assertions)` (debug_assert!) is no divergence if the assertion cannot
    # fire: the debug-only blocks have no effects of their own, and every panic site the debug build has in addition is discharged
    # by the facts at the site (on the INLINEd instances, i.e. in the callers' context)
    explained = []
    # scope: the property speaks of loading, walking and decoding stored data.  A function that does not exist in the minimal
    # build (builder / alloc only) is not reachable from that API (CD:same-parse-path above), so a debug assertion in it cannot
    # change what parsing does; it is counted, not judged here (the builder properties judge the builder in their own terms).
    b_paths = set()
    for k_, f_ in FB.fns.items():
        b_paths.add(k_)
        b_paths.add(f_.get("path") or k_)
    out_of_scope = [k_ for k_ in diff_d if k_ not in b_paths and (FD.fns[k_].get("path") or k_) not in b_paths]
    if out_of_scope:
        ctx.note("bodies that differ with debug assertions enabled but exist only with the builder/alloc features (outside the parse path, not judged): %s"
                 % ", ".join(sorted(x.split("::")[-1] for x in out_of_scope))[:300])
        diff_d = [k_ for k_ in diff_d if k_ not in out_of_scope]
    oos_paths = set(out_of_scope) | {FD.fns[k_].get("path") or k_ for k_ in out_of_scope}
    if diff_d and not only_d and not only_a2:
        from .. import purity as PU

        def pure_call(t_):
            fr_ = M.callee_of(t_)
            res_ = (fr_ or {}).get("res") or {}
            p_ = res_.get("path") or (fr_ or {}).get("path") or ""
            if p_.startswith(PU.PURE_STD_PREFIXES):
                return True
            return bool(res_.get("repo")) and res_.get("key") in FD.insts and PU.is_pure(FD, res_["key"])
        # decided on the monomorphic, INLINEd instances (callees resolved; the callers' guards are in sight): the assertion's code
        # is in both bodies (dead under `if false` without debug assertions), so only sites in the debug-only blocks count
        open_sites = []
        n_new = 0
        covered = set()
        for ik, inst_d in FD.insts.items():
            inst_a = FA.insts.get(ik)
            if inst_a is None or CD.body_hash(inst_a) == CD.body_hash(inst_d):
                continue
            if inst_d.get("path") in oos_paths and ik not in FB.insts:
                continue
            covered.add(inst_d.get("path"))
            covered.update(inst_d.get("inlined") or [])
            ok_i, why_i, dbg_blocks = CD.debug_only_difference(inst_a, inst_d, pure_call)
            if not ok_i:
                open_sites.append("%s: %s" % (ik[-60:], why_i))
                continue
            for s_ in P.sites_of(FD, inst_d):
                if s_.bb in dbg_blocks:
                    n_new += 1
                    if s_.status != "discharged":
                        open_sites.append(s_.key()[:160])
        # a differing function without any instance in the three crates (generic API nobody instantiates): its polymorphic body
        for k_ in diff_d:
            pth_ = FD.fns[k_].get("path") or k_
            if pth_ in covered or k_ in covered or any(str(c_).startswith(str(pth_)) for c_ in covered):
                continue
            ok_, why_, _blocks = CD.debug_only_difference(FA.fns[k_], FD.fns[k_], pure_call)
            if not ok_:
                open_sites.append("%s: %s" % (k_.split("::")[-1], why_))
        if True:
            if not open_sites:
                ctx.ok("CD", "A-vs-D:debug-assertions", "the %d bodies that differ with debug assertions enabled differ only in `cfg!(debug_assertions)` "
                       "constants, their debug-only blocks have no effects, and the %d panic / arithmetic sites in those blocks cannot fire" % (len(diff_d), n_new), "",
                       how="; ".join(sorted(x.split("::")[-1] for x in diff_d))[:200])
                diff_d = []
            else:
                explained.append("debug-only assertions that are not discharged: %s" % open_sites[:4])
    ctx.check(not diff_d and not only_d and not only_a2, "CD", "A-vs-D",
              "bodies identical with debug assertions enabled: no debug_assert!/cfg!(debug_assertions) in the crates (%d bodies)" % common_d, "",
              how="hash-equal", why="differing: %s; only with: %s; only without: %s; %s" % (diff_d[:8], only_d[:4], only_a2[:4], "; ".join(explained)[:400]))
    if ctx.tier == "thorough":
        FC = ctx.F("C")
        _, only_c, diff_c, common_c = CD.diff(FA, FC)
        ctx.check(not diff_c and not only_c, "CD", "A-vs-C", "bodies identical with the alloc feature only (%d common)" % common_c, "", how="hash-equal", why=str(diff_c[:8]))
    ctx.note("equality of *outcomes* is not computed: the check decides the absence of the known sources of divergence; a discharged site cannot diverge")
    return ctx.finish(
        "other",
        "Census of profile-dependent arithmetic over all instances reachable from the public API of the minimal build, each site "
        "discharged by a rule or by a listed reason; bit-validity (niche) census of every type viewed over boot-loader memory; "
        "structural body hashes across feature/debug configurations; zero-census of unchecked intrinsics with a positive control.",
        ["rustc MIR (overflow checks on makes every such operation an Assert terminator)", "mb2rules ARITH/GUARD/invariants", "exception table reasons (read and confirmed by hand)",
         "LLVM-level divergence is out of reach"],
        "one obligation per arithmetic site, per viewed type, per configuration pair",
    )
