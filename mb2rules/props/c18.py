"""C18 — EFI memory-map iteration honours descriptor stride, count and bounds.

S1  in next(): the fact i < entries holds where the descriptor pointer is formed (i >= entries -> None)
S2  the pointer is memory_map.as_ptr() + i * zext(desc_size) bytes, read as one EFIMemoryDesc
S3  construction: entries = len(memory_map) / zext(desc_size) with the fact len % desc_size == 0
S4  construction facts: desc_size >= size_of::<EFIMemoryDesc>(), desc_size % align_of::<EFIMemoryDesc>() == 0,
    memory_map.as_ptr() aligned, desc_version == 1 (failing edges diverge)
S5  the iterator is constructed only there, its fields are private, next() writes only i (i+1 on the Some path)
IT  len() == entries - i; Clone derived; the None path writes nothing
LY  layout of EFIMemoryDesc == UEFI EFI_MEMORY_DESCRIPTOR (40 bytes, align 8)
Hand step (DESIGN.md §4 C18): i < L/d, d | L  =>  i*d + d <= L;  d >= 40  =>  the 40 bytes at i*d are inside the map;
base and d multiples of 8  =>  every descriptor is 8-aligned.
"""
from .. import an
from .. import chain as CH
from .. import guard as G
from .. import mir as M
from .. import spec as S
from ..guard import N, arg, fld, deref, cn

TAG = "multiboot2::memory_map::EFIMemoryMapTag"
ITER = "multiboot2::memory_map::EFIMemoryAreaIter"
DESC = "uefi_raw::table::boot::MemoryDescriptor"


def _rem_payload(t):
    """the Some payload of `a.checked_rem(b)` is a % b"""
    if isinstance(t, tuple):
        if t and t[0] == "fld" and len(t) > 2 and t[2] == 0 and isinstance(t[1], tuple) and t[1] and t[1][0] == "dc" and isinstance(t[1][1], tuple) and \
                t[1][1] and t[1][1][0] == "checked" and t[1][1][1] == "Rem":
            return ("bin", "Rem", _rem_payload(t[1][1][2][0]), _rem_payload(t[1][1][2][1]))
        return tuple(_rem_payload(x) if isinstance(x, tuple) else x for x in t)
    return t


def run(ctx):
    F = ctx.F()
    tag = F.adts.get(TAG)
    it = F.adts.get(ITER + "<'_>")
    desc = F.adts.get(DESC)
    if not (tag and it and desc):
        ctx.fail("ANCHOR", "types", "EFIMemoryMapTag, EFIMemoryAreaIter and EFIMemoryDesc exist", "", "missing: %s" % [bool(tag), bool(it), bool(desc)])
        return ctx.finish("other", "anchor missing", [], "")
    tf = {f["name"]: f for f in tag["fields"]}
    itf = {f["name"]: f for f in it["fields"]}
    need = [n for n in ("i", "entries", "mmap_tag") if n not in itf] + [n for n in ("memory_map", "desc_size", "desc_version") if n not in tf]
    chunk_f = [f for f in it["fields"] if str(f["ty"]).startswith("core::slice::iter::ChunksExact<") and str(f["ty"]).rstrip(">").endswith("u8")]
    rep = "index"
    if need and len(chunk_f) == 1 and not [n for n in ("memory_map", "desc_size", "desc_version") if n not in tf]:
        # the iterator delegates to std's slice::ChunksExact over the map: the strided walk is then the std contract of
        # chunks_exact (consecutive chunks of exactly `chunk_size` bytes, front to back; remainder left out), and the premises are
        # stated about the delegation instead of about an index
        rep = "chunks"
        need = []
    suf_r = [f for f in it["fields"] if str(f["ty"]).startswith("&") and str(f["ty"]).endswith("[u8]") and "mut" not in str(f["ty"])]
    suf_d = [f for f in it["fields"] if f["ty"] == "usize"]
    if need and len(suf_r) == 1 and len(suf_d) == 1 and not [n for n in ("memory_map", "desc_size", "desc_version") if n not in tf]:
        # a cursor: the not yet consumed rest of the map plus the stride; each next() takes the first `stride` bytes off the rest
        rep = "suffix"
        need = []
    if need:
        # the rules below are written for the (tag reference, index, entry count) representation of the iterator
        ctx.fail("ANCHOR", "EFIMemoryAreaIter:representation", "EFIMemoryAreaIter keeps (mmap_tag, i, entries) and the tag its (desc_size, desc_version, memory_map) fields",
                 it.get("span", ""), "missing fields %s: the iterator's state is represented differently; S1-S5/IT are not applicable to it as written" % need)
        return ctx.finish("other", "representation anchor missing", [], "")
    # ---- LY
    got = sorted((f["off"], f["size"]) for f in desc["fields"])
    want = sorted((o, w) for (_, o, w) in S.EFI_MEMORY_DESCRIPTOR["fields"])
    ctx.check(desc["size"] == S.EFI_MEMORY_DESCRIPTOR["size"] and desc["align"] == S.EFI_MEMORY_DESCRIPTOR["align"] and got == want and "C" in desc["repr"],
              "LY", "EFIMemoryDesc", "EFIMemoryDesc is repr(C), 40 bytes, align 8 with Type@0(4), PhysicalStart@8, VirtualStart@16, NumberOfPages@24, Attribute@32",
              desc.get("span", ""), how="compiler layout %s" % got, why="layout %s size %s align %s" % (got, desc["size"], desc["align"]))
    ctx.check(desc.get("niche") is None, "LY", "EFIMemoryDesc:niche", "every bit pattern is a valid EFIMemoryDesc (no niche)", desc.get("span", ""),
              how="largest_niche = None", why=str(desc.get("niche")))
    vconst = [c for k, c in F.crates["multiboot2"]["consts"].items() if k.endswith("MemoryDescriptor::VERSION")]
    # layout of the tag: desc_size u32@8, desc_version u32@12, map @16
    row = S.MBI_TAGS["EfiMmap"]
    ctx.check(tf["desc_size"]["off"] == 8 and tf["desc_size"]["size"] == 4 and tf["desc_version"]["off"] == 12 and tag["tail"]["off"] == row["fixed"],
              "LY", "EFIMemoryMapTag", "descr_size u32@8, descr_vers u32@12, map bytes from offset 16", tag.get("span", ""),
              how="compiler layout", why=str(tag["fields"]))
    # ---- construction (S3, S4) through the public memory_areas()
    ma = F.find(impl_self=TAG, name="memory_areas", impl_trait=None)
    if len(ma) != 1:
        ctx.fail("ANCHOR", "memory_areas", "EFIMemoryMapTag::memory_areas exists", "", "%d" % len(ma))
        return ctx.finish("other", "anchor missing", [], "")
    A = an.of(F, ma[0])
    rt, facts = A.ret()
    me = deref(arg(1))
    dsz = fld(me, tf["desc_size"]["i"])
    dver = fld(me, tf["desc_version"]["i"])
    mmap = ("ref", fld(me, tf["memory_map"]["i"]))
    L = ("len", mmap)
    agg = N(rt) if rt is not None else None
    if agg is not None and agg[0] == "call" and isinstance(agg[1], str) and 1 <= len(agg[2]) <= 3:
        # the private constructor is a unit of its own whose result is not a closed term (it calls into std): read its
        # return value and the facts on its normal return directly, with its parameters replaced by what memory_areas passes
        # (its own `self`, or the map and the descriptor size taken from it)
        ci = F.insts.get(agg[1])
        if ci is not None and ci.get("impl_self_name") == "EFIMemoryAreaIter" and not ci.get("impl_trait") and not ci.get("vis_pub") and \
                ci["body"]["argc"] == len(agg[2]):
            A2 = an.of(F, ci)
            rt2, facts2 = A2.ret()
            if rt2 is not None:
                from .. import terms as T_
                mp = {i_ + 1: a_ for i_, a_ in enumerate(agg[2])}
                ident = agg[2] == (arg(1),)
                rt2 = rt2 if ident else T_.subst(N(rt2), mp)
                facts2 = facts2 if ident else [T_.subst(N(f), mp) for f in facts2]
                rt, agg = rt2, N(rt2)
                facts = list(facts) + [f for f in facts2 if f not in facts]
    g_shape = agg is not None and agg[0] == "aggr" and agg[1][0] == "adt" and agg[1][1] == ITER
    ctx.check(g_shape, "S3", "constructor", "memory_areas() returns a freshly constructed EFIMemoryAreaIter", A.site(), how=G.show(rt)[:200], why=G.show(rt)[:300])
    if g_shape:
        names = agg[1][3]
        vals = dict(zip(names, agg[2]))
        if rep == "index":
            g = vals.get("mmap_tag") == arg(1) and vals.get("i") == ("c", 0) and vals.get("entries") == ("bin", "Div", L, dsz)
            ctx.check(g, "S3", "fields", "the iterator starts with i = 0, entries = memory_map.len() / desc_size over the same tag", A.site(),
                      how="i=0, entries=len/desc_size", why=str(vals)[:400])
        elif rep == "suffix":
            rv_, dv_ = vals.get(suf_r[0]["name"]), vals.get(suf_d[0]["name"])
            g = rv_ is not None and dv_ == dsz and _same_slice(rv_, mmap)
            from .. import invariants as INV
            inv = INV.stride_invariants(F).get(it["path"], [])
            ctx.check(g and bool(inv), "S3", "fields", "the iterator starts with rest = the whole memory_map of the same tag and stride = desc_size, and "
                      "`rest.len() % stride == 0` is an invariant of the struct (holds at construction, stride is never written, rest is only ever "
                      "replaced by rest[stride..])", A.site(), how="rest = &tag.memory_map, stride = desc_size; invariant %s" % inv, why="%s; invariant %s" % (str(vals)[:300], inv))
        else:
            cv = vals.get(chunk_f[0]["name"])
            g = cv is not None and cv[0] == "call" and cn(cv[1]) == "core::slice::chunks_exact" and len(cv[2]) == 2 and cv[2][1] == dsz and \
                _same_slice(cv[2][0], mmap)
            ctx.check(g, "S3", "fields", "the iterator starts as memory_map.chunks_exact(desc_size) over the same tag's map: memory_map.len() / desc_size chunks, "
                      "the i-th being the desc_size bytes at offset i * desc_size (std contract)", A.site(),
                      how="slots = chunks_exact(&tag.memory_map, desc_size)", why=G.show(cv)[:300] if cv is not None else str(vals)[:300])
        nf = [N(f) for f in facts]

        def has(f):
            return f in nf
        sz, al = desc["size"], desc["align"]
        reqs = [
            ("S3", "divisible", ("cmp", "Eq", ("bin", "Rem", L, dsz), ("c", 0)), "memory_map.len() %% desc_size == 0"),
            ("S4", "min-size", None, "desc_size >= size_of::<EFIMemoryDesc>() (%d)" % sz),
            ("S4", "stride-aligned", None, "desc_size %% align_of::<EFIMemoryDesc>() (%d) == 0" % al),
            ("S4", "base-aligned", ("cmp", "Eq", ("align_offset", ("asptr", mmap), ("c", al)), ("c", 0)), "memory_map.as_ptr() is %d-aligned" % al),
            ("S4", "version", ("cmp", "Eq", dver, ("c", S.EFI_MEMORY_DESCRIPTOR["version"])), "desc_version == 1"),
        ]
        for rule, key, f, text in reqs:
            if key == "min-size":
                ok = any(x[0] == "cmp" and ((x[1] == "Ge" and x[2] == dsz and x[3][0] == "c" and x[3][1] >= sz) or
                                            (x[1] == "Gt" and x[2] == dsz and x[3][0] == "c" and x[3][1] >= sz - 1) or
                                            (x[1] == "Le" and x[3] == dsz and x[2][0] == "c" and x[2][1] >= sz)) for x in nf)
            elif key == "stride-aligned":
                ok = any(x[0] == "cmp" and x[1] == "Eq" and x[3] == ("c", 0) and x[2][0] == "bin" and x[2][1] in ("Rem",) and x[2][2] == dsz and
                         x[2][3][0] == "c" and x[2][3][1] % al == 0 for x in nf) or \
                    any(x[0] == "cmp" and x[1] == "Eq" and x[3] == ("c", 0) and x[2][0] == "bin" and x[2][1] == "BitAnd" and x[2][2] == dsz and
                        x[2][3] == ("c", al - 1) for x in nf)
            elif key == "base-aligned":
                # ptr.align_offset(8) == 0, or the address tested directly: (ptr as usize) % 8 == 0 / & 7 == 0
                def is_addr(x):
                    return x[0] == "cast" and x[1] in ("PointerExposeProvenance", "PtrToInt") and x[2] == ("asptr", mmap)
                ok = has(f) or any(x[0] == "cmp" and x[1] == "Eq" and x[3] == ("c", 0) and x[2][0] == "bin" and is_addr(x[2][2]) and
                                   ((x[2][1] == "BitAnd" and x[2][3] == ("c", al - 1)) or (x[2][1] == "Rem" and x[2][3][0] == "c" and x[2][3][1] % al == 0)) for x in nf)
            else:
                ok = has(f)
            ctx.check(ok, rule, key, "%s is a fact when the iterator is returned (the failing edge panics)" % text, A.site(),
                      how="dominating-edge fact", why="facts at return: %s" % [G.show(x)[:90] for x in facts])
    # ---- S3x the rejection is exact: "any other combination is rejected" has a converse - every combination the property admits
    # (version 1, d >= 40, d % 8 == 0, L % d == 0, 8-aligned map) is answered.  Every panic edge of memory_areas() and of the
    # private constructor that no fact rules out lies under the negation of one of these five conditions; a stricter test
    # (`desc_size >= 48`, `desc_size % 16 == 0`) passes S3 / S4, whose facts it entails, and is reported here
    from .. import panic as P_
    sz_, al_ = desc["size"], desc["align"]
    fns_ = [ma[0]] + [F.insts[k] for k in F.insts if F.insts[k].get("impl_self_name") == "EFIMemoryAreaIter" and not F.insts[k].get("impl_trait")
                      and not F.insts[k].get("closure") and F.insts[k]["body"]["argc"] == 1 and
                      (F.ty(F.insts[k]["body"]["locals"][1]["ty"]) or {}).get("pointee") == TAG]
    conds_ = [("cmp", "Ne", dver, ("c", S.EFI_MEMORY_DESCRIPTOR["version"])), ("cmp", "Lt", dsz, ("c", sz_)),
              ("cmp", "Ne", ("bin", "Rem", dsz, ("c", al_)), ("c", 0)), ("cmp", "Ne", ("bin", "BitAnd", dsz, ("c", al_ - 1)), ("c", 0)),
              ("cmp", "Ne", ("bin", "Rem", L, dsz), ("c", 0)), ("cmp", "Ne", ("align_offset", ("asptr", mmap), ("c", al_)), ("c", 0)),
              ("cmp", "Eq", dsz, ("c", 0))]
    addr_ = [("cast", k_, ("asptr", mmap), "usize") for k_ in ("PointerExposeProvenance", "PtrToInt")] + [("cast", k_, ("asptr", mmap)) for k_ in ("PointerExposeProvenance", "PtrToInt")]
    conds_ += [("cmp", "Ne", ("bin", "BitAnd", a_, ("c", al_ - 1)), ("c", 0)) for a_ in addr_] + [("cmp", "Ne", ("bin", "Rem", a_, ("c", al_)), ("c", 0)) for a_ in addr_]
    bad_, n_edges = [], 0
    for fi_ in fns_:
        Af = an.of(F, fi_)
        for s_ in P_.sites_of(F, fi_):
            if s_.status == "discharged" or s_.kind in ("overflow", "unchecked"):
                continue
            n_edges += 1
            # a panic block reached over several edges (`match x.checked_rem(d) { Some(0) => .., _ => panic!() }`): each way in is judged
            # on its own facts
            jb_ = s_.bb
            for _ in range(4):      # (the join may sit a few plain gotos above the diverging call)
                pp_ = Af.body.pred[jb_]
                if len(pp_) == 1 and Af.body.term(pp_[0][0])["k"] in ("goto", "call"):
                    jb_ = pp_[0][0]         # (the message's `format_args!` call sits between the join and `panic_fmt`)
                else:
                    break
            preds_ = Af.body.pred[jb_]
            sets_ = [[N(f) for f in Af.g.facts_at(s_.bb)]]
            if len(preds_) > 1:
                sets_ = [[N(f) for f in list(Af.g.facts_at(p_)) + list(Af.g.edge_facts(p_, jb_, lab_))] for (p_, lab_) in preds_]
            for fs_ in sets_:
                fs_ = [_rem_payload(f) for f in fs_]
                if s_.kind == "divzero" and s_.terms:
                    fs_.append(("cmp", "Eq", N(s_.terms[-1]), ("c", 0)))
                if "chunks_exact" in str(s_.what) and (("cmp", "Ne", dsz, ("c", 0)) in fs_ or G.entails(fs_, ("cmp", "Ge", dsz, ("c", 1))) is not None):
                    continue        # chunks_exact(d) panics only for d == 0, which the facts exclude
                if ("const", False) in fs_:
                    continue        # a way in that no input takes
                from .. import exact as EX

                def allowed_(fx_):
                    fx_ = [_rem_payload(N(f)) if not (isinstance(f, tuple) and f and f[0] == "or") else f for f in fx_]
                    return any(c in fx_ for c in conds_) or any(G.entails([f for f in fx_ if f[0] != "or"], c) is not None for c in conds_ if c[1] in ("Lt", "Eq"))
                v_ = EX.judge(fs_, allowed_)
                if v_ == "undecided":
                    ctx.note("S3x: a panic edge of %s is reached under the discriminant of a joined value only - not decided" % fi_["name"])
                    continue
                ok_ = v_ == "ok"
                if not ok_:
                    bad_.append("%s: %s %s under %s" % (fi_["name"], s_.kind, s_.what, [G.show(f)[:70] for f in fs_][:5]))
    ctx.check(not bad_, "S3x", "exact-rejection", "memory_areas() and the private constructor diverge only for a tag the property rejects: every panic edge lies "
              "under version != 1, desc_size < %d, desc_size %% %d != 0, len %% desc_size != 0 or a misaligned map" % (sz_, al_), A.site(),
              how="%d panic edge(s) in %s, each under one of the rejecting conditions" % (n_edges, [f_["name"] for f_ in fns_]), why="; ".join(bad_)[:600])
    # ---- S5 who constructs / writes
    ctors = []
    for k, f in F.fns.items():
        for bb in f["body"]["blocks"]:
            if bb.get("cleanup"):
                continue
            for st in bb["s"]:
                if st["k"] == "assign" and st["rv"]["k"] == "aggr" and st["rv"].get("adt") == ITER:
                    ctors.append(f)
    bad = [f["path"] for f in ctors if not (f.get("derived") or (f.get("impl_self_name") == "EFIMemoryAreaIter" and not f.get("impl_trait") and not f.get("vis_pub")))]
    callers = set()
    new_keys = [k for k, f in F.insts.items() if f.get("impl_self_name") == "EFIMemoryAreaIter" and not f.get("impl_trait") and f.get("name") in [c.get("name") for c in ctors if not c.get("derived")]]
    for k, i in F.insts.items():
        b = M.Body(i)
        for bb, t in b.calls():
            if M.callee_key(t) in new_keys:
                callers.add(k)
    ctx.check(bool(ctors) and not bad and callers == {ma[0]["key"]}, "S5", "who-constructs",
              "EFIMemoryAreaIter is constructed only by its private constructor (and derived Clone), which is called only from memory_areas()",
              "", how="constructors %s; callers %s" % (sorted({f.get("name") for f in ctors}), sorted(c.split("::")[-1] for c in callers)),
              why="constructors %s bad %s callers %s" % ([f["path"] for f in ctors], bad, sorted(callers)))
    ctx.check(all(not f["pub"] for f in it["fields"]), "S5", "private-fields", "all fields of EFIMemoryAreaIter are private", it.get("span", ""),
              how=str([(f["name"], f["pub"]) for f in it["fields"]]), why=str([(f["name"], f["pub"]) for f in it["fields"]]))
    # ---- next()
    nx = F.find(impl_self_name="EFIMemoryAreaIter", name="next", impl_trait="core::iter::traits::iterator::Iterator")
    if len(nx) != 1:
        ctx.fail("ANCHOR", "next", "Iterator::next for EFIMemoryAreaIter exists", "", "%d" % len(nx))
    elif rep == "chunks":
        next_chunks(ctx, F, nx[0], chunk_f[0], desc)
    elif rep == "suffix":
        next_suffix(ctx, F, nx[0], suf_r[0], suf_d[0])
    else:
        B = an.of(F, nx[0])
        b = B.body
        selfv = deref(arg(1))
        i_t = fld(selfv, itf["i"]["i"])
        ent = fld(selfv, itf["entries"]["i"])
        tagref = fld(selfv, itf["mmap_tag"]["i"])
        mm = ("ref", fld(deref(tagref), tf["memory_map"]["i"]))
        stride = fld(deref(tagref), tf["desc_size"]["i"])
        ex = CH.exits(B)
        nones = [e for e in ex if e.kind == "None"]
        somes = [e for e in ex if e.kind == "Some"]
        g = len(nones) == 1 and len(somes) == 1 and [N(f) for f in nones[0].own] == [("cmp", "Ge", i_t, ent)]
        ctx.check(g, "S1", "exhausted", "next() returns None exactly when i >= entries", B.site(), how=str(nones)[:200], why=str(ex)[:400])
        # pointer formation site
        sites = [(bb, t) for bb, t in b.calls() if M.callee_path(t).endswith("::add") or M.callee_path(t).endswith("::offset")]
        g1 = g2 = False
        why = "no pointer arithmetic found"
        if len(sites) == 1:
            bb, t = sites[0]
            facts = B.g.facts_at(bb)
            g1 = G.entails(facts, ("cmp", "Lt", rawf(B, "i"), rawf(B, "entries"))) is not None
            p = N(B.tb.call_value(t, bb))
            why = G.show(p)[:300]
            g2 = p[0] == "ptrop" and p[1] in ("add", "offset") and p[2] == ("asptr", mm) and p[4] == 1 and \
                p[3] in (("bin", "Mul", i_t, stride), ("bin", "Mul", stride, i_t))
        safe_ptr = None
        if not sites and somes:
            # no pointer arithmetic of its own: the descriptor's bytes are taken as a bounds-checked sub-slice `memory_map[off..off + 40]`
            # and the reference is formed at that sub-slice's start - TERMS reads `sub.as_ptr()` as `memory_map.as_ptr() + off`
            y = N(somes[0].payload)
            for _ in range(6):
                if y[0] in ("ref", "deref", "unwrap") or (y[0] == "cast" and y[1] in ("PtrToPtr", "Transmute")):
                    y = y[2] if y[0] == "cast" else y[1]
            if y[0] == "ptrop":
                safe_ptr = y
                why = G.show(y)[:300]
                g2 = y[1] in ("add", "offset") and y[2] == ("asptr", mm) and y[4] == 1 and y[3] in (("bin", "Mul", i_t, stride), ("bin", "Mul", stride, i_t))
                g1 = G.entails(somes[0].facts, ("cmp", "Lt", rawf(B, "i"), rawf(B, "entries"))) is not None
        ctx.check(g1, "S1", "guard", "i < entries is a fact where the descriptor pointer is formed", B.site(sites[0][0]) if sites else B.site(),
                  how="negated exhaustion test dominates the unsafe block", why="facts: %s" % ([G.show(f)[:80] for f in B.g.facts_at(sites[0][0])] if sites else ""))
        ctx.check(g2, "S2", "pointer", "the descriptor pointer is memory_map.as_ptr() + i * desc_size (bytes)", B.site(sites[0][0]) if sites else B.site(), how=why, why=why)
        # the reference: as_ref on that pointer typed EFIMemoryDesc, returned
        g3 = False
        if somes:
            pl = N(somes[0].payload)
            x = pl
            if x[0] == "unwrap":
                x = x[1]
            if x[0] == "call" and "as_ref" in str(x[1]) and DESC in str(x[1]):
                g3 = len(sites) == 1 and x[2][0] == N(B.tb.call_value(sites[0][1], sites[0][0]))
            if len(sites) == 1:
                # `&*ptr` / `ptr.as_ref().unwrap()`: the reference is the pointer formed at the one pointer-arithmetic site
                # (its pointee type is fixed by the item type &EFIMemoryDesc)
                ptr_t = N(B.tb.call_value(sites[0][1], sites[0][0]))
                y = x
                while y[0] in ("ref", "deref") and y != ptr_t:
                    y = y[1]
                g3 = g3 or y == ptr_t
        if safe_ptr is not None:
            g3 = g2
        ctx.check(g3, "S2", "reference", "the yielded item is the EFIMemoryDesc reference at that pointer", B.site(), how=G.show(somes[0].val)[:200] if somes else "",
                  why=G.show(somes[0].val)[:300] if somes else "no Some exit")
        # writes
        writes = [(bb, name, N(v)) for (bb, _si, name, v) in an.writes_through(B, 1)]
        gw = len(writes) == 1 and writes[0][1] == "i" and writes[0][2] == ("bin", "Add", i_t, ("c", 1))
        none_clean = bool(nones) and all(not b.dominates(w[0], nones[0].bb) for w in writes)
        some_adv = bool(somes) and all(b.dominates(w[0], somes[0].bb) for w in writes)
        ctx.check(gw and none_clean and some_adv, "S5", "writes", "next() writes only `i`, as i + 1, on the path that yields an item; the None path writes nothing",
                  B.site(), how=str(writes), why=str(writes))
    # ---- len
    ln = F.find(impl_self_name="EFIMemoryAreaIter", name="len", impl_trait="core::iter::traits::exact_size::ExactSizeIterator")
    if len(ln) != 1:
        ctx.fail("IT", "len", "ExactSizeIterator::len is implemented for EFIMemoryAreaIter", "", "%d impls" % len(ln))
    elif rep == "suffix":
        C = an.of(F, ln[0])
        rt, _ = C.ret()
        selfv = deref(arg(1))
        want = ("bin", "Div", ("len", fld(selfv, suf_r[0]["i"])), fld(selfv, suf_d[0]["i"]))
        ctx.check(rt is not None and N(rt) == want, "IT", "len", "len() == rest.len() / stride: the number of items still to come", C.site(), how=G.show(rt), why=G.show(rt))
    elif rep == "chunks":
        C = an.of(F, ln[0])
        rt, _ = C.ret()
        r = N(rt) if rt is not None else None
        slots = ("ref", fld(deref(arg(1)), chunk_f[0]["i"]))
        g = r is not None and r[0] == "call" and "ExactSizeIterator" in str(r[1]) and str(r[1]).endswith("::len") and "ChunksExact" in str(r[1]) and r[2] == (slots,)
        ctx.check(g, "IT", "len", "len() == the remaining chunk count of the delegate (std: ExactSizeIterator for ChunksExact): the number of items still to come",
                  C.site(), how=G.show(rt), why=G.show(rt))
    else:
        C = an.of(F, ln[0])
        rt, _ = C.ret()
        selfv = deref(arg(1))
        want = ("bin", "Sub", fld(selfv, itf["entries"]["i"]), fld(selfv, itf["i"]["i"]))
        ctx.check(rt is not None and N(rt) == want, "IT", "len", "len() == entries - i: the number of items still to come", C.site(), how=G.show(rt), why=G.show(rt))
    cl = [f for k, f in F.fns.items() if f.get("impl_self_name") == "EFIMemoryAreaIter" and f.get("impl_trait") == "core::clone::Clone" and f.get("name") == "clone"]
    ctx.check(len(cl) == 1 and cl[0].get("derived"), "IT", "clone", "Clone is derived (copies every field)", cl[0].get("span", "") if cl else "", how="derived", why=str(len(cl)))
    from . import iters
    if rep == "index":
        remaining = ("bin", "Sub", fld(deref(arg(1)), itf["entries"]["i"]), fld(deref(arg(1)), itf["i"]["i"]))
        iters.check_overrides(ctx, F, "IT", "EFIMemoryAreaIter", verified={"size_hint": iters.size_hint_is(F, (remaining,))})
    else:
        iters.check_overrides(ctx, F, "IT", "EFIMemoryAreaIter", verified={})
    # the extents of the map bytes themselves (memory_map = [24, size)) are C05's premises for this kind
    ctx.import_prop("C05", only=lambda o: "EFIMemoryMapTag" in o.key, label="EFIMemoryMapTag")
    ctx.note("no overflow in i * desc_size: i < len/desc_size implies i * desc_size < len <= isize::MAX (hand step of the strided lemma)")
    return ctx.finish(
        "other",
        "The premise list of the strided-iterator lemma, each decided on MIR: exhaustion guard dominating the pointer formation, the "
        "pointer/stride term, the constructor's entry count and its five facts (with diverging failing edges), who-may-construct and "
        "who-writes, len() = entries - i, and the descriptor layout against UEFI.",
        ["rustc MIR/layout", "mb2rules TERMS/GUARD/CHAIN/REACH", "hand proof of the strided lemma from S1-S5 (DESIGN.md)", "std: <*const T>::as_ref, slice::as_ptr"],
        "one obligation per premise S1..S5, IT, LY",
    )


def _same_slice(x, mmap):
    for _ in range(5):
        if x == mmap:
            return True
        if isinstance(x, tuple) and x and x[0] in ("ref", "deref") and len(x) == 2:
            x = x[1]
        elif isinstance(x, tuple) and x and x[0] == "unsize":
            x = x[1]
        else:
            break
    m = mmap
    for _ in range(3):
        if x == m:
            return True
        if isinstance(m, tuple) and m and m[0] in ("ref", "deref") and len(m) == 2:
            m = m[1]
        else:
            break
    return x == m


def next_suffix(ctx, F, nxi, fr, fd):
    """next() of the cursor representation: `if rest.is_empty() {None} else { let (slot, tail) = rest.split_at(stride); rest = tail;
    Some(&*(slot.as_ptr() as *const EFIMemoryDesc)) }`.  By induction over the calls (invariant rest.len() % stride == 0, S3) the
    i-th item is at map offset i * stride and there are exactly len / stride of them."""
    B = an.of(F, nxi)
    b = B.body
    selfv = deref(arg(1))
    rest = fld(selfv, fr["i"])
    stride = fld(selfv, fd["i"])
    ex = CH.exits(B)
    nones = [e for e in ex if e.kind == "None"]
    somes = [e for e in ex if e.kind == "Some"]
    empty = [("cmp", "Eq", ("len", rest), ("c", 0))]
    g1 = len(nones) == 1 and len(somes) == 1 and [N(f) for f in nones[0].own] in (empty, [("cmp", "Le", ("len", rest), ("c", 0))])
    ctx.check(g1, "S1", "exhausted", "next() returns None exactly when the rest of the map is empty", B.site(), how=str(nones)[:200], why=str(ex)[:400])
    ctx.check(g1, "S1", "guard", "an item is formed only when the rest is non-empty (then it holds at least one full stride, by the invariant)", B.site(),
              how="negated emptiness test dominates the item", why=str(ex)[:300])
    g2 = False
    why = "no item exit"
    if somes:
        x = N(somes[0].payload) if somes[0].payload is not None else ("opq", "none")
        why = G.show(x)[:300]
        for _ in range(6):
            if x[0] == "unwrap" and x[1][0] == "call" and "as_ref" in str(x[1][1]) and len(x[1][2]) == 1:
                x = x[1][2][0]
            elif x[0] in ("ref", "deref") and len(x) == 2:
                x = x[1]
            else:
                break
        # start of the first `stride` bytes of the rest = start of the rest
        g2 = x in (("asptr", rest), ("asptr", ("deref", rest))) and DESC in (nxi["body"]["locals"][0]["ty"] or "")
    ctx.check(g2, "S2", "pointer", "the descriptor pointer is the start of the rest: memory_map.as_ptr() + (bytes consumed so far) = + i * stride", B.site(), how=why, why=why)
    ctx.check(g2, "S2", "reference", "the yielded item is the EFIMemoryDesc reference at that pointer", B.site(), how=why, why=why)
    writes = [(bb, name, N(v)) for (bb, _si, name, v) in an.writes_through(B, 1)]
    want = ("sub", rest, stride, ("len", rest))
    gw = len(writes) == 1 and writes[0][1] == fr["name"] and writes[0][2] == want
    none_clean = bool(nones) and all(not b.dominates(w[0], nones[0].bb) for w in writes)
    some_adv = bool(somes) and all(b.dominates(w[0], somes[0].bb) for w in writes)
    ctx.check(gw and none_clean and some_adv, "S5", "writes", "next() writes only the rest, as rest[stride..], on the path that yields an item; the None path writes nothing",
              B.site(), how=str(writes)[:200], why=str(writes)[:300])


def next_chunks(ctx, F, nxi, chunk_field, desc):
    """next() of the delegating representation: `self.slots.next().map(|slot| &*(slot.as_ptr() as *const EFIMemoryDesc))`.
    S1: None exactly when the delegate is exhausted; S2: the item is the EFIMemoryDesc reference at the start of the chunk the
    delegate yields (the chunk has desc_size >= 40 bytes by S4 and starts at offset i * desc_size by the std contract);
    S5: next() touches the state only by calling the delegate's next()."""
    B = an.of(F, nxi)
    b = B.body
    slots = fld(deref(arg(1)), chunk_field["i"])
    ex = CH.exits(B)
    nones = [e for e in ex if e.kind == "None"]
    somes = [e for e in ex if e.kind == "Some"]
    inner = [(bb, t) for bb, t in b.calls() if "ChunksExact" in (M.callee_key(t) or "") and (M.callee_path(t) or "").endswith("Iterator>::next")]
    NX = N(B.tb.call_value(inner[0][1], inner[0][0])) if len(inner) == 1 else None
    g_arg = NX is not None and NX[0] == "call" and len(NX[2]) == 1 and NX[2][0] in (("ref", slots), slots)
    g1 = len(nones) == 1 and len(somes) == 1 and g_arg and CH.own_is_variant(nones[0], NX, 0) and CH.own_is_variant(somes[0], NX, 1)
    ctx.check(g1, "S1", "exhausted", "next() returns None exactly when the delegate (chunks_exact over the map) is exhausted, and an item exactly when it yields a chunk",
              B.site(), how="exits guarded by the discriminant of ChunksExact::next(&mut self.slots)", why=str(ex)[:400])
    ctx.check(g1, "S1", "guard", "the descriptor reference is formed only from a chunk the delegate yielded (a full desc_size-byte chunk inside the map)",
              B.site(), how="payload of the delegate's Some answer", why=str(ex)[:300])
    g2 = False
    why = "no item exit"
    if somes and NX is not None:
        chunk = CH.payload_of(NX, 1)
        x = N(somes[0].payload) if somes[0].payload is not None else ("opq", "none")
        why = G.show(x)[:300]
        for _ in range(6):
            if x[0] == "unwrap" and x[1][0] == "call" and "as_ref" in str(x[1][1]) and len(x[1][2]) == 1:
                x = x[1][2][0]       # ptr.as_ref().unwrap(): the reference at ptr (panics on null, which a slice pointer is not)
            elif x[0] in ("ref", "deref") and len(x) == 2:
                x = x[1]
            else:
                break
        g2 = x == ("asptr", chunk) or x == ("asptr", ("deref", chunk)) or x == ("asptr", ("ref", chunk))
        item_ty = (nxi["body"]["locals"][0]["ty"] or "")
        g2 = g2 and DESC in item_ty
    ctx.check(g2, "S2", "pointer", "the descriptor pointer is the start of the yielded chunk: memory_map.as_ptr() + i * desc_size (std contract of chunks_exact)",
              B.site(), how=why, why=why)
    ctx.check(g2, "S2", "reference", "the yielded item is the EFIMemoryDesc reference at that pointer", B.site(), how=why, why=why)
    # state: only the delegate's next() takes the state mutably, nothing is written directly
    writes = [(bb, name, N(v)) for (bb, _si, name, v) in an.writes_through(B, 1)]
    others = []
    al = an.aliases_of(B, 1)
    for bb, t in b.calls():
        if (bb, t) in inner:
            continue
        for a_ in t["args"]:
            pl = a_.get("m") or a_.get("c")
            if pl is not None and pl["l"] in al and not pl.get("p"):
                others.append(M.callee_path(t))
    ctx.check(not writes and not others and len(inner) == 1, "S5", "writes", "next() changes the iterator only by advancing the delegate once (one call of ChunksExact::next on self.slots)",
              B.site(), how="no direct writes; one delegate call", why="writes %s; other calls taking self %s; delegate calls %d" % (writes, others, len(inner)))


def raw(nterm, F, ty):
    """rebuild a typed atom for range reasoning: the desc_size field is a u32"""
    return ("zext", ("fld", ("deref", ("arg", 1, "&" + ty)), nterm[2], None, "u32"), "u32", "usize")


def rawf(B, name):
    """raw term of self.<name> as read at function entry in next()"""
    F = B.F
    it = F.adts[ITER + "<'_>"]
    f = [x for x in it["fields"] if x["name"] == name][0]
    return ("fld", ("deref", ("arg", 1, B.body.local_ty(1))), f["i"], name, f["ty"])
