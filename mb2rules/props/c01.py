"""C01 — boot-information parsing never reads outside the loaded structure.

P1  every unsafe site of the parse path of `multiboot2` (instances reachable from its public API, minimal features,
    including the instantiated multiboot2-common code) is enumerated
P2  each site matches a row of the site table (DESIGN.md App. A) and the row's bounding premises hold
    (imported: C14 ref_from_bytes, C15 cast, C03 TagIter, C05 DST extents, C18 EFI iterator, C19 ELF iterator, C20 transmute)
P5  NICHE: no type viewed over region bytes has an invalid bit pattern
P6  no shared mutable state: ABI types are Freeze, no mutable statics; all accessors take &self
P7  termination: acyclic call graph, every loop in the loop table
P8  zero census: no asm / FFI / abort / unreachable_unchecked / get_unchecked
EXTERNAL: ElfSection::name / string_table follow an address stored in the tag - the statement's documented exception.
"""
from .. import niche as NI
from . import memsafe as MS
from . import c05

LOOPS = [
    ("ElfSectionIter<'_> as core::iter::traits::iterator::Iterator>::next", "counter loop: remaining_sections decreases by one per iteration and the loop stops at 0 (C19.E2)"),
    ("ElfSection::<'_>::name", "EXTERNAL: strlen over the external string table (documented exception; termination not claimed)"),
]


def run(ctx):
    F, cl = MS.run_memsafe(ctx, "multiboot2", ["C14", "C15", "C03", ("C05", c05.only_mbi_kinds, "boot-information kinds"), "C18", "C19", "C20",
                                                   ("C02", lambda o: o.key.startswith("ref_from_ptr") or "end-tag" in o.key, "declared region")], {"sites": 25})
    # TagIter::new call sites
    n, bad = MS.tagiter_new_callsites(ctx, F, "multiboot2")
    ctx.check(n >= 2 and not bad, "P3", "TagIter::new-callers", "every TagIter::new call passes the inherent payload() of a loaded structure (length a multiple of 8, 8-aligned)",
              "", how="%d call sites" % n, why=str(bad))
    # P5 niche on the multiboot2 crate's viewed types
    viewed = {}
    for im in F.impls:
        tr = im.get("trait", "")
        if (tr.endswith("::tag::MaybeDynSized") or tr == "multiboot2_common::Header") and not im["generic"] and im["crate"] == "multiboot2":
            viewed[im["self"]] = 1
    for extra in ("uefi_raw::table::boot::MemoryDescriptor", "multiboot2::framebuffer::FramebufferColor", "multiboot2::elf_sections::ElfSectionInner32",
                  "multiboot2::elf_sections::ElfSectionInner64", "multiboot2::memory_map::MemoryArea"):
        viewed[extra] = 1
    leaves = {}
    nv = 0
    for ty in sorted(viewed):
        a = F.adts.get(ty)
        if a is None:
            ctx.fail("ANCHOR", ty, "layout of %s available" % ty, "", "missing")
            continue
        nv += 1
        if a.get("niche") is None:
            ctx.ok("P5", ty, "every bit pattern of %s is a valid value" % ty.split("::")[-1], a.get("span", ""), how="largest_niche = None")
        else:
            ls = NI.restricted_leaves(F, ty) or [(a["path"], "/".join(a["niche"]["path"]), "?", "niche")]
            for (owner, fname, fty, reason) in ls:
                leaves[(owner, fname)] = (fty, reason)
    for (owner, fname), (fty, reason) in sorted(leaves.items()):
        ctx.fail("P5", "%s.%s" % (owner, fname), "field `%s` of %s accepts every bit pattern" % (fname, owner.split("::")[-1]), (F.adts.get(owner) or {}).get("span", ""),
                 "type %s has invalid bit patterns (%s): reading an unexpected stored value is undefined behaviour" % (fty.split("::")[-1], reason))
    ctx.floor("P5", "types viewed over region bytes", nv, 25)
    # P6
    nonfreeze = [ty for ty in viewed if F.adts.get(ty) and not F.adts[ty].get("freeze", True)]
    bi = F.adts.get("multiboot2::boot_information::BootInformation<'_>") or {}
    ctx.check(not nonfreeze and bi.get("freeze", True), "P6", "freeze", "all ABI types and BootInformation are Freeze (no interior mutability): safe calls on &self cannot change what later calls read",
              "", how="%d types" % len(viewed), why=str(nonfreeze))
    mut_api = [k for k in cl if F.insts[k].get("eff_pub") and F.insts[k].get("impl_self_name") in ("BootInformation",) and
               any((F.ty(l["ty"]) or {}).get("mut") for l in F.insts[k]["body"]["locals"][1:2])]
    ctx.check(not mut_api, "P6", "shared-only", "no public method of BootInformation takes &mut self", "", how="0", why=str(mut_api))
    MS.termination(ctx, F, cl, LOOPS)
    MS.zero_census(ctx, F, cl)
    if ctx.tier == "thorough":
        from .. import witness
        witness.check(ctx, [("P9TagOutlivesInfo", "P9: a tag reference cannot outlive the BootInformation it came from"),
                            ("PrivBytesRef", "I-BR: a BytesRef cannot be forged (private fields)")], rule="P9")
    ctx.note("P9 (a tag reference cannot outlive the loaded object's borrow) is a compile-fail witness in the thorough tier")
    ctx.note("not decided: adequacy of the written bounding arguments themselves; LLVM-level behaviour; termination of ElfSection::name over external memory")
    return ctx.finish(
        "other",
        "Census of every unsafe operation on the parse path of `multiboot2` (instance call graph from the public API of the minimal build, "
        "through std adapters, vtables and closures); each site matched to a row of the written site table and its bounding premises "
        "re-decided (imported property premises or local fact/layout checks); bit-validity of all viewed types; Freeze/no-statics; "
        "acyclic call graph and loop table; zero-census with positive control.",
        ["rustc MIR/layout", "mb2facts instance graph (std bodies traversed, their contracts trusted)", "mb2rules", "the hand proofs of DESIGN.md §4 / App. A that connect premises to in-bounds reads"],
        "one obligation per unsafe site + per viewed type + per loop",
    )
