"""C17 — string tags round-trip text and apply the NUL / UTF-8 rules within the tag size.

S1  the three string constructors pass new_boxed [fixed pieces.., bytes] if bytes.ends_with(&[0]) else [fixed pieces.., bytes, &[0]]
    (bytes = the &str argument's bytes): with C16.N1 the size is fixed part + len (+1)
S2  the accessor is parse_slice_as_string(&tail field) (C05.L4: the tail is exactly [fixed, size))
S3  parse_slice_as_string(b) = CStr::from_bytes_until_nul(b).map_err(MissingNul)?.to_str().map_err(Utf8): callee identities and chain
S4  no panic edge on the parse path of the three accessors
Hand step: from_bytes_until_nul only inspects the slice it is given, which ends at the declared size (C05).
"""
from .. import an
from .. import select as SEL
from .. import chain as CH
from .. import guard as G
from .. import layout as L
from .. import panic as P
from .. import spec as S
from ..guard import N, arg, fld, deref, cn
from . import c05
from . import c07

NUL = ("unsize", ("ref", ("aggr", ("array",), (("c", 0),))), "&[u8]", "&[u8; 1]")
STRING_TAGS = {"CommandLineTag": ("cmdline", "Cmdline", 1, []), "BootLoaderNameTag": ("name", "BootLoaderName", 1, []),
               "ModuleTag": ("cmdline", "Module", 3, [("start", "mod_start"), ("end", "mod_end")])}


def run(ctx):
    F = ctx.F()
    pss = F.find(name="parse_slice_as_string", crate="multiboot2")
    if len(pss) != 1:
        ctx.fail("ANCHOR", "parse_slice_as_string", "exists", "", "%d" % len(pss))
        return ctx.finish("other", "anchor missing", [], "")
    A = an.of(F, pss[0])
    ex = CH.exits(A)
    ok = len(ex) == 3
    nul_ok = utf_ok = False
    if ok:
        FB = ("call", "core::ffi::c_str::CStr::from_bytes_until_nul", (arg(1),))
        cstr = CH.payload_of(FB, 0)
        # CStr::to_str(c) is str::from_utf8(c.to_bytes()) (std definition): either spelling
        TSS = [("call", "core::ffi::c_str::CStr::to_str", (cstr,)),
               ("call", "core::str::converts::from_utf8", (("call", "core::ffi::c_str::CStr::to_bytes", (cstr,)),))]
        e_nul = [e for e in ex if e.kind == "Err" and e.variant == "MissingNul"]
        e_utf = [e for e in ex if e.kind == "Err" and e.variant == "Utf8"]
        e_ok = [e for e in ex if e.kind == "Ok"]
        if len(e_nul) == 1 and len(e_utf) == 1 and len(e_ok) == 1:
            pn = N(e_nul[0].payload)
            nul_ok = CH.own_is_variant(e_nul[0], FB, 1) and pn[0] == "aggr" and pn[2] == (CH.payload_of(FB, 1),) and len(e_nul[0].facts) == 1
            for TS in TSS:
                pu = N(e_utf[0].payload)
                if CH.own_is_variant(e_utf[0], TS, 1) and pu[0] == "aggr" and pu[2] == (CH.payload_of(TS, 1),) and CH.guarded_by_variant(e_utf[0].facts, FB, 0) and \
                        CH.own_is_variant(e_ok[0], TS, 0) and N(e_ok[0].payload) == CH.payload_of(TS, 0):
                    utf_ok = nul_ok
    ctx.check(ok and nul_ok, "S3", "missing-nul", "parse_slice_as_string(b) first applies CStr::from_bytes_until_nul(b) and maps its error to StringError::MissingNul (early return)",
              A.site(), how="exit #1 = from_bytes_until_nul(arg).map_err(MissingNul)?", why=str([G.show(e.val)[:160] for e in ex]))
    ctx.check(ok and utf_ok, "S3", "utf8", "then returns .to_str() of that CStr with the error mapped to StringError::Utf8 - nothing else is read", A.site(),
              how="exit #2 = cstr.to_str().map_err(Utf8)", why=str([G.show(e.val)[:160] for e in ex]))
    for tyname, (acc, kind, nparams, fixed) in STRING_TAGS.items():
        a = L.adt(F, "multiboot2", tyname)
        if a is None:
            ctx.fail("ANCHOR", tyname, "exists", "", "missing")
            continue
        ctor = F.find(impl_self_path=a["path"], name="new", impl_trait=None)
        if len(ctor) != 1:
            ctx.fail("ANCHOR", tyname + "::new", "exists", "", "%d" % len(ctor))
            continue
        C = an.of(F, ctor[0])
        exs = [e for e in CH.exits(C) if N(e.val)[0] == "call" and cn(N(e.val)[1]) == "multiboot2_common::boxed::new_boxed"]
        sarg = None
        for pi in range(1, ctor[0]["body"]["argc"] + 1):
            if ctor[0]["body"]["locals"][pi]["ty"] == "&str":
                sarg = arg(pi)
        # variants = (guard, slice list): one per new_boxed exit, or the two sides of a conditional terminator piece
        # (`let t: &[u8] = if s.ends_with(&[0]) { &[] } else { &[0] }; new_boxed(h, &[.., s, t])`); empty pieces add nothing
        variants = []
        for e in exs:
            pcs = list(slices_of(N(e.val)))
            own = [N(f) for f in e.own]
            pcs = [SEL.canon_place(p) for p in pcs]
            ites = [p for p in pcs if p[0] == "ite"]
            if not ites:
                variants.append((own, [p for p in pcs if not is_empty_piece(p)]))
            elif len(ites) == 1:
                it = ites[0]

                def leaves(t, conds):
                    # the leaves of a (possibly nested) choice partition the inputs: (conjunction of tests, value)
                    if t[0] == "ite":
                        c = N(t[1])
                        return leaves(t[2], conds + [c]) + leaves(t[3], conds + [G.negate(c)])
                    return [(conds, t)]
                lv = leaves(it, [])
                if len(lv) > 2:
                    # `match s { [.., 0] => &[], _ => &[0] }`: exactly one leaf differs from all the others; the others together are
                    # its complement (leaves partition), so the choice is: (tests of that leaf) ? its value : the common value
                    for (cs, val) in lv:
                        rest_v = {v_ for (c2, v_) in lv if c2 is not cs}
                        if len(rest_v) == 1 and val not in rest_v:
                            lv = [(cs, val), ([("not", ("and", tuple(cs)))], next(iter(rest_v)))]
                            break
                for (cs, val) in lv:
                    variants.append((cs, [p for p in [val if q is it else q for q in pcs] if not is_empty_piece(p)]))
        ok_n = len(variants) == 2 and sarg is not None
        with_nul = without = None
        why = "exits %d, variants %d" % (len(exs), len(variants))
        if ok_n:
            cond = ("istrue", ("call", "core::slice::<impl [u8]>::ends_with", (sarg, NUL)))

            def same_test(f):
                """`s ends with a NUL byte`: s.ends_with(&[0])  or  s.last() == Some(&0)  (std: last() is the final element, Option<&u8>
                equality compares the bytes)"""
                if f == cond:
                    return True
                if f[0] == "and":
                    # slice pattern `[.., 0]`: len >= 1 and the last element (ConstantIndex 1 from the end) is 0
                    fs = set(f[1])
                    nonempty = {("cmp", "Ge", ("len", sarg), ("c", 1)), ("cmp", "Gt", ("len", sarg), ("c", 0)), ("cmp", "Ne", ("len", sarg), ("c", 0))}
                    last0 = ("cmp", "Eq", ("cidx", ("deref", sarg), 1, True), ("c", 0))
                    if len(fs) == 2 and last0 in fs and len(fs & nonempty) == 1:
                        return True
                    # `match s.last() { Some(0) => .. }`: last() is Some (std: the final element, when there is one) and it is 0
                    lastc = ("call", "core::slice::<impl [u8]>::last", (sarg,))
                    return fs == {("cmp", "Eq", ("discr", lastc), ("c", 1)), ("cmp", "Eq", ("deref", ("fld", ("dc", lastc, 1), 0)), ("c", 0))}
                if f[0] == "istrue" and f[1][0] == "call" and f[1][1] == "<core::option::Option<&u8> as core::cmp::PartialEq>::eq":
                    a_, b_ = [SEL.unref(x) for x in f[1][2]]
                    for (x, y) in ((a_, b_), (b_, a_)):
                        if x == ("call", "core::slice::<impl [u8]>::last", (sarg,)) and y[0] == "cs" and len(y) == 4 and y[2] == "Some" and y[3] == (("ptrto", 0),):
                            return True
                return False
            variants = [([("and", tuple(own))] if len(own) > 1 else own, pcs) for own, pcs in variants]
            for own, pcs in variants:
                if len(own) == 1 and same_test(own[0]):
                    with_nul = pcs
                elif len(own) == 1 and own[0][0] == "not" and same_test(own[0][1]):
                    without = pcs
            # the pieces before the string are the fixed fields: static widths that add up to the offset of the tail (which bytes they
            # hold is C07's); how many slices they are spread over is free
            good = False
            if with_nul is not None and without is not None and sarg in with_nul:
                nfix = with_nul.index(sarg)
                widths = [c07.piece_width(p_) for p_ in with_nul[:nfix]]
                good = with_nul[nfix:] == [sarg] and without[nfix:] == [sarg, NUL] and with_nul[:nfix] == without[:nfix] and \
                    None not in widths and 8 + sum(widths) == a["tail"]["off"]
            ok_n = good
            why = "already-terminated branch %s; other branch %s" % ([G.show(p)[:30] for p in (with_nul or [])], [G.show(p)[:30] for p in (without or [])])
        ctx.check(ok_n, "S1", tyname + "::new", "%s::new(s): content = s's bytes, plus one NUL byte exactly when s does not already end with NUL (size = fixed + len [+1] by C16.N1)" % tyname,
                  ctor[0].get("span", ""), how=why, why=why)
        # accessor
        ai = F.find(impl_self_path=a["path"], name=acc, impl_trait=None)
        if len(ai) == 1:
            rt, _ = an.of(F, ai[0]).ret()
            n = N(rt) if rt is not None else None
            tail_i = [f["i"] for f in a["fields"] if f["name"] == a["tail"]["field"]][0]
            ctx.check(n == ("call", pss[0]["key"], (("ref", fld(deref(arg(1)), tail_i)),)), "S2", "%s::%s" % (tyname, acc),
                      "%s::%s() = parse_slice_as_string(&self.%s): exactly the bytes from the fixed offset %d to the declared size" % (tyname, acc, a["tail"]["field"], a["tail"]["off"]),
                      ai[0].get("span", ""), how=G.show(rt)[:100], why=G.show(rt)[:200])
            cl = P.repo_closure(F, [ai[0]["key"]])
            sites = [s_ for k in cl for s_ in P.sites_of(F, F.insts[k]) if s_.status != "discharged"]
            ctx.check(not sites, "S4", "%s::%s" % (tyname, acc), "%s::%s() has no reachable panic edge (errors are returned)" % (tyname, acc), ai[0].get("span", ""),
                      how="closure of %d instances, all sites discharged" % len(cl), why=str([s_.key()[:100] for s_ in sites[:3]]))
    ctx.import_prop("C05", only=c05.only_string_kinds, label="string kinds")
    ctx.import_prop("C16")
    ctx.note("that from_bytes_until_nul stops at the first NUL inside its argument and to_str validates UTF-8 are std contracts")
    return ctx.finish(
        "other",
        "The NUL rule of the three string constructors as two guarded new_boxed calls with their slice lists; the accessors' return terms "
        "(decoder over exactly the tail field); the decoder's two-exit chain with callee identities and error constructors; panic census of the "
        "accessors' closures. Extent of the tail is C05, size computation C16.",
        ["rustc MIR", "mb2rules CHAIN/TERMS/PANIC", "std: CStr::from_bytes_until_nul, CStr::to_str, slice::ends_with", "C05, C16"],
        "one obligation per constructor, accessor, decoder exit",
    )


def is_empty_piece(p):
    p = N(p)
    return p[0] == "unsize" and p[3] == "&[u8; 0]"


def slices_of(v):
    x = v[2][1]
    if x[0] == "unsize":
        x = x[1]
    if x[0] == "ref":
        x = x[1]
    if x[0] == "aggr" and x[1] == ("array",):
        for p in x[2]:
            yield p
