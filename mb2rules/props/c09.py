"""C09 — header parsing never reads outside the declared header.

Same scheme as C01 on the parse path of `multiboot2-header`: unsafe-site census (its own code has no unsafe besides
`unsafe fn load`; everything else is instantiated multiboot2-common code with H = Multiboot2BasicHeader / HeaderTagHeader),
imported premises C14 (ref_from_bytes for both headers), C15 (cast), C05 (information-request extent), TagIter lemma for
the header-tag iterator, NICHE with the enumerated fields as *assumptions* (the statement restricts itself to defined values),
termination and zero-census.
"""
from .. import an
from .. import guard as G
from .. import niche as NI
from ..guard import N, arg, fld, deref
from . import c03
from . import memsafe as MS
from . import c05

ASSUMED_ENUM_FIELDS = {
    ("multiboot2_header::header::Multiboot2BasicHeader", "arch"),
    ("multiboot2_header::tags::HeaderTagHeader", "typ"),
    ("multiboot2_header::tags::HeaderTagHeader", "flags"),
    ("multiboot2_header::console::ConsoleHeaderTag", "console_flags"),
    ("multiboot2_header::relocatable::RelocatableHeaderTag", "preference"),
}


def run(ctx):
    F, cl = MS.run_memsafe(ctx, "multiboot2_header", ["C14", "C15", ("C05", c05.only_header_kinds, "header kinds")], {"sites": 7})
    # the region itself: ref_from_ptr views exactly the declared length (premise of C10)
    ctx.import_prop("C10", only=lambda o: o.key.startswith("ref_from_ptr"), label="declared region")
    # header-tag iterator: same transition premises as C03 with H = HeaderTagHeader
    c03.check_next(ctx, F, "multiboot2_header::tags::HeaderTagHeader", 4, "HeaderTagHeader", rule_prefix="T")
    # every other Iterator method of the shared tag iterator is std's default over next() (an `nth` override walks on its own)
    from . import iters as IT_
    IT_.check_overrides(ctx, F, "T5", "TagIter")
    it = F.insts.get("multiboot2_header::header::Multiboot2Header::<'_>::iter")
    if it is None:
        ctx.fail("ANCHOR", "iter", "Multiboot2Header::iter exists", "", "missing")
    else:
        rt, _ = an.of(F, it).ret()
        n = N(rt) if rt is not None else None
        payload = ("ref", fld(deref(fld(deref(arg(1)), 0)), 1))
        g = n is not None and c03.tagiter_fresh(n, payload)
        ctx.check(g, "T1", "iter", "iter() = TagIter{offset 0, buffer = the loaded header's payload field} (bytes 16 .. declared length)", it.get("span", ""),
                  how=G.show(rt)[:160], why=G.show(rt)[:300])
    n, bad = MS.tagiter_new_callsites(ctx, F, "multiboot2_header")
    ctx.check(not bad, "P3", "TagIter::new-callers", "every TagIter::new call passes the inherent payload() of a loaded structure", "", how="%d call sites" % n, why=str(bad))
    # NICHE
    viewed = {}
    for im in F.impls:
        tr = im.get("trait", "")
        if (tr.endswith("::tag::MaybeDynSized") or tr == "multiboot2_common::Header") and not im["generic"] and im["crate"] == "multiboot2_header":
            viewed[im["self"]] = 1
    leaves = {}
    nv = 0
    for ty in sorted(viewed):
        a = F.adts.get(ty)
        if a is None:
            continue
        nv += 1
        if a.get("niche") is not None:
            for (owner, fname, fty, reason) in (NI.restricted_leaves(F, ty) or [(a["path"], "/".join(a["niche"]["path"]), "?", "niche")]):
                leaves[(owner, fname)] = (fty, reason)
    for (owner, fname), (fty, reason) in sorted(leaves.items()):
        if (owner, fname) in ASSUMED_ENUM_FIELDS:
            ctx.ok("P5", "%s.%s" % (owner, fname), "enumerated field `%s` of %s holds a defined value - ASSUMPTION of the property (hypothesis)" % (fname, owner.split("::")[-1]),
                   (F.adts.get(owner) or {}).get("span", ""), how="assumed by the statement: %s" % reason, nontrivial=False)
        else:
            ctx.fail("P5", "%s.%s" % (owner, fname), "field `%s` of %s accepts every bit pattern (it is not one of the enumerated fields the statement excuses)" % (fname, owner.split("::")[-1]),
                     (F.adts.get(owner) or {}).get("span", ""), "type %s: %s" % (fty.split("::")[-1], reason))
    ctx.floor("P5", "header-crate types viewed over untrusted bytes", nv, 13)
    ctx.assumptions.append("enumerated fields (architecture, tag type, tag flags, console flags, relocation preference) hold defined values - stated hypothesis of C09; see the C08 known findings for what happens otherwise")
    MS.termination(ctx, F, cl, [])
    MS.zero_census(ctx, F, cl)
    return ctx.finish(
        "other",
        "Unsafe-site census of the parse path of `multiboot2-header` with each site matched to the site table and its premises "
        "re-decided (imports C14/C15/C05), the TagIter transition premises for the header-tag iterator, NICHE with the enumerated "
        "fields as stated assumptions, termination and zero-census.",
        ["rustc MIR/layout", "mb2facts instance graph", "mb2rules", "hand proofs of DESIGN.md §4 C09/C01"],
        "one obligation per unsafe site + per viewed type + per loop",
    )
