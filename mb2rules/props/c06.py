"""C06 — building then loading a boot information preserves exactly the supplied tags.

BUILDER  in build(): the set of pushed slots equals the set of the builder's 22 tag slots, one push site each, each pushing
         the tag's as_bytes() view; an Option slot is pushed iff it is Some (own guard = the Some-test of that slot); a Vec slot by a
         forward loop over the vector, one push per element; the end tag is pushed once, on every path, last; the result is
         new_boxed(fresh header, pushed slices)
SETTER   each setter writes exactly one slot (Some(v): last call wins / push(v): call order) of the slot's tag type; bijection;
         add_custom_tag pushes iff the tag's type classifies as Custom (else it panics)
Imports  C16 (new_boxed lays the slices out contiguously after a header declaring the exact total), C07 (EndTag::default image),
         C14/C02 (the result loads), C03 (the walk meets the pushed tags in order)
"""
from .. import an
from .. import chain as CH
from .. import guard as G
from .. import layout as L
from ..guard import N, arg, fld, deref, cn
from . import builders as B


def run(ctx):
    F = ctx.F()
    ba = L.adt(F, "multiboot2", "Builder")
    if ba is None:
        ctx.fail("ANCHOR", "Builder", "multiboot2::Builder exists", "", "missing")
        return ctx.finish("other", "anchor missing", [], "")
    ctx.floor("BUILDER", "tag slots of multiboot2::Builder", len(ba["fields"]), 22)

    def hdr_ok(h):
        return h == ("aggr", ("adt", "multiboot2::boot_information::BootInformationHeader", "BootInformationHeader", ("total_size", "_reserved")), (("c", 0), ("c", 0)))
    B.analyse_build(ctx, F, "multiboot2", ba, "multiboot2::end::EndTag", "type 0, size 8", hdr_ok)
    n = B.analyse_setters(ctx, F, ba, special={"add_custom_tag"})
    ctx.floor("SETTER", "setters of multiboot2::Builder", n, 21)
    # add_custom_tag: conditional push
    ac = F.find(impl_self_path=ba["path"], name="add_custom_tag", impl_trait=None)
    if len(ac) != 1:
        ctx.fail("ANCHOR", "add_custom_tag", "exists", "", "%d" % len(ac))
    else:
        A = an.of(F, ac[0])
        b = A.body
        from .. import mir as M
        pushes = [(bb, t) for bb, t in b.calls() if (M.callee_path(t) or "").endswith("Vec::<T, A>::push")]
        ok = False
        why = "%d pushes" % len(pushes)
        if len(pushes) == 1:
            bb, t = pushes[0]
            a0 = N(A.tb.operand(t["args"][0], (bb, len(b.stmts(bb)))))
            a1 = N(A.tb.operand(t["args"][1], (bb, len(b.stmts(bb)))))
            cis = [f["i"] for f in ba["fields"] if f["name"] == "custom_tags"]
            if not cis:
                ctx.fail("ANCHOR", "Builder:representation", "the builder keeps its slots as direct fields (one Option / Vec per tag kind)", ba.get("span", ""),
                         "no field `custom_tags`: the slots are represented differently; the slot rules are not applicable as written")
                return ctx.finish("other", "representation anchor missing", [], "")
            ci = cis[0]
            facts = [N(f) for f in A.g.facts_at(bb)]
            from . import tagtables as TT_
            t1 = TT_.conv_key(F, "t1")
            tt = F.adts["multiboot2::tag_type::TagType"]
            custom_idx = [v["idx"] for v in tt["variants"] if v["name"] == "Custom"][0]
            guard = [f for f in facts if f[0] == "cmp" and f[1] == "Eq" and f[3] == ("c", custom_idx) and f[2][0] == "discr"]
            typ_ok = False
            for g in guard:
                c = g[2][1]
                # TagType::from(tag.header().typ) in some inlined form: call T1 on typ.0 of the argument's header
                subs = B.subterms(c)
                typ_ok = typ_ok or any(len(s) >= 3 and s[0] == "call" and s[1] == t1 for s in subs)
            # every non-pushing path diverges
            rets = b.return_blocks
            only_via_push = all(b.dominates(bb, r) for r in rets)
            ok = a0 == ("ref", fld(arg(1), ci)) and a1 == arg(2) and typ_ok and only_via_push
            why = "pushes arg into custom_tags=%s guard is TagType::from(typ) == Custom=%s every return passes the push=%s" % (a0 == ("ref", fld(arg(1), ci)) and a1 == arg(2), typ_ok, only_via_push)
        ctx.check(ok, "SETTER", "add_custom_tag:guard", "add_custom_tag(t) appends t iff TagType::from(t.header().typ) is Custom(_); otherwise it panics (no silent drop)", ac[0].get("span", ""), how=why, why=why)
    if ctx.tier == "thorough":
        from .. import witness
        witness.check(ctx, [("SlotType", "a builder slot only accepts its own tag type")], rule="SETTER")
    for pid in ("C16", "C07", "C02", "C03"):
        ctx.import_prop(pid)
    ctx.note("hand step: each pushed slice is as_bytes() of a supplied tag (its bytes up to round8(size)); by C16 they are concatenated after an 8-byte header declaring the exact total, "
             "so the walk of C03 meets exactly the supplied tags in push order and then the end tag; all sizes are multiples of 8, so the structure loads (C02)")
    return ctx.finish(
        "other",
        "Slot coverage of build() decided on MIR for all 22 slots at once (which is all 2^22 subsets): one push per slot with the slot's own "
        "Some-test / forward loop as its only guard, end tag last on every path; setter write-sets and the setter-slot bijection; the custom-tag "
        "guard; imported premises of new_boxed (C16), constructor images (C07), loading (C02) and the walk (C03).",
        ["rustc MIR", "mb2rules BUILDER/TERMS/GUARD", "std: Vec::push order, slice iteration order, Option::as_ref", "C16, C07, C02, C03"],
        "one obligation per slot, per setter",
    )
