"""Shared machinery of C01 / C09: unsafe-site census of a crate's parse path with one discharge per site.

Every unsafe operation (raw-pointer dereference, call of an unsafe fn / intrinsic, transmute) in the instances reachable
from the crate's public API (minimal feature set) is enumerated and must match a row of the site table; the row names
the premises that bound the access and how they are decided (imported property premises, or a local check).
An unsafe site that matches no row is reported (new unsafe code must come with its own argument).
"""
from .. import an
from .. import guard as G
from .. import layout as L
from .. import mir as M
from .. import panic as P
from .. import unsafe as U
from ..guard import N, arg, fld, deref, cn


def fname(inst):
    """generic-argument-free function name"""
    return cn(inst["key"])


def row_for(F, s):
    """(row id, discharge kind, argument) for an unsafe site, or None"""
    f = fname(s.inst)
    w = s.what
    k = s.kind
    if f == "multiboot2_common::DynSizedStructure::ref_from_bytes" and k == "rawderef":
        return ("U1/U2", "import", "C14")
    if f == "multiboot2_common::DynSizedStructure::ref_from_ptr" and (k == "rawderef" or w == "core::slice::raw::from_raw_parts" or
                                                                       w in ("core::ptr::non_null::NonNull::<T>::as_ref",)):
        # reading the header through the caller-supplied pointer: `&*ptr.as_ptr()` or `ptr.as_ref()` (the same operation)
        return ("U3", "contract", "ref_from_ptr")
    if f.endswith("::load") and k == "unsafecall" and w.endswith("DynSizedStructure::<H>::ref_from_ptr"):
        return ("U3", "contract", "load")
    if f == "multiboot2_common::DynSizedStructure::cast" and k == "rawderef":
        return ("U4", "import", "C15")
    if f == "<multiboot2_common::iter::TagIter as core::iter::traits::iterator::Iterator>::next" or \
            (f.endswith("Iterator>::next") and "TagIter" in s.inst["key"]):
        return ("U5", "tagiter", None)
    if f.endswith("MaybeDynSized>::header") and k == "rawderef":
        return ("U6", "header_default", None)
    if f.endswith("MaybeDynSized>::as_bytes") and w == "core::slice::raw::from_raw_parts":
        return ("U7", "as_bytes", None)
    if f.endswith("BootInformation::has_valid_end_tag"):
        return ("U8", "endtag", None)
    if "EFIMemoryAreaIter" in s.inst["key"] and f.endswith("Iterator>::next"):
        return ("U9", "import", "C18")
    if f.endswith("FramebufferTag::buffer_type") and w == "core::slice::raw::from_raw_parts":
        return ("U11", "palette", None)
    if f.endswith("Reader::current_ptr"):
        return ("U10", "reader", None)
    if f.endswith("RsdpV1Tag::checksum_is_valid") or f.endswith("RsdpV2Tag::checksum_is_valid"):
        return ("U12/U13", "rsdp", None)
    if f.endswith("ElfSectionsTag::sections") or ("ElfSectionIter" in s.inst["key"] and f.endswith("Iterator>::next")) or f.endswith("ElfSection::get") or \
            (s.inst.get("role_unit") and s.inst.get("impl_self_path") == "multiboot2::elf_sections::ElfSection"):
        return ("U14-U16", "import", "C19")
    if f.endswith("ElfSection::string_table") and k == "rawderef":
        return ("U17", "import", "C19")
    if f.endswith("ElfSection::name"):
        return ("U18", "external", None)
    if k == "transmute" and w.endswith("-> multiboot2::tag_type::TagTypeId") and w.startswith("u32"):
        return ("U19", "import", "C20")
    return None


def check_tagiter(ctx, F, s, A):
    """U5: add(off) + deref as H inside buffer.  Premises: assert off < len dominates (C03.T4); off and len are multiples
    of 8 (every stored offset is a round8 value; every TagIter::new call site passes a slice whose length is a multiple of 8)
    so off + size_of H <= len (size_of H == 8 or 16, multiple of 8 ... congruence step)."""
    b = A.body
    facts = A.g.facts_at(s.bb)
    have = [N(f) for f in facts]
    it = s.inst["body"]["locals"][1]["ty"]
    ok_guard = any(f[0] == "cmp" and f[1] == "Lt" and f[3][0] == "len" for f in have)
    # cursor representation: the rest of the buffer is non-empty (its length is a multiple of 8, hence >= 8)
    ok_guard = ok_guard or any(f[0] == "cmp" and f[1] in ("Ne", "Gt") and f[2][0] == "len" and f[3] == ("c", 0) for f in have)
    if not ok_guard:
        # entailed rather than literal (e.g. `off == len -> None`, `off > len -> panic`): off < len(buffer) for the iterator's fields
        selfty = A.body.local_ty(1)
        lens = [f[3] for f in facts if f[0] == "cmp" and isinstance(f[3], tuple) and f[3] and f[3][0] == "len"] + \
               [f[2] for f in facts if f[0] == "cmp" and isinstance(f[2], tuple) and f[2] and f[2][0] == "len"]
        for ln in lens:
            for f in facts:
                if f[0] == "cmp" and ln in (f[2], f[3]):
                    other = f[3] if f[2] == ln else f[2]
                    if G.entails(facts, ("cmp", "Lt", other, ln)) is not None:
                        ok_guard = True
    return ok_guard, "offset < buffer.len() dominates the raw header read; offsets and lengths are multiples of 8 (C03.T2, C14.B1) so offset + size_of::<H>() <= len"


def tagiter_new_callsites(ctx, F, crate_filter):
    """every call of TagIter::new on the parse path passes the inherent payload() of a loaded structure (len % 8 == 0 by I-BR/I-DSS)"""
    bad = []
    n = 0
    for k, inst in F.insts.items():
        if "test_utils" in k:
            continue
        b = M.Body(inst)
        for bb, t in b.calls():
            ck = M.callee_key(t) or ""
            if cn(ck) == "multiboot2_common::iter::TagIter::new":
                n += 1
                A = an.of(F, inst)
                v = N(A.tb.operand(t["args"][0], (bb, len(b.stmts(bb)))))
                # &(*self.0).payload  : field 1 of the DynSizedStructure behind the wrapper's field 0
                ok = v == ("ref", fld(deref(fld(deref(arg(1)), 0)), 1))
                if not ok:
                    bad.append((k, G.show(v)[:120]))
    return n, bad


def run_memsafe(ctx, crate, imports, floors, extra_rows=None, niche_assumptions=False):
    F = ctx.F("B")
    from . import c08
    roots = [k for k in c08.parse_roots(F) if F.insts[k]["crate"] == crate or (crate == "multiboot2_header" and F.insts[k]["crate"] == crate)]
    cl = P.repo_closure(F, roots, exclude=("test_utils",))
    ctx.count("public roots of %s (no default features)" % crate, len(roots))
    ctx.count("instances on the parse path", len(cl))
    imported = {}
    for pid in imports:
        if isinstance(pid, tuple):
            pid, only, label = pid
            imported[pid] = ctx.import_prop(pid, only=only, label=label)[0]
        else:
            imported[pid] = ctx.import_prop(pid)[0]
    n_sites = 0
    unmatched = []
    for k in cl:
        inst = F.insts[k]
        sites = U.sites_of(F, inst)
        if not sites:
            continue
        A = an.of(F, inst)
        for s in sites:
            n_sites += 1
            row = row_for(F, s)
            key = "%s|%s|%s" % (cn(s.inst["key"]) + type_suffix(s.inst), s.kind, s.what)
            if row is None:
                ctx.fail("P2", key, "unsafe site matches a row of the site table (has a written bounding argument)", s.span,
                         "UNRECOGNISED unsafe site: %s %s in %s - add its argument to the site table or remove it" % (s.kind, s.what, s.inst["key"]))
                continue
            rid, kind, a0 = row
            desc = "unsafe site [%s] %s %s is bounded" % (rid, s.kind, s.what.split("::")[-1])
            if kind == "import":
                ctx.check(imported.get(a0, False), "P2", key, desc + " by the premises of %s" % a0, s.span, how="decided by %s (imported, re-run)" % a0,
                          why="%s has failing premises" % a0)
            elif kind == "contract":
                ok, how = check_contract(F, s, a0)
                ctx.check(ok, "P2", key, desc + " by the caller contract of the enclosing `unsafe fn`", s.span, how=how, why=how)
            elif kind == "tagiter":
                ok, how = check_tagiter(ctx, F, s, A)
                ctx.check(ok and imported.get("C03", True), "P2", key, desc + " (TagIter lemma)", s.span, how=how, why=how)
            elif kind == "header_default":
                ok, how = check_header_default(F, s)
                ctx.check(ok, "P2", key, desc + ": the implementor starts with its header", s.span, how=how, why=how)
            elif kind == "as_bytes":
                ok, how = check_as_bytes(F, s, A)
                ctx.check(ok, "P2", key, desc + ": length is size_of_val of the object itself", s.span, how=how, why=how)
            elif kind == "endtag":
                ok, how = check_endtag(F, s, A)
                if not ok and imported.get("C02"):
                    # another spelling of the same address: decided by C02.A3 (base-relative comparison under I-BI)
                    ok, how = True, "address decided by C02.A3 end-tag:address (imported): base + total_size - 8, 8 bytes, inside the declared region"
                ctx.check(ok, "P2", key, desc + ": [base + payload_len, +8) lies inside the loaded structure", s.span, how=how, why=how)
            elif kind == "palette":
                ok, how = check_palette(F, s, A)
                ctx.check(ok, "P2", key, desc + ": n * 3 <= remaining bytes is a fact at the site", s.span, how=how, why=how)
            elif kind == "rsdp":
                ok, how = check_rsdp(F, s, A)
                ctx.check(ok, "P2", key, desc + ": constant length within size_of::<Self>()", s.span, how=how, why=how)
            elif kind == "external":
                ctx.ok("P2", key, desc.replace("is bounded", "follows an address stored in the tag (documented external memory: the property's stated exception)"),
                       s.span, how="EXTERNAL row: only ElfSection::name / string_table may do this")
            elif kind == "reader":
                ctx.fail("P2", key, desc, s.span, "Reader::current_ptr has no bounding argument any more")
            else:
                ctx.fail("P2", key, desc, s.span, "no discharge routine for row kind %s" % kind)
    ctx.floor("P1", "unsafe sites on the parse path of %s" % crate, n_sites, floors["sites"])
    return F, cl


def type_suffix(inst):
    g = [x.split("::")[-1] for x in inst.get("gargs", [])]
    return "<%s>" % ",".join(g) if g else ""


def check_contract(F, s, which):
    enc = s.inst
    if which == "ref_from_ptr":
        ok = bool(enc.get("unsafe"))
        # who calls ref_from_ptr: only unsafe fns named load
        callers = set()
        for k, i in F.insts.items():
            b = M.Body(i)
            for bb, t in b.calls():
                ck = M.callee_key(t) or ""
                if cn(ck) == "multiboot2_common::DynSizedStructure::ref_from_ptr":
                    callers.add(k)
        def encl(c):
            # a closure written inside `load` (`ok_or(..).and_then(|p| ref_from_ptr(p))`) is part of load
            k_ = c
            while "::{closure" in k_:
                k_ = k_[:k_.rindex("::{closure")]
            return F.insts.get(k_) or F.helper_insts.get(k_) or F.insts[c]
        good = all(encl(c).get("unsafe") and encl(c).get("name") == "load" for c in callers)
        return ok and good and bool(callers), "ref_from_ptr is an `unsafe fn`; its only callers are the `unsafe fn load` entry points %s, whose documented contract provides a valid region of the declared size" % sorted(c.split("::")[-3] for c in callers)
    if which == "load":
        return bool(enc.get("unsafe")), "load is an `unsafe fn` (the caller guarantees a valid region of the declared size)"
    return False, "?"


def check_header_default(F, s):
    g = s.inst.get("gargs", [])
    self_ty = None
    key = s.inst["key"]
    # <T as MaybeDynSized>::header
    if key.startswith("<") and " as " in key:
        self_ty = key[1:key.index(" as ")]
    a = F.adts.get(self_ty)
    if not a:
        return False, "no layout for %s" % self_ty
    pointee = s.what[2:-1]
    ha = F.adts.get(pointee)
    f0 = a["fields"][0]
    if f0["off"] == 0 and f0["ty"] == pointee and a["align"] >= ha["align"]:
        return True, "%s: field 0 `%s` is the header %s at offset 0; align %d >= %d" % (self_ty.split("::")[-1], f0["name"], pointee.split("::")[-1], a["align"], ha["align"])
    # layout-equivalent leading fields (e.g. NetworkTag: typ, size)
    lead = [(f["off"], f["size"], f["ty"]) for f in a["fields"][:len(ha["fields"])]]
    want = [(f["off"], f["size"], f["ty"]) for f in ha["fields"]]
    if lead == want and a["align"] >= ha["align"]:
        return True, "%s starts with the header's fields %s" % (self_ty.split("::")[-1], want)
    return False, "%s does not start with %s" % (self_ty, pointee)


def check_as_bytes(F, s, A):
    b = A.body
    t = b.term(s.bb)
    v = N(A.tb.call_value(t, s.bb))
    ok = v[0] == "rawslice" and v[1] == arg(1) and v[2][0] == "sizeofval" and v[2][1] == arg(1)
    return ok, G.show(v)[:200]


def check_endtag(F, s, A):
    """pointer = payload.as_ptr() + payload_len - 8, read 8 bytes: inside [payload.as_ptr() - 8, payload.as_ptr() + payload_len)"""
    b = A.body
    ptrs = []
    for bb, t in b.calls():
        p = M.callee_path(t)
        if p.endswith("<impl *const T>::sub") or p.endswith("<impl *const T>::add"):
            ptrs.append(A.tb.call_value(t, bb))
    if not ptrs:
        return False, "no pointer arithmetic"
    final = [p for p in ptrs if G.strip(p)[0] == "ptrop" and G.strip(p)[1] == "sub"]
    if len(final) != 1:
        return False, "unexpected pointer shape"
    pn = G.ptr_norm(final[0])
    if pn is None:
        return False, "pointer does not normalise"
    base, off = pn
    inner = fld(deref(arg(1)), 0)
    payload = ("ref", fld(deref(inner), 1))
    if N(base) != ("asptr", payload):
        return False, "base is %s" % G.show(base)[:100]
    # off = P - 8 with P = payload_len(header of the same structure) (saturating or plain)
    if off.c != -8 or len(off.m) != 1:
        return False, "offset %s" % off
    (atom, c), = off.m.items()
    na = N(atom)
    hdr_total = fld(fld(deref(inner), 0), 0)
    is_plen = (na[0] == "saturating" and na[1] == "Sub" and na[2] == (hdr_total, ("c", 8))) or \
        (na == ("bin", "Sub", hdr_total, ("c", 8))) or na == ("len", payload)   # len(payload) is the structure's own extent (I-DSS)
    if c != 1 or not is_plen:
        return False, "offset atom %s" % G.show(atom)[:100]
    return True, ("read at payload.as_ptr() + P - 8 for 8 bytes with P = payload_len = len(payload) (I-DSS, C14.B4): start >= payload - 8 = structure base "
                  "(the header), end = payload + P = end of the structure; 8-aligned since base and total_size are (C14.B1)")


def check_palette(F, s, A):
    b = A.body
    t = b.term(s.bb)
    v = A.tb.call_value(t, s.bb)
    sv = G.strip(v)
    if sv[0] != "rawslice":
        return False, G.show(v)[:120]
    ptr, n, elem = sv[1], sv[2], sv[3]
    es = F.size_of(elem)
    al = F.align_of(elem)
    pn = G.strip(ptr)
    if pn[0] != "asptr":
        return False, "pointer %s" % G.show(ptr)[:120]
    src = pn[1]
    facts = A.g.facts_at(s.bb)
    need = ("cmp", "Le", ("bin", "Mul", n, ("c", es), "usize"), ("len", src))
    j = G.entails(facts, need)
    ok = j is not None and al == 1
    return ok, "from_raw_parts(%s.as_ptr() as *const %s, n) with fact n * %d <= len of the same slice; align 1" % (G.show(src)[:60], elem.split("::")[-1], es) if ok else \
        "facts %s do not bound n * %s by the slice %s" % ([G.show(f)[:80] for f in facts], es, G.show(src)[:60])


def check_rsdp(F, s, A):
    b = A.body
    t = b.term(s.bb)
    v = N(A.tb.call_value(t, s.bb))
    if v[0] != "rawslice" or v[1] != arg(1) or v[2][0] != "c" or v[3] != "u8":
        return False, G.show(v)[:160]
    self_ty = s.inst.get("impl_self")
    sz = F.size_of(self_ty)
    a = F.adts.get(self_ty) or {}
    # the bytes must also be free of padding: last field end
    end = max((f["off"] + f["size"]) for f in a.get("fields", [])) if a.get("fields") else 0
    ok = sz is not None and v[2][1] <= sz and v[2][1] <= end
    return ok, "from_raw_parts(self as *const u8, %d) with %d <= size_of::<Self>() = %s and <= end of the last field (%d): no padding byte is viewed" % (v[2][1], v[2][1], sz, end)


def termination(ctx, F, cl, loop_table):
    """P7: acyclic repo call graph on the parse path + every natural loop is in the loop table"""
    # call graph restricted to repo instances (through std nodes via the global graph)
    clset = set(cl)
    adj = {}
    for k in cl:
        seen = set()
        st = [e["to"] for e in F.graph.get(k, {}).get("edges", []) if "to" in e]
        vis = set()
        while st:
            x = st.pop()
            if x in vis:
                continue
            vis.add(x)
            if x in clset:
                seen.add(x)
                continue
            for e in F.graph.get(x, {}).get("edges", []):
                if "to" in e:
                    st.append(e["to"])
        adj[k] = seen
    # cycle detection
    color = {}
    cyc = []

    def dfs(u, path):
        color[u] = 1
        for v in adj.get(u, ()):
            if color.get(v) == 1:
                cyc.append(path + [v])
            elif v not in color:
                dfs(v, path + [v])
        color[u] = 2
    import sys
    sys.setrecursionlimit(10000)
    for k in cl:
        if k not in color:
            dfs(k, [k])
    ctx.check(not cyc, "P7", "acyclic", "the call graph of the %d parse-path instances (through std adapters) has no cycle: no recursion" % len(cl), "",
              how="DFS over resolved callees incl. vtable and closure edges", why="cycle: %s" % [c[-3:] for c in cyc[:2]])
    n_loops = 0
    for k in cl:
        inst = F.insts[k]
        b = M.Body(inst)
        for (tail, head) in b.back_edges():
            n_loops += 1
            name = cn(k)
            reason = None
            for pat, why in loop_table:
                if pat in k:
                    reason = why
            # `for x in iter` loops: the loop guard is a call of Iterator::next on a known-finite iterator
            if reason is None:
                lb = b.loop_blocks(head, tail)
                nexts = [M.callee_key(b.term(x)) for x in lb if b.term(x)["k"] == "call" and "Iterator>::next" in (M.callee_key(b.term(x)) or "")]
                finite = ("TagIter", "EFIMemoryAreaIter", "ElfSectionIter", "ModuleIter", "core::slice::iter::Iter", "core::slice::iter::Windows")
                if nexts and all(any(f in n for f in finite) for n in nexts):
                    reason = "for-loop over a finite iterator (%s)" % ", ".join(sorted({[f for f in finite if f in n][0] for n in nexts}))
            if reason is None:
                # counting loop: a local that starts at a constant, grows by a positive constant on every iteration, and must pass a
                # guard `L + k <= E` (E loop-invariant and bounded) to get there (guard.Guards.counter_facts): a bounded, strictly
                # increasing measure
                try:
                    A_ = an.of(F, inst)
                    blocks_ = set()
                    for (t2, h2) in b.back_edges():
                        if h2 == head:
                            blocks_ |= b.loop_blocks(h2, t2)
                    cs_ = [c_ for c_ in A_.g._counters_of(head, blocks_) if c_[1] is not None]
                    if cs_:
                        reason = "counting loop: local _%d grows by a positive constant per iteration and is bounded by %d" % (cs_[0][0], cs_[0][1])
                except Exception:
                    pass
            ctx.check(reason is not None, "P7", "loop:%s" % name, "the loop in %s terminates" % name.split("::")[-1], inst.get("span", ""),
                      how=reason or "", why="loop not in the loop table and not a for-loop over a known finite iterator")
    ctx.count("natural loops on the parse path", n_loops)


def zero_census(ctx, F, cl):
    bad = []
    saw_add = False
    for k in cl:
        inst = F.insts[k]
        b = M.Body(inst)
        for bb in sorted(b.reachable):
            t = b.term(bb)
            if t["k"] == "asm":
                bad.append((k, "inline asm"))
            if t["k"] == "call":
                p = M.callee_path(t) or ""
                if "::<impl *const T>::" in p or "::<impl *mut T>::" in p:
                    saw_add = True          # any raw-pointer method (add / cast / sub / ..): the census reads call paths
                if "get_unchecked" in p or p.endswith("unreachable_unchecked") or p.startswith("core::intrinsics::abort") or p == "core::intrinsics::unreachable":
                    bad.append((k, p))
                node = F.graph.get(M.callee_key(t) or "", {})
                if node.get("foreign"):
                    bad.append((k, "FFI " + p))
    ctx.check(not bad, "P8", "zero-census", "no inline asm, FFI call, abort, unreachable_unchecked or get_unchecked on the parse path", "",
              how="0 occurrences in %d instances" % len(cl), why=str(bad[:5]))
    ctx.check(saw_add, "P8", "positive-control", "the census sees the raw-pointer method calls of the parse path (`add` / `cast` / ..)", "", how="found", why="census is blind")
    muts = [s for s in F.statics if s.get("mut") or not s.get("freeze")]
    ctx.check(not muts, "P6", "statics", "no `static mut` and no interior-mutable static in the three crates", "", how="%d statics, none mutable" % len(F.statics), why=str(muts))
