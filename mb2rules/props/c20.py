"""C20 — type-identifier conversions are lossless and consistent for all 2^32 values.

Decided with CLASSIFY (exact interval tables over the full domain), TERMS (return
terms of the conversion / equality impls) and LAYOUT/consts.  See DESIGN.md §4 C20.
"""
from .. import classify as CL
from .. import guard as G
from .. import mir as M
from .. import spec as S
from .. import terms as T

U32 = ((0, 2**32 - 1),)


def site(inst):
    return inst.get("span", "?") if inst else "?"


def need(ctx, what, **kw):
    r = ctx.F().find(**kw)
    if len(r) != 1:
        ctx.fail("ANCHOR", what, "public API item `%s` exists exactly once" % what, "",
                 "%d candidates - the property talks about this API; fail closed" % len(r))
        return None
    return r[0]


def ret_term(ctx, inst):
    F = ctx.F()
    body = M.Body(inst)
    tb = T.TB(F, body)
    if len(body.return_blocks) != 1:
        return None, tb
    rb = body.return_blocks[0]
    return tb.read(0, (), (rb, len(body.stmts(rb)))), tb


def s(t):
    return G.strip(t)


def is_fld0(t, base):
    """t == base.0 (field 0 of a newtype)"""
    t = s(t)
    return t[0] == "fld" and t[2] == 0 and s(t[1]) == base


def is_wrap(t, inner_pred, adt_name):
    """t is the newtype `adt_name(inner)` either as aggregate or as a transmute of inner"""
    t = s(t)
    if t[0] == "aggr" and t[1][0] == "adt" and t[1][1].endswith("::" + adt_name) and len(t[2]) == 1:
        return inner_pred(t[2][0])
    if t[0] == "cast" and t[1] == "Transmute" and t[3].endswith("::" + adt_name):
        return inner_pred(t[2])
    return False


def table_check(ctx, rule, name, inst, oracle, enum_name, custom="Custom", domain=U32, input_term=None, other=None):
    """classifier u-int -> enum: named values per oracle, every other value -> custom(input) (or `other`)"""
    F = ctx.F()
    try:
        it, pieces, tb = CL.classify(F, inst, input_term=input_term, domain=domain)
    except CL.Unrecognised as e:
        # not a switch tree: a decision list over the argument, possibly through a constant lookup table
        try:
            if input_term is not None:
                raise CL.Unrecognised("explicit input term")
            it, pieces = CL.classify_by_exits(F, inst, domain)
        except CL.Unrecognised as e2:
            ctx.fail(rule, name + ":shape", "%s is a comparison-only classifier of its argument" % name, site(inst),
                     "UNRECOGNISED: %s; as a decision list: %s" % (e, e2))
            return None
    pieces = CL.expand_tables(F, inst, it, pieces)
    got = {}
    rest = ()
    ok = True
    for (iv, val, bb) in pieces:
        v = CL.variant_of(s(val))
        if v is None:
            ctx.fail(rule, name + ":outcome", "every arm of %s yields a variant of %s" % (name, enum_name),
                     site(inst), "arm for %s yields %s" % (CL.fmt(iv), G.show(val)))
            ok = False
            continue
        _, adt, vname, payload = v
        if payload:
            # payload variant: must carry the input unchanged
            if other is None and vname == custom and len(payload) == 1 and s(payload[0]) == it:
                rest = CL.union(rest, iv)
            else:
                ctx.fail(rule, name + ":payload", "only `%s(input)` carries a payload" % custom, site(inst),
                         "%s -> %s" % (CL.fmt(iv), G.show(val)))
                ok = False
        else:
            got[vname] = CL.union(got.get(vname, ()), iv)
    # compare with oracle
    exp = {}
    for num, vn in oracle.items():
        exp[vn] = CL.union(exp.get(vn, ()), ((num, num),))
    if isinstance(other, tuple):  # ranges: list of ((lo,hi), name), default name
        ranges, default = other
        named = ()
        for (lo, hi), vn in ranges:
            exp[vn] = CL.union(exp.get(vn, ()), ((lo, hi),))
        for vn in exp:
            named = CL.union(named, exp[vn])
        exp[default] = CL.union(exp.get(default, ()), CL.minus(domain, named))
        exp_rest = ()
    else:
        named = ()
        for vn in exp:
            named = CL.union(named, exp[vn])
        exp_rest = CL.minus(domain, named)
    for vn, iv in sorted(exp.items()):
        g = got.get(vn, ())
        ctx.check(g == iv, rule, "%s:%s" % (name, vn),
                  "%s maps exactly {%s} to `%s`" % (name, CL.fmt(iv), vn), site(inst),
                  how="interval table piece %s" % CL.fmt(g), why="table has {%s} -> %s" % (CL.fmt(g), vn))
    for vn in sorted(set(got) - set(exp)):
        ctx.fail(rule, "%s:%s" % (name, vn), "no value maps to undocumented `%s`" % vn, site(inst),
                 "{%s} -> %s" % (CL.fmt(got[vn]), vn))
    if other is None:
        ctx.check(rest == exp_rest, rule, "%s:%s" % (name, custom),
                  "%s maps every other value v to `%s(v)` (|rest| = %d)" % (name, custom, CL.size(exp_rest)),
                  site(inst), how="rest piece {%s} carries the input term %s" % (CL.fmt(rest), G.show(it)),
                  why="rest piece is {%s}, expected {%s}" % (CL.fmt(rest), CL.fmt(exp_rest)))
    return got, rest


def inverse_check(ctx, rule, name, inst, oracle, enum_adt, custom="Custom"):
    """enum -> u-int: variant named n -> its number, custom(v) -> v.  Returns {variant name: outcome}"""
    F = ctx.F()
    adt = F.adts.get(enum_adt)
    if adt is None:
        ctx.fail("ANCHOR", enum_adt, "enum %s exists" % enum_adt, "", "missing")
        return None
    variants = adt["variants"]
    dom = ((0, len(variants) - 1),)
    try:
        it, pieces, tb = CL.classify(F, inst, domain=dom)
    except CL.Unrecognised as e:
        ctx.fail(rule, name + ":shape", "%s is a match on the variant of its argument" % name, site(inst),
                 "UNRECOGNISED: %s" % e)
        return None
    if it[0] != "discr":
        ctx.fail(rule, name + ":shape", "%s switches on the discriminant of its argument" % name, site(inst),
                 "switches on %s" % G.show(it))
        return None
    inv = {v: k for k, v in oracle.items()}
    out = {}
    for (iv, val, bb) in pieces:
        for (lo, hi) in iv:
            for idx in range(lo, hi + 1):
                out[variants[idx]["name"]] = (s(val), idx)
    subject = s(it[1])
    for v in variants:
        vn = v["name"]
        if vn not in out:
            ctx.fail(rule, "%s:%s" % (name, vn), "%s handles variant %s" % (name, vn), site(inst), "no arm")
            continue
        val, idx = out[vn]
        if vn == custom:
            good = val[0] == "fld" and val[2] == 0 and val[1][0] == "dc" and val[1][2] == idx and s(val[1][1]) == subject
            ctx.check(good, rule, "%s:%s" % (name, vn), "%s maps `%s(v)` to v" % (name, custom), site(inst),
                      how="arm returns the payload field of the matched value", why="arm returns %s" % G.show(val))
        else:
            want = inv.get(vn)
            ctx.check(val == ("c", want), rule, "%s:%s" % (name, vn),
                      "%s maps `%s` to %s" % (name, vn, want), site(inst),
                      how="constant arm", why="arm returns %s" % G.show(val))
    return out


def run(ctx):
    F = ctx.F()
    TT = "multiboot2::tag_type::TagType"
    TID = "multiboot2::tag_type::TagTypeId"
    # ------------------------------------------------------------ constants
    for (path, want, what) in (("multiboot2::MAGIC", S.BOOT_MAGIC, "boot-loader handoff magic"),
                               ("multiboot2_header::header::MAGIC", S.HEADER_MAGIC, "header magic")):
        c = F.consts.get(path)
        if c is None:
            ctx.fail("CONST", path, "constant %s exists" % path, "", "missing anchor")
        else:
            ctx.check(c.get("v") == want and c.get("eff_pub"), "CONST", path,
                      "%s (%s) == %#x and is exported" % (path, what, want), c.get("span", ""),
                      how="const-evaluated value %#x" % (c.get("v") or 0),
                      why="value is %r, exported=%r" % (c.get("v"), c.get("eff_pub")), nontrivial=True)
    # ------------------------------------------------------------ TagType <-> u32
    t1 = need(ctx, "From<u32> for TagType", impl_trait_ref="core::convert::From<u32>", impl_self=TT, name="from")
    t2 = need(ctx, "From<TagType> for u32", impl_trait_ref="core::convert::From<%s>" % TT, impl_self="u32", name="from")
    fwd = inv = None
    if t1:
        fwd_fn = t1
        p1 = [k_ for k_, (a_, _m) in T.call_aliases(F).items() if a_ == t1["key"]]
        if len(p1) == 1 and p1[0] in F.insts:
            fwd_fn = F.insts[p1[0]]      # `TagType::from(u32)` forwards to a helper that holds the table
        fwd = table_check(ctx, "CLASSIFY", "u32->TagType", fwd_fn, S.MBI_TAG_TYPES, "TagType")
    table_fn = t2
    partners = [k_ for k_, (a_, _m) in T.call_aliases(F).items() if t2 and a_ == t2["key"]]
    if t2 and len(partners) == 1 and partners[0] in F.insts:
        # `u32::from(TagType)` forwards to another function (`TagType::val`, a private `to_raw`, ..) that holds the table
        table_fn = F.insts[partners[0]]
    if t2:
        inv = inverse_check(ctx, "CLASSIFY", "TagType->u32", table_fn, S.MBI_TAG_TYPES, TT)
    if fwd and inv:
        got, rest = fwd
        # round trip u32 -> TagType -> u32 by pieces
        bad = []
        for vn, iv in got.items():
            val = inv.get(vn, (None, None))[0]
            if not (len(iv) == 1 and iv[0][0] == iv[0][1] and val == ("c", iv[0][0])):
                bad.append(vn)
        c = inv.get("Custom", (None, None))[0]
        ctx.check(not bad and c is not None and c[0] == "fld", "COMPOSE", "u32->TagType->u32",
                  "for all 2^32 values v: u32::from(TagType::from(v)) == v (22 singleton pieces + rest of %d values)" % CL.size(rest),
                  site(t2), how="composition of the two interval tables is the identity on every piece",
                  why="pieces breaking the round trip: %s" % bad)
    # ------------------------------------------------------------ TagTypeId
    id1 = need(ctx, "From<u32> for TagTypeId", impl_trait_ref="core::convert::From<u32>", impl_self=TID, name="from")
    id2 = need(ctx, "From<TagTypeId> for u32", impl_trait_ref="core::convert::From<%s>" % TID, impl_self="u32", name="from")
    id3 = need(ctx, "From<TagTypeId> for TagType", impl_trait_ref="core::convert::From<%s>" % TID, impl_self=TT, name="from")
    id4 = need(ctx, "From<TagType> for TagTypeId", impl_trait_ref="core::convert::From<%s>" % TT, impl_self=TID, name="from")
    lay = F.adts.get(TID)
    if lay is None:
        ctx.fail("ANCHOR", TID, "type TagTypeId exists", "", "missing")
    else:
        good = (lay["size"] == 4 and lay["align"] == 4 and lay["niche"] is None and len(lay["fields"]) == 1
                and lay["fields"][0]["ty"] == "u32" and lay["fields"][0]["off"] == 0
                and ("transparent" in lay["repr"] or "C" in lay["repr"]))
        ctx.check(good, "LAYOUT", "TagTypeId", "TagTypeId is a 4-byte, niche-free, repr(transparent|C) wrapper of one u32 at offset 0",
                  lay.get("span", ""), how="layout: size 4, align 4, field0 u32@0, repr %s" % lay["repr"],
                  why="layout %s" % {k: lay[k] for k in ("size", "align", "niche", "repr")})
    a1 = ("arg", 1, "u32")
    if id1:
        rt, _ = ret_term(ctx, id1)
        ctx.check(rt is not None and is_wrap(rt, lambda x: s(x) == a1, "TagTypeId"), "TERMS", "u32->TagTypeId",
                  "TagTypeId::from(v) is the wrapper of v itself (transmute/constructor of the argument)", site(id1),
                  how="return term %s" % G.show(rt), why="return term %s" % G.show(rt))
    if id2:
        rt, _ = ret_term(ctx, id2)
        ctx.check(rt is not None and is_fld0(rt, ("arg", 1, TID)), "TERMS", "TagTypeId->u32",
                  "u32::from(id) reads field 0 of the wrapper", site(id2), how="return term %s" % G.show(rt),
                  why="return term %s" % G.show(rt))
    if id3 and t1:
        rt, _ = ret_term(ctx, id3)
        good = rt is not None and rt[0] == "call" and rt[1] == t1["key"] and len(rt[2]) == 1 and is_fld0(rt[2][0], ("arg", 1, TID))
        ctx.check(good, "TERMS", "TagTypeId->TagType",
                  "TagType::from(id) == TagType::from(id.0)  (commutes with the direct conversion)", site(id3),
                  how="return term %s" % G.show(rt), why="return term %s" % G.show(rt))
    if id4 and t2:
        rt, _ = ret_term(ctx, id4)
        good = rt is not None and is_wrap(rt, lambda x: s(x)[0] == "call" and s(x)[1] == t2["key"] and s(x)[2] == (("arg", 1, TT),), "TagTypeId")
        ctx.check(good, "TERMS", "TagType->TagTypeId",
                  "TagTypeId::from(t) wraps u32::from(t)  (commutes with the direct conversion)", site(id4),
                  how="return term %s" % G.show(rt), why="return term %s" % G.show(rt))
    val = need(ctx, "TagType::val", impl_self=TT, name="val", impl_trait=None)
    if val and t2 and val["key"] in T.call_aliases(F):
        ctx.ok("TERMS", "TagType::val", "TagType::val() == u32::from(*self): here `u32::from` is the one that forwards (its body is the single call "
               "`value.val()`), and val() holds the table checked as TagType->u32", site(t2), how="forwarding body, no branch")
    elif val and t2 and partners:
        # both forward to the same table function: val()'s value is a call of the partner on *self, written as u32::from(*self)
        rt, _ = ret_term(ctx, val)
        good = rt is not None and s(rt)[0] == "call" and s(rt)[1] == t2["key"] and s(rt)[2] in ((("deref", ("arg", 1, "&" + TT)),), (("deref", ("arg", 1)),))
        ctx.check(good, "TERMS", "TagType::val", "TagType::val() == u32::from(*self) (both forward to the same table function)", site(val),
                  how="return term %s" % G.show(rt), why="return term %s" % G.show(rt))
    elif val and t2:
        rt, _ = ret_term(ctx, val)
        good = rt is not None and s(rt)[0] == "call" and s(rt)[1] == t2["key"] and s(rt)[2] == (("deref", ("arg", 1, "&" + TT)),)
        ctx.check(good, "TERMS", "TagType::val", "TagType::val() == u32::from(*self)", site(val),
                  how="return term %s" % G.show(rt), why="return term %s" % G.show(rt))
    # ------------------------------------------------------------ cross-type equality == numeric equality
    if t2:
        def img(ty, i):
            a = ("deref", ("arg", i, "&" + ty))
            if ty == TT:
                return [("call", t2["key"], (a,), None)]
            if ty == TID:
                return [("fld", a, 0, "0", "u32"), ("fld", a, 0, None, "u32")]
            return [a]
        n_eq = 0
        for (lhs, rhs) in ((TT, TID), (TID, TT), (TID, "u32"), ("u32", TID), (TT, "u32"), ("u32", TT)):
            nm = "PartialEq<%s> for %s" % (rhs.split("::")[-1], lhs.split("::")[-1])
            e = need(ctx, nm, impl_trait_ref="core::cmp::PartialEq<%s>" % rhs, impl_self=lhs, name="eq")
            if not e:
                continue
            n_eq += 1
            rt, _ = ret_term(ctx, e)
            good = False
            if rt is not None and rt[0] == "bin" and rt[1] == "Eq":
                A, B = normfld(s(rt[2])), normfld(s(rt[3]))
                i1 = [normfld(x) for x in img(lhs, 1)]
                i2 = [normfld(x) for x in img(rhs, 2)]
                good = (A in i1 and B in i2) or (A in i2 and B in i1)
            ctx.check(good, "TERMS", "eq:" + nm,
                      "`%s == %s` is numeric equality of the two u32 images" % (lhs.split("::")[-1], rhs.split("::")[-1]),
                      site(e), how="return term %s" % G.show(rt), why="return term %s" % G.show(rt))
        ctx.floor("TERMS", "cross-type PartialEq impls", n_eq, 6)
    # ------------------------------------------------------------ memory area types
    MT = "multiboot2::memory_map::MemoryAreaType"
    MID = "multiboot2::memory_map::MemoryAreaTypeId"
    m1 = need(ctx, "From<MemoryAreaTypeId> for MemoryAreaType", impl_trait_ref="core::convert::From<%s>" % MID, impl_self=MT, name="from")
    m2 = need(ctx, "From<MemoryAreaType> for MemoryAreaTypeId", impl_trait_ref="core::convert::From<%s>" % MT, impl_self=MID, name="from")
    m3 = need(ctx, "From<u32> for MemoryAreaTypeId", impl_trait_ref="core::convert::From<u32>", impl_self=MID, name="from")
    m4 = need(ctx, "From<MemoryAreaTypeId> for u32", impl_trait_ref="core::convert::From<%s>" % MID, impl_self="u32", name="from")
    lay = F.adts.get(MID)
    if lay is None:
        ctx.fail("ANCHOR", "MemoryAreaTypeId", "the type MemoryAreaTypeId exists", "", "missing")
    if lay is not None:
        good = (lay["size"] == 4 and lay["niche"] is None and len(lay["fields"]) == 1 and lay["fields"][0]["ty"] == "u32"
                and lay["fields"][0]["off"] == 0)
        ctx.check(good, "LAYOUT", "MemoryAreaTypeId", "MemoryAreaTypeId is a 4-byte niche-free wrapper of one u32",
                  lay.get("span", ""), how="size 4, field0 u32@0", why=str(lay.get("fields")))
    if m3:
        rt, _ = ret_term(ctx, m3)
        ctx.check(rt is not None and is_wrap(rt, lambda x: s(x) == a1, "MemoryAreaTypeId"), "TERMS", "u32->MemoryAreaTypeId",
                  "MemoryAreaTypeId::from(v) wraps v", site(m3), how=G.show(rt), why=G.show(rt))
    if m4:
        rt, _ = ret_term(ctx, m4)
        ctx.check(rt is not None and is_fld0(rt, ("arg", 1, MID)), "TERMS", "MemoryAreaTypeId->u32",
                  "u32::from(id) reads field 0", site(m4), how=G.show(rt), why=G.show(rt))
    mf = None
    if m1:
        mf = table_check(ctx, "CLASSIFY", "MemoryAreaTypeId->MemoryAreaType", m1, S.MEMORY_AREA_TYPES, "MemoryAreaType")
        # the classified input must be field 0 of the argument
        try:
            it, _, _ = CL.classify(F, m1, domain=U32)
            ctx.check(is_fld0(it, ("arg", 1, MID)), "CLASSIFY", "MemoryAreaTypeId->MemoryAreaType:input",
                      "the classified value is the id's u32", site(m1), how=G.show(it), why=G.show(it))
        except CL.Unrecognised:
            pass
    if m2:
        # body: match -> integer, then integer.into(): classify over the discriminant, outcome = wrapper(const)
        adt = F.adts.get(MT)
        body = M.Body(m2)
        tb = T.TB(F, body)
        ok2 = True
        try:
            it, pieces, tb = CL.classify(F, m2, domain=((0, len(adt["variants"]) - 1),))
        except CL.Unrecognised as e:
            # the match assigns a temporary, not the return place: classify the temporary's definitions
            it, pieces = None, None
        rt, tb = ret_term(ctx, m2)
        # return term is wrap(phi) - resolve phi's definitions through reaching defs
        inv = {v: k for k, v in S.MEMORY_AREA_TYPES.items()}
        res = mem_type_to_id(ctx, F, m2, adt, inv, MID)
        ok2 = res
    if mf and m2:
        pass
    for (lhs, rhs) in ((MID, MT), (MT, MID)):
        nm = "PartialEq<%s> for %s" % (rhs.split("::")[-1], lhs.split("::")[-1])
        e = need(ctx, nm, impl_trait_ref="core::cmp::PartialEq<%s>" % rhs, impl_self=lhs, name="eq")
        if not e or not m2:
            continue
        rt, _ = ret_term(ctx, e)
        good = False
        how = G.show(rt)
        # accepted shape: <u32 as PartialEq>::eq(&id.0, &wrap(other).0) or bin Eq of the same
        ops = None
        if rt is not None and rt[0] == "bin" and rt[1] == "Eq":
            ops = (s(rt[2]), s(rt[3]))
        elif rt is not None and rt[0] == "call" and "PartialEq" in str(rt[1]) and len(rt[2]) == 2:
            ops = tuple(deref_of(s(x)) for x in rt[2])
        if ops:
            iid = 1 if lhs == MID else 2
            ity = 2 if lhs == MID else 1
            idimg = normfld(("fld", ("deref", ("arg", iid, "&" + MID)), 0, None, "u32"))
            tyimg = ("call", m2["key"], (("deref", ("arg", ity, "&" + MT)),), None)
            o = [normfld(x) for x in ops]
            tyimgs = [normfld(("fld", tyimg, 0, None, "u32"))]
            good = (o[0] == idimg and o[1] in tyimgs) or (o[1] == idimg and o[0] in tyimgs)
        if not good and rt is not None and rt[0] == "call" and len(rt[2]) == 2:
            # delegation to the mirrored impl with the operands swapped (that impl is checked by this same rule)
            mirror = need(ctx, "mirror of " + nm, impl_trait_ref="core::cmp::PartialEq<%s>" % lhs, impl_self=rhs, name="eq")
            if mirror and rt[1] == mirror["key"] and tuple(s(x) for x in rt[2]) in ((("arg", 2, "&" + rhs), ("arg", 1, "&" + lhs)), (("arg", 2), ("arg", 1))):
                good = True
                how = "delegates to `%s == %s` with the operands swapped" % (rhs.split("::")[-1], lhs.split("::")[-1])
        if not good:
            # the numeric image written out in place (a `match` on the type, or an inlined helper): the same table as
            # MemoryAreaTypeId::from(type), compared with id.0 in every arm
            try:
                adt_ = F.adts.get(MT)
                inv_ = {v: k for k, v in S.MEMORY_AREA_TYPES.items()}
                iid = 1 if lhs == MID else 2
                ity = 2 if lhs == MID else 1
                it_, pcs_, _tb = CL.classify(F, e, domain=((0, len(adt_["variants"]) - 1),))
                subject = s(it_[1]) if it_[0] == "discr" else None
                idimg = normfld(("fld", ("deref", ("arg", iid, "&" + MID)), 0, None, "u32"))
                okp = subject is not None and normfld(subject) == normfld(("deref", ("arg", ity, "&" + MT)))
                seen_ = set()
                for (iv, val, bb) in pcs_:
                    v_ = s(val)
                    if not (v_[0] == "bin" and v_[1] == "Eq"):
                        okp = False
                        break
                    sides = [s(v_[2]), s(v_[3])]
                    other = [x for x in sides if normfld(x) != idimg]
                    if len(other) != 1:
                        okp = False
                        break
                    o_ = other[0]
                    for (lo, hi) in iv:
                        for idx in range(lo, hi + 1):
                            vn = adt_["variants"][idx]["name"]
                            seen_.add(vn)
                            if vn == "Custom":
                                okp = okp and o_[0] == "fld" and o_[2] == 0 and o_[1][0] == "dc" and o_[1][2] == idx and normfld(s(o_[1][1])) == normfld(subject)
                            else:
                                okp = okp and o_ == ("c", inv_.get(vn))
                if okp and len(seen_) == len(adt_["variants"]):
                    good = True
                    how = "per variant: id.0 == the variant's number (the table of MemoryAreaTypeId::from), Custom(v): id.0 == v"
            except CL.Unrecognised as ex:
                how = "%s; per-variant classification: %s" % (how, ex)
        ctx.check(good, "TERMS", "eq:" + nm, "`%s == %s` compares id.0 with MemoryAreaTypeId::from(type).0" %
                  (lhs.split("::")[-1], rhs.split("::")[-1]), site(e), how=how, why=how)
    # ------------------------------------------------------------ ELF section types
    st = need(ctx, "ElfSection::section_type", impl_self_name="ElfSection", name="section_type", impl_trait=None)
    raw = need(ctx, "ElfSection::section_type_raw", impl_self_name="ElfSection", name="section_type_raw", impl_trait=None)
    if st:
        r = table_check(ctx, "CLASSIFY", "section_type", st, S.ELF_SECTION_TYPES, "ElfSectionType", domain=U32,
                        other=(S.ELF_SECTION_RANGES, S.ELF_SECTION_OTHER))
        if raw:
            rt, _ = ret_term(ctx, raw)
            try:
                it, _, _ = CL.classify(F, st, domain=U32)
                same = rt is not None and callshape(it) == callshape(s(rt))
                if not same and rt is not None:
                    # section_type() may read the raw value by calling section_type_raw(self) instead of repeating its body
                    ci = callshape(s(it))
                    same = ci[0] == "call" and ci[1] == raw["key"] and ci[2] in ((("arg", 1),), (s(("arg", 1, raw["body"]["locals"][1]["ty"])),)) or \
                        (ci[0] == "call" and ci[1] == raw["key"] and len(ci[2]) == 1 and G.N(ci[2][0]) == ("arg", 1))
                ctx.check(same, "TERMS", "section_type:input",
                          "section_type() classifies the same raw value that section_type_raw() returns", site(st),
                          how="both are %s" % G.show(it), why="%s vs %s" % (G.show(it), G.show(rt)))
            except CL.Unrecognised:
                pass
    # enum discriminants of ElfSectionType as documented
    est = F.adts.get("multiboot2::elf_sections::ElfSectionType")
    if not est:
        ctx.fail("ANCHOR", "ElfSectionType", "the enum ElfSectionType exists", "", "missing")
    if est:
        want = dict((v, k) for k, v in S.ELF_SECTION_TYPES.items())
        want["EnvironmentSpecific"] = 0x6000_0000
        want["ProcessorSpecific"] = 0x7000_0000
        got = {v["name"]: v["discr"] for v in est["variants"]}
        ctx.check(got == want, "LAYOUT", "ElfSectionType:discriminants", "ElfSectionType discriminants equal the SHT_* values",
                  est.get("span", ""), how="%d variants" % len(got), why="diff: %s" % sorted(set(got.items()) ^ set(want.items())))
    # ------------------------------------------------------------ framebuffer type byte
    fb = need(ctx, "TryFrom<u8> for FramebufferTypeId", impl_trait_ref="core::convert::TryFrom<u8>",
              impl_self_name="FramebufferTypeId", name="try_from")
    if fb:
        fb_table(ctx, fb)
    fbt = F.adts.get("multiboot2::framebuffer::FramebufferTypeId")
    if not fbt:
        ctx.fail("ANCHOR", "FramebufferTypeId", "the enum FramebufferTypeId exists", "", "missing")
    if fbt:
        got = {v["discr"]: v["name"] for v in fbt["variants"]}
        ctx.check(got == S.FRAMEBUFFER_TYPES, "LAYOUT", "FramebufferTypeId:discriminants",
                  "FramebufferTypeId discriminants equal the specified type bytes", fbt.get("span", ""),
                  how=str(got), why=str(got))
    ctx.assumptions.append("variant names of the public enums are the API names of the specified numbers (spec.py API table)")
    return ctx.finish(
        "proof" if not any(o.status == "fail" for o in ctx.obs) else "other",
        "Exact interval tables (abstract interpretation over the single classified integer, domain = finite unions of "
        "intervals) of every conversion function, compared piecewise with the specification tables over the whole "
        "2^32 / 2^8 domain; return terms of the wrapper conversions and of the six cross-type PartialEq impls; layouts "
        "and constants from the compiler. Complete for the statement: the classifiers touch their input only through "
        "comparisons with constants, for which the partition is exact.",
        ["rustc MIR construction and layout/const evaluation", "mb2facts extractor", "mb2rules CLASSIFY/TERMS",
         "spec.py oracle tables (hand-written from multiboot2.h / ELF gABI)"],
        "one obligation per (function, table row): the set of inputs reaching each arm equals the oracle's set",
    )


def deref_of(t):
    """x for &x terms"""
    if t[0] == "ref":
        return s(t[1])
    return ("deref", t)


def normfld(t):
    """drop field names (positional identity only) recursively"""
    if not isinstance(t, tuple):
        return t
    t = s(t)
    if t and t[0] == "fld":
        return ("fld", normfld(t[1]), t[2])
    return tuple(normfld(x) if isinstance(x, tuple) else x for x in t)


def callshape(t):
    """call term without site tag (virtual calls are tagged with their site)"""
    if isinstance(t, tuple) and t and t[0] == "call":
        return ("call", t[1], tuple(callshape(x) for x in t[2]))
    if isinstance(t, tuple):
        return tuple(callshape(x) if isinstance(x, tuple) else x for x in t)
    return t


def mem_type_to_id(ctx, F, inst, adt, inv, MID):
    """From<MemoryAreaType> for MemoryAreaTypeId: `match value {..} -> integer; integer.into()`.
    The match assigns a temporary; find it as the single multi-def local whose definitions are
    dominated by the discriminant switch, classify it, and check the return wraps it."""
    from .. import classify as CL
    body = M.Body(inst)
    tb = T.TB(F, body)
    name = "MemoryAreaType->MemoryAreaTypeId"
    rb = body.return_blocks
    rt = tb.read(0, (), (rb[0], len(body.stmts(rb[0])))) if len(rb) == 1 else ("opq", "several returns")
    variants = adt["variants"]
    dom = ((0, len(variants) - 1),)
    # form 1: wrap(phi local) - the match computes the integer, one wrapper at the end
    inner = []
    ok = is_wrap(rt, lambda x: inner.append(s(x)) or True, "MemoryAreaTypeId")
    if ok and inner and inner[0][0] == "opq" and inner[0][1] == "phi":
        L = inner[0][2]
        # reuse classify by temporarily treating local L as the return place
        pieces = classify_local(F, body, tb, L, dom)
        if pieces is None:
            return ctx.fail("CLASSIFY", name + ":shape", "%s is a match on the variant" % name, site(inst), "UNRECOGNISED")
        it, pcs = pieces
    else:
        # form 2: every arm builds the wrapper itself - classify the return place and unwrap each arm's value
        try:
            it, pcs0, _tb2 = CL.classify(F, inst, domain=dom)
        except CL.Unrecognised as e:
            return ctx.fail("CLASSIFY", name + ":shape", "%s returns the wrapper of the matched integer" % name, site(inst),
                            "return term %s; per-arm classification: %s" % (G.show(rt), e))
        pcs = []
        for (iv, val, bb) in pcs0:
            got = []
            if not is_wrap(val, lambda x: got.append(x) or True, "MemoryAreaTypeId") or not got:
                return ctx.fail("CLASSIFY", name + ":shape", "%s returns the wrapper of the matched integer in every arm" % name, site(inst),
                                "arm value %s" % G.show(val))
            pcs.append((iv, got[0], bb))
    subject = s(it[1]) if it[0] == "discr" else None
    good_all = True
    seen = set()
    for (iv, val, bb) in pcs:
        for (lo, hi) in iv:
            for idx in range(lo, hi + 1):
                vn = variants[idx]["name"]
                seen.add(vn)
                val_s = s(val)
                if vn == "Custom":
                    g = val_s[0] == "fld" and val_s[2] == 0 and val_s[1][0] == "dc" and val_s[1][2] == idx and s(val_s[1][1]) == subject
                    ctx.check(g, "CLASSIFY", "%s:%s" % (name, vn), "%s maps Custom(v) to v" % name, site(inst),
                              how="payload arm", why=G.show(val))
                else:
                    ctx.check(val_s == ("c", inv.get(vn)), "CLASSIFY", "%s:%s" % (name, vn),
                              "%s maps `%s` to %s" % (name, vn, inv.get(vn)), site(inst), how="constant arm", why=G.show(val))
    missing = [v["name"] for v in variants if v["name"] not in seen]
    ctx.check(not missing, "CLASSIFY", name + ":total", "%s handles every variant" % name, site(inst),
              how="%d variants" % len(variants), why="missing %s" % missing)
    return True


def classify_local(F, body, tb, L, dom, total=True):
    """interval table for the definitions of local L (same engine as classify, other target place)"""
    from .. import classify as CL
    # find input = first switch discriminant
    it = None
    for b in body.rpo:
        t = body.term(b)
        if t["k"] == "switch":
            it = G.strip(tb.operand(t["d"], (b, len(body.stmts(b)))))
            break
    if it is None:
        return None
    state = {0: dom}
    for b in body.rpo:
        cur = state.get(b)
        if cur is None:
            continue
        t = body.term(b)
        if t["k"] == "switch" and G.strip(tb.operand(t["d"], (b, len(body.stmts(b))))) == it:
            taken = ()
            for v, tg in zip(t["vals"], t["ts"]):
                sset = CL.inter(cur, ((v, v),))
                taken = CL.union(taken, ((v, v),))
                if sset:
                    state[tg] = CL.union(state.get(tg, ()), sset)
            rest = CL.minus(cur, taken)
            if rest:
                state[t["otherwise"]] = CL.union(state.get(t["otherwise"], ()), rest)
        else:
            for (tg, _) in body.succ[b]:
                state[tg] = CL.union(state.get(tg, ()), cur)
    pcs = []
    for site_ in tb.defs.get(L, []):
        kind, b, i, proj = site_
        if b not in state or kind != "stmt" or proj:
            return None
        st = body.stmts(b)[i]
        pcs.append((state[b], tb.rvalue(st["rv"], (b, i), st), b))
    cov = ()
    for (sset, _, _) in pcs:
        if CL.inter(cov, sset):
            return None
        cov = CL.union(cov, sset)
    if total and CL.minus(dom, cov):
        return None
    return it, pcs


def fb_search_form(ctx, F, inst):
    """try_from written as a search: `[V1, V2, ..].into_iter().find(|v| *v as u8 == value).ok_or(Err(value))`.  Std contract of
    find over an array iterator: the first element, in order, whose predicate holds.  With the predicate `discriminant as u8 ==
    value` that is the table {discriminant(Vk) -> Vk} (first occurrence wins), everything else -> the error.  Returns
    (input term, pieces) in the classifier's format, or None if the function is not of this form."""
    from .. import an, chain as CH, select as SEL
    from ..guard import N, arg
    A = an.of(F, inst)
    ex = CH.exits(A)
    if len(ex) != 2:
        return None
    finds = [(bb, t) for bb, t in A.body.calls() if "Iterator>::find" in (M.callee_key(t) or "") or (M.callee_path(t) or "").endswith("Iterator::find")]
    if len(finds) != 1:
        return None
    FD = N(A.tb.call_value(finds[0][1], finds[0][0]))
    if FD[0] != "call" or len(FD[2]) != 2:
        return None
    it_, clo = FD[2]
    it_ = it_[1] if it_[0] == "ref" else it_
    while it_[0] == "call" and len(it_[2]) == 1 and "into_iter" in str(it_[1]):
        it_ = it_[2][0]
    if not (it_[0] == "aggr" and it_[1] == ("array",)):
        return None
    elems = [CL.variant_of(e) for e in it_[2]]
    if not all(e and not e[3] for e in elems):
        return None
    cf = SEL.closure_fn(F, clo, inst)
    if cf is None:
        return None
    rt, _ = an.of(F, cf).ret()
    if rt is None:
        return None
    r = SEL._bind_captures(N(rt), clo)
    # *v as u8 == value
    ok_pred = False
    inp = None
    if r[0] == "bin" and r[1] == "Eq":
        for (x, y) in ((r[2], r[3]), (r[3], r[2])):
            xs = x
            if xs[0] == "cast" and xs[1] == "IntToInt" and xs[3] == "u8":
                xs = xs[2]
            if xs[0] == "discr" and SEL.unref(xs[1]) in (arg(2), ("deref", arg(2)), ("deref", ("deref", arg(2)))) and SEL.unref(y) in (arg(1), ("deref", arg(1))):
                ok_pred = True
    if not ok_pred:
        return None
    errs = [e for e in ex if e.kind == "Err"]
    oks = [e for e in ex if e.kind == "Ok"]
    if len(errs) != 1 or len(oks) != 1 or not CH.own_is_variant(errs[0], FD, 0) or not CH.own_is_variant(oks[0], FD, 1):
        return None
    if N(oks[0].payload) != CH.payload_of(FD, 1):
        return None
    adt = F.adts.get(elems[0][1]) or {}
    discr = {v["name"]: v.get("discr") for v in adt.get("variants", [])}
    raw_in = ("arg", 1, "u8")
    pieces = []
    taken = ()
    for e in elems:
        d = discr.get(e[2])
        if d is None or not (0 <= d <= 255):
            return None
        iv = CL.minus(((d, d),), taken)
        taken = CL.union(taken, ((d, d),))
        if iv:
            pieces.append((iv, ("aggr", ("adt", "core::result::Result", "Ok", ("0",)), (("aggr", ("adt", e[1], e[2], ()), ()),)), oks[0].bb))
    pieces.append((CL.minus(((0, 255),), taken), errs[0].val, errs[0].bb))
    ctx.note("FramebufferTypeId::try_from is a first-match search over %s by discriminant: read as the table {discriminant -> variant}" % [e[2] for e in elems])
    return raw_in, pieces


def fb_table(ctx, inst):
    F = ctx.F()
    name = "u8->FramebufferTypeId"
    sf = fb_search_form(ctx, F, inst)
    if sf is not None:
        it, pieces = sf
    else:
        try:
            it, pieces, tb = CL.classify(F, inst, domain=((0, 255),))
        except CL.Unrecognised as e:
            try:
                it, pieces = CL.classify_by_exits(F, inst, ((0, 255),))
            except CL.Unrecognised as e2:
                return ctx.fail("CLASSIFY", name + ":shape", "try_from is a comparison-only classifier", site(inst), "UNRECOGNISED: %s; as a decision list: %s" % (e, e2))
    pieces = CL.expand_tables(F, inst, it, pieces)
    ctx.check(s(it) == ("arg", 1, "u8"), "CLASSIFY", name + ":input", "try_from classifies its u8 argument", site(inst),
              how=G.show(it), why=G.show(it))
    got, err = {}, ()
    for (iv, val, bb) in pieces:
        v = CL.variant_of(s(val))
        if v and v[2] == "Ok" and len(v[3]) == 1:
            inner = CL.variant_of(s(v[3][0]))
            if inner and not inner[3]:
                got[inner[2]] = CL.union(got.get(inner[2], ()), iv)
                continue
        if v and v[2] == "Err" and len(v[3]) == 1:
            inner = CL.variant_of(s(v[3][0]))
            if inner and len(inner[3]) == 1 and s(inner[3][0]) == s(it) and inner[1].endswith("UnknownFramebufferType"):
                err = CL.union(err, iv)
                continue
        ctx.fail("CLASSIFY", name + ":outcome", "every arm is Ok(known type) or Err(UnknownFramebufferType(input byte))",
                 site(inst), "{%s} -> %s" % (CL.fmt(iv), G.show(val)))
    for num, vn in S.FRAMEBUFFER_TYPES.items():
        ctx.check(got.get(vn, ()) == ((num, num),), "CLASSIFY", "%s:%s" % (name, vn),
                  "byte %d and only it is reported as %s" % (num, vn), site(inst), how="piece {%s}" % CL.fmt(got.get(vn, ())),
                  why="piece {%s}" % CL.fmt(got.get(vn, ())))
    extra = set(got) - set(S.FRAMEBUFFER_TYPES.values())
    ctx.check(not extra, "CLASSIFY", name + ":extra", "no other known type is produced", site(inst), how="none", why=str(extra))
    want_err = CL.minus(((0, 255),), tuple((n, n) for n in sorted(S.FRAMEBUFFER_TYPES)))
    ctx.check(err == want_err, "CLASSIFY", name + ":unknown",
              "all %d other bytes are reported as Err(UnknownFramebufferType(byte)) carrying that byte" % CL.size(want_err),
              site(inst), how="piece {%s}" % CL.fmt(err), why="piece {%s}" % CL.fmt(err))
