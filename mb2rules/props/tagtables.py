"""Shared by C04 / C11 / C07: layout rows, accessor read-sets and typed-getter tables against the oracle."""
from .. import an
from .. import guard as G
from .. import layout as L
from .. import readset as RS
from ..guard import N, arg, fld, deref, cn


def layout_row(ctx, F, crate, kind, row, hdr_fields, rule="G5"):
    a = L.adt(F, crate, row["ty"])
    name = row["ty"]
    if a is None:
        ctx.fail("ANCHOR", name, "type %s::%s exists (models the specified kind %s)" % (crate, name, kind), "", "missing or ambiguous")
        return None
    # header: first bytes
    ok = True
    problems = []
    for (fname, off, w) in list(hdr_fields) + list(row["fields"]):
        loc = locate(F, a, off, w)
        if loc is None:
            ok = False
            problems.append("%s@%d(%d)" % (fname, off, w))
    if row["var"] is None:
        # exact size: round8(fixed) must equal size_of (so that cast() accepts exactly tags of that size) and fields end at `fixed`
        sz = a.get("size")
        end = struct_end(F, a)
        good_sz = sz is not None and (row["fixed"] + 7) // 8 * 8 == (sz + 7) // 8 * 8 and end == row["fixed"]
        if not good_sz:
            ok = False
            problems.append("size_of %s, fields end at %s, specified size %d" % (sz, end, row["fixed"]))
    else:
        t = a.get("tail") or {}
        if t.get("off") != row["fixed"] or t.get("elem_size") != row["var"]:
            ok = False
            problems.append("tail %s, specified fixed part %d / element %s" % (t, row["fixed"], row["var"]))
    ctx.check(ok and "C" in a.get("repr", []), rule, "layout:" + name,
              "%s (kind %s): repr(C); every specified field sits at its specified offset with its width; %s" %
              (name, kind, "fields end at the specified size %d" % row["fixed"] if row["var"] is None else "variable part starts at %d" % row["fixed"]),
              a.get("span", ""), how="compiler layout matches %d field rows" % (len(hdr_fields) + len(row["fields"])),
              why="mismatch: %s (repr %s)" % (problems, a.get("repr")))
    return a


def struct_end(F, a):
    fs = [f for f in a.get("fields", []) if f.get("size") is not None]
    return max((f["off"] + f["size"]) for f in fs) if fs else 0


def locate(F, a, off, w, depth=0):
    """field path (names) of the leaf or aggregate exactly covering [off, off+w) in adt a"""
    for f in a.get("fields", []):
        fo, fs = f.get("off"), f.get("size")
        if fo is None:
            continue
        if fo == off and fs == w:
            return [f["name"]]
        if fs is not None and fo <= off and off + w <= fo + fs and depth < 4:
            sub = F.adts.get(f["ty"])
            if sub is not None:
                r = locate(F, sub, off - fo, w, depth + 1)
                if r is not None:
                    return [f["name"]] + r
    return None


def spec_field(row, hdr_fields, fname):
    if fname.startswith("hdr."):
        for (n, o, w) in hdr_fields:
            if n == fname[4:]:
                return (o, w)
        return None
    for (n, o, w) in row["fields"]:
        if n == fname:
            return (o, w)
    return None


def accessors(ctx, F, crate, a, table, row, hdr_fields, compound, rule="G6", common=None):
    """every public &self accessor of the type is either a plain read of its mapped specified field or a listed compound"""
    name = a["name"]
    tab = dict(table.get(name, {}))
    if common:
        tab.update(common)
    seen = set()
    n = 0
    for k, i in F.insts.items():
        if i.get("impl_self_path") != a["path"] or i.get("impl_trait") or i.get("closure") or not i.get("eff_pub"):
            continue
        if i["body"]["argc"] != 1:
            continue
        ty1 = i["body"]["locals"][1]["ty"]
        if not ty1.startswith("&") or ty1.startswith("&mut") or (F.ty(ty1) or {}).get("pointee") != a["path"]:
            continue   # only `&self` methods of the type itself (constructors taking one reference argument are C07's)
        meth = i["name"]
        seen.add(meth)
        if (name, meth) in compound:
            continue
        if meth not in tab:
            from .. import inline as INL_
            if INL_.is_helper(i):
                # a method that does not exist on the reference tree: an *addition* to the API.  The accessor table speaks about the
                # documented accessors; an added one is decided where it is self-evident - it is named after the field it returns
                # (plain read at that field's layout offset), or it returns the variable part itself (extent: C05) - and otherwise
                # recorded as not decided (its memory safety is still C01's / C09's census)
                r_ = RS.accessor_reads(F, i)
                path_ = locate(F, a, r_[0], r_[1]) if r_ is not None and r_[0] is not None and r_[1] is not None else None
                rt_, _f = an.of(F, i).ret()
                tail_ = (a.get("tail") or {}).get("field")
                rn_ = N(rt_) if rt_ is not None else None
                is_tail = tail_ is not None and rn_ is not None and rn_[0] == "ref" and rn_[1][0] == "fld" and rn_[1][1] == deref(arg(1)) and \
                    [f["name"] for f in a["fields"] if f["i"] == rn_[1][2]] == [tail_]
                if path_ is not None and path_[-1] == meth:
                    ctx.ok(rule, "%s::%s" % (name, meth), "added accessor %s::%s() returns the field it is named after (offset %d, %d bytes)" % (name, meth, r_[0], r_[1]),
                           i.get("span", ""), how="plain read of `%s`" % ".".join(path_))
                    n += 1
                elif is_tail:
                    ctx.ok(rule, "%s::%s" % (name, meth), "added accessor %s::%s() returns the variable part `%s` itself (its extent is C05's)" % (name, meth, tail_),
                           i.get("span", ""), how="&self.%s" % tail_)
                elif meth in [f["name"] for f in a["fields"]] and path_ is not None:
                    ctx.fail(rule, "%s::%s" % (name, meth), "added accessor %s::%s() returns the field it is named after" % (name, meth), i.get("span", ""),
                             "it is named after the field `%s` and returns `%s`" % (meth, ".".join(path_)))
                else:
                    ctx.note("added public method %s::%s() is not in the accessor table: not decided (no specified field to compare it with)" % (name, meth))
                    ctx.count("added public methods not decided", 1)
                continue
            ctx.fail(rule, "%s::%s" % (name, meth), "public accessor %s::%s() is mapped to a specified field (accessor table)" % (name, meth), i.get("span", ""),
                     "unmapped accessor: add it to the API table in spec.py with the field it must return")
            continue
        want = spec_field(row, hdr_fields, tab[meth])
        r = RS.accessor_reads(F, i)
        n += 1
        ok = r is not None and want is not None and r[0] == want[0] and r[1] == want[1]
        rt, _ = an.of(F, i).ret()
        ctx.check(ok, rule, "%s::%s" % (name, meth), "%s::%s() returns the %d bytes at offset %d (`%s`)" % (name, meth, want[1] if want else -1, want[0] if want else -1, tab[meth]),
                  i.get("span", ""), how="return term %s reads offset %s width %s" % (G.show(rt)[:60], r and r[0], r and r[1]),
                  why="return term %s reads %s" % (G.show(rt)[:120], r))
    for meth in tab:
        if meth not in seen:
            ctx.fail("ANCHOR", "%s::%s" % (name, meth), "documented accessor %s::%s exists" % (name, meth), a.get("span", ""), "missing")
    return n


def added_getter(ctx, F, owner_prefix, inst, rule):
    """a typed getter that does not exist on the reference tree (an API addition): decided when it is, like the documented ones,
    `get_tag::<T>()` unchanged for some tag type T (first tag with T::ID by the get_tag premises; T's ID and layout are the
    layout rows'); anything else is recorded as not decided.  Returns True when the method was handled here."""
    from .. import inline as INL_
    if not INL_.is_helper(inst):
        return False
    rt, _ = an.of(F, inst).ret()
    n = N(rt) if rt is not None else None
    if n is not None and n[0] == "call" and str(n[1]).startswith(owner_prefix + "get_tag::<") and n[2] == (arg(1),):
        ctx.ok(rule, "added:" + inst["name"], "added getter %s() returns %s unchanged" % (inst["name"], str(n[1])[len(owner_prefix):]), inst.get("span", ""),
               how=G.show(rt)[:120], nontrivial=False)
    else:
        ctx.note("added public method %s%s() is not in the getter table: not decided" % (owner_prefix, inst["name"]))
        ctx.count("added public methods not decided", 1)
    return True


def tag_id(F, ty_path):
    for im in F.impls:
        if im.get("self") == ty_path and im.get("trait", "").endswith("::tag::Tag"):
            for it in im["items"]:
                if it["name"] == "ID":
                    return it
    return None


def getter(ctx, F, owner_prefix, gname, kind, row, crate, num_of_variant, rule="G1"):
    """owner.gname() == get_tag::<T>() with T the type modelling `kind` and T::ID the variant whose number is the kind's"""
    inst = F.insts.get(owner_prefix + gname)
    if inst is None:
        ctx.fail("ANCHOR", gname, "typed getter %s exists" % gname, "", "missing")
        return None
    a = L.adt(F, crate, row["ty"])
    rt, _ = an.of(F, inst).ret()
    n = N(rt) if rt is not None else None
    ok = a is not None and n is not None and n[0] == "call" and n[1] == "%sget_tag::<%s>" % (owner_prefix, a["path"]) and n[2] == (arg(1),)
    idv = tag_id(F, a["path"]) if a else None
    id_ok = idv is not None and idv.get("variant") == kind and num_of_variant.get(kind) == row["num"]
    ctx.check(ok and id_ok, rule, gname, "%s() returns get_tag::<%s>() unchanged, and %s::ID is the variant `%s` (number %d)" % (gname, row["ty"], row["ty"], kind, row["num"]),
              inst.get("span", ""), how="return term %s; ID = %s" % (G.show(rt)[:80], idv and idv.get("variant")),
              why="return term %s; ID = %s" % (G.show(rt)[:160], idv and idv.get("val_s")))
    return inst


_T2_SFX = "<impl core::convert::From<multiboot2::tag_type::TagType> for u32>::from"
_T1_SFX = "<impl core::convert::From<u32> for multiboot2::tag_type::TagType>::from"


def conv_key(F, which):
    """instance key of `u32::from(TagType)` ('t2') / `TagType::from(u32)` ('t1'), found by what it implements - the module
    the impl lives in is not part of its identity"""
    sfx = _T2_SFX if which == "t2" else _T1_SFX
    ks = [k for k in F.insts if k.endswith(sfx) and k.startswith("multiboot2::tag_type::")]
    return ks[0] if len(ks) == 1 else "multiboot2::tag_type::primitive_conversion_impls::" + sfx


def flag_constants(ctx, F, table, rule, what):
    """the named bit constants of the flag types (associated constants generated by `bitflags!`, evaluated by the compiler) equal the
    specified bit values: a flag accessor's answer is read through these names"""
    n = 0
    for (ty, name), want in sorted(table.items()):
        ks = [k for k in F.consts if k.endswith("::%s::%s" % (ty, name)) and k.split("::", 1)[0] == "multiboot2"]
        if len(ks) != 1:
            ctx.fail("ANCHOR", "%s::%s" % (ty, name), "the documented flag constant %s::%s exists" % (ty, name), "", "%d found" % len(ks))
            continue
        c = F.consts[ks[0]]
        v = c.get("v")
        if v is None:
            fs = c.get("fields") or []
            v = fs[0].get("v") if fs else None
        n += 1
        ctx.check(v == want, rule, "%s::%s" % (ty, name), "%s::%s == %#x (%s)" % (ty, name, want, what), c.get("span", ""),
                  how="compiler-evaluated %s" % c.get("val_s", "")[-40:], why="evaluates to %s" % v, nontrivial=False)
    return n
