"""C10 — header loading accepts exactly magic- and checksum-valid headers.

A1  PANIC(Multiboot2Header::load) = {} and PANIC(calc_checksum) = {}
A2  CHAIN(load): null, memory errors (C14 chain over the slice of the raw declared length),
    header_magic != 0xE85250D6 -> MagicNotFound, !verify_checksum -> ChecksumMismatch, Ok
K   KERNEL: calc_checksum(m, a, l) normalises to -m - a - l (mod 2^32); verify_checksum compares
    calc(stored m, a, l) with the stored checksum; set_size stores length and recomputed checksum
"""
from .. import an
from .. import chain as CH
from .. import guard as G
from .. import kernel as K
from .. import spec as S
from ..guard import N, fld, deref, arg
from . import c02

MH = "multiboot2_header::header::Multiboot2Header::<'_>::"
BH = "multiboot2_header::header::Multiboot2BasicHeader"
LE = "multiboot2_header::header::LoadError"


def checksum_law(ctx, F):
    inst = F.insts.get(BH + "::calc_checksum")
    if inst is None:
        return ctx.fail("ANCHOR", "calc_checksum", "Multiboot2BasicHeader::calc_checksum exists", "", "missing")
    A = an.of(F, inst)
    rt, _ = A.ret()
    ok = False
    how = G.show(rt)
    if rt is not None:
        r = K.ring(rt, 32)
        if r is not None:
            M = 1 << 32
            m, a, l = ("arg", 1, "u32"), ("discr", ("arg", 2, "multiboot2_header::tags::HeaderTagISA")), ("arg", 3, "u32")
            a2 = ("cast", "IntToInt", ("arg", 2, "multiboot2_header::tags::HeaderTagISA"), "u32", "multiboot2_header::tags::HeaderTagISA")
            got = {k: v for k, v in r.m.items()}
            ok = r.c == 0 and got.get(m) == M - 1 and got.get(l) == M - 1 and (got.get(a) == M - 1 or got.get(a2) == M - 1) and len(got) == 3
            how = "ring normal form mod 2^32: %s" % r
    ctx.check(ok, "K", "calc_checksum", "calc_checksum(m, a, l) == -m - a - l (mod 2^32) for all 2^32 x 2 x 2^32 arguments, "
              "with a the discriminant of the architecture", A.site(), how=how, why=how)
    # the pub wrapper on Multiboot2Header
    w = F.insts.get(MH + "calc_checksum")
    if w is not None:
        rt2, _ = an.of(F, w).ret()
        ctx.check(rt2 is not None and N(rt2) == N(rt), "K", "Multiboot2Header::calc_checksum",
                  "the public Multiboot2Header::calc_checksum forwards to it with the same arguments", w["span"], how=G.show(rt2), why=G.show(rt2))
    isa = F.adts.get("multiboot2_header::tags::HeaderTagISA")
    got = {v["discr"]: v["name"] for v in (isa or {}).get("variants", [])}
    ctx.check(got == S.HEADER_ARCH, "K", "HeaderTagISA", "architecture discriminants are the specified values (0 = i386, 4 = MIPS32), stored as u32",
              (isa or {}).get("span", ""), how=str(got), why=str(got))
    return rt


def run(ctx):
    F = ctx.F()
    load = F.insts.get(MH + "load")
    if load is None:
        ctx.fail("ANCHOR", "Multiboot2Header::load", "exists", "", "missing")
        return ctx.finish("other", "anchor missing", [], "")
    c02.panic_free(ctx, F, [load["key"]], "A1", "Multiboot2Header::load")
    c02.panic_free(ctx, F, [BH + "::calc_checksum"], "A1", "calc_checksum")
    A = an.of(F, load)
    ex = CH.exits(A)
    rfp = "multiboot2_common::DynSizedStructure::<%s>::ref_from_ptr::<'_>" % BH
    ok5 = len(ex) == 5
    ctx.check(ok5, "A2", "load:exits", "load has exactly five exits (null, memory error, wrong magic, checksum mismatch, success)", A.site(),
              how="%d" % len(ex), why=str(ex))
    calc = checksum_law(ctx, F)
    if ok5:
        inner, this, preds = c02.load_chain(ctx, F, A, ex, rfp, LE + "::Memory", "Multiboot2Header",
                                            "multiboot2_header::header::Multiboot2Header",
                                            tail_checks=[("MagicNotFound", None, None), ("ChecksumMismatch", None, None)])
        hdr = fld(deref(inner), 0) if inner else None
        if len(preds) == 2 and hdr is not None:
            (e1, p1), (e2, p2) = preds
            lay = F.adts.get(BH)
            fi = {f["name"]: f["i"] for f in lay["fields"]}
            f1 = N(p1) if p1 else None
            g = f1 == ("cmp", "Ne", fld(hdr, fi["header_magic"]), ("c", S.HEADER_MAGIC))
            ctx.check(g, "A2", "load:3:magic", "MagicNotFound is taken exactly when the stored magic != 0xE85250D6", A.site(e1.bb),
                      how=G.show(p1), why=G.show(p1))
            # checksum: the guard is  X != Y  with  X - Y == +-(magic + arch + length + checksum)  in Z/2^32
            # (calc(m, a, l) != stored checksum, or m + a + l + c != 0, or any other wrapping rearrangement)
            g = False
            # the comparison itself must be one of 32-bit values: `a != b` over a wider type is not `a != b (mod 2^32)` (a u64 sum
            # compared with 2^32 rejects sums of 2^33)
            ws = {K.width_of(p2[2]), K.width_of(p2[3])} if p2 is not None and p2[0] == "cmp" else set()
            if p2 is not None and p2[0] == "cmp" and p2[1] == "Ne" and 32 in ws and ws <= {32, None}:
                rx, ry = K.ring(p2[2], 32), K.ring(p2[3], 32)
                if rx is not None and ry is not None:
                    M = 1 << 32
                    d = rx.add(ry, -1)
                    names = {}
                    for k, v in d.m.items():
                        if v % M:
                            names[repr(N(k))] = v % M
                    words = [repr(fld(hdr, fi["header_magic"])), repr(fld(hdr, fi["length"])), repr(fld(hdr, fi["checksum"]))]
                    archs = [repr(("discr", fld(hdr, fi["arch"]))), repr(("cast", "IntToInt", fld(hdr, fi["arch"]), "u32"))]
                    arch_k = [a for a in archs if a in names]
                    if d.c % M == 0 and len(names) == 4 and len(arch_k) == 1 and all(w in names for w in words):
                        coefs = {names[w] for w in words} | {names[arch_k[0]]}
                        g = coefs == {1} or coefs == {M - 1}
            ctx.check(g, "A2", "load:4:checksum",
                      "ChecksumMismatch is taken exactly when -(stored magic + arch + length) mod 2^32 != stored checksum, i.e. the four words do not sum to 0",
                      A.site(e2.bb), how=G.show(p2)[:300], why=G.show(p2)[:600])
    c02.check_ref_from_ptr(ctx, F, BH, 8)
    # the memory-error exit is the chain of C14 for this header type: `ShorterThanHeader` exactly for a slice (= declared length)
    # below the 16 bytes of the basic header, and so on - those premise instances are re-decided here (seed C10-7b: a validating
    # constructor that tested `len < 8` for every header type passed C10 while C14's rule was one-directional)
    if not getattr(ctx, "_imported", False):
        ctx.import_prop("C14", only=lambda o: "<Multiboot2BasicHeader>" in o.key, label="slice validation for Multiboot2BasicHeader")
    # who constructs the wrapper: only load's success exit - the premise of the size invariant I-MH used by its methods
    from .. import inline as INL_
    ctors_, bad_ = INL_.constructors_of(F, "multiboot2_header::header::Multiboot2Header", ("load",))
    ctx.check(bool(ctors_) and not bad_, "A2", "I-MH:who-constructs", "Multiboot2Header values are built only by load() (and derived Clone): every one satisfies "
              "`declared size >= header size` (the memory exit of load precedes the success exit; C14.B1)", "",
              how="%d construction sites, all in load" % len(ctors_), why="other constructors: %s" % bad_)
    # set_size
    ss = F.find(impl_trait="multiboot2_common::Header", impl_self=BH, name="set_size")
    if len(ss) != 1:
        ctx.fail("ANCHOR", "set_size", "Multiboot2BasicHeader::set_size exists", "", "missing")
    else:
        B = an.of(F, ss[0])
        writes = {}
        for (_bb, _si, fname_, val) in an.writes_through(B, 1):
            writes.setdefault(fname_, []).append(val)
        newlen = ("cast", "IntToInt", ("arg", 2), "u32")
        g_len = len(writes.get("length", [])) == 1 and N(writes["length"][0]) == newlen
        g_ck = False
        if len(writes.get("checksum", [])) == 1:
            r = K.ring(writes["checksum"][0], 32)
            M = 1 << 32
            if r is not None:
                names = {repr(N(k)): v for k, v in r.m.items()}
                lay = F.adts.get(BH)
                fi = {f["name"]: f["i"] for f in lay["fields"]}
                me = deref(arg(1))
                g_ck = (r.c == 0 and names.get(repr(fld(me, fi["header_magic"]))) == M - 1 and (names.get(repr(newlen)) == M - 1 or names.get(repr(arg(2))) == M - 1) and
                        (names.get(repr(("discr", fld(me, fi["arch"])))) == M - 1 or names.get(repr(("cast", "IntToInt", fld(me, fi["arch"]), "u32"))) == M - 1) and len(names) == 3)
        ctx.check(g_len and g_ck and set(writes) == {"length", "checksum"}, "K", "set_size",
                  "set_size(n) stores n as the length and the checksum recomputed from the stored magic, architecture and the new length",
                  B.site(), how="writes %s" % {k: [G.show(x)[:120] for x in v] for k, v in writes.items()},
                  why="writes %s" % {k: [G.show(x)[:200] for x in v] for k, v in writes.items()})
    vc = F.insts.get(BH + "::verify_checksum")
    if vc is None:
        ctx.fail("ANCHOR", "verify_checksum", "exists", "", "missing")
    lay = F.adts.get(BH)
    good = bool(lay) and lay["size"] == 16 and [(f["off"], f["size"]) for f in lay["fields"]] == [(0, 4), (4, 4), (8, 4), (12, 4)]
    ctx.check(good, "A2", "Multiboot2BasicHeader:layout", "magic@0, architecture@4, length@8, checksum@12 (u32 each), 16 bytes", (lay or {}).get("span", ""),
              how="compiler layout", why=str(lay and lay["fields"]))
    ctx.assumptions.append("the architecture word holds a defined value (hypothesis of the property)")
    return ctx.finish(
        "other",
        "Panic-edge census of the closure of Multiboot2Header::load and of calc_checksum; early-exit chain of load with exact "
        "guards (raw length via C14's chain, magic constant, checksum predicate); ring normal form mod 2^32 of calc_checksum, of "
        "the checksum predicate and of set_size's stored checksum: all equal -(magic + arch + length).",
        ["rustc MIR", "mb2rules PANIC/CHAIN/KERNEL", "std: NonNull::new, ok_or, map_err, Try; wrapping_sub is subtraction mod 2^32", "C14 premises"],
        "one obligation per panic/arith site, per exit, per ring identity",
    )
