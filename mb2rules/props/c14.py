"""C14 — raw bytes become a structure only when aligned, padded and size-consistent.

B1  CHAIN(BytesRef::try_from) = [len < size_of H -> ShorterThanHeader], [align_offset(8) != 0 ->
    WrongAlignment], [len % 8 != 0 -> MissingPadding], then Ok(BytesRef{bytes: the argument})
B2  REACH: a BytesRef value is constructed only there (derived Clone aside)
B3  in ref_from_bytes the fact size_of H + meta <= bytes.len() holds where the fat reference is made;
    the failing edge returns InvalidReportedTotalSize; meta is the compared term
B3w the guard rejects a wrapped payload_len (raw subtraction compared with a slice length)
B4  fat pointer address == bytes.as_ptr(), metadata == payload_len(header at that address)
B5  ref_from_slice = try_from(..)? then ref_from_bytes (errors unchanged)
B6  KERNEL: increase_to_alignment(x) is the least multiple of 8 >= x
B7  LAYOUT of DynSizedStructure<H> (size_of_val = round8(size_of H + meta))
"""
from .. import an
from .. import chain as CH
from .. import guard as G
from .. import layout as L
from .. import mir as M
from .. import terms as T

ALIGN = 8


def header_types(F, include_common=False):
    out = []
    for h in L.impls_of(F, "multiboot2_common::Header"):
        if h["crate"] == "multiboot2_common" and not include_common:
            continue
        out.append(h)
    return out


def short(ty):
    return ty.split("::")[-1]


def rfb_inst(F, hty):
    return F.insts.get("multiboot2_common::DynSizedStructure::<%s>::ref_from_bytes" % hty)


def fatptr_sites(A):
    """[(bb, term)] of ptr_meta::from_raw_parts calls"""
    out = []
    for bb, t in A.body.calls():
        p = M.callee_path(t)
        if p in ("ptr_meta::from_raw_parts", "ptr_meta::from_raw_parts_mut"):
            out.append((bb, A.tb.call_value(t, bb)))
    return out


def payload_len_shape(F, hty, meta, addr):
    """meta == payload_len applied to the header at addr; returns the `size` atom or None.
    Accepts the inlined form  zext(field)-K  /  saturating / checked forms of the same field."""
    hs = F.size_of(hty)
    m = G.strip(meta)
    lf = None
    try:
        lf = G.lin(m)
    except Exception:
        return None
    atom = None
    if len(lf.m) == 1 and lf.c == -hs:
        (atom, c), = lf.m.items()
        if c != 1:
            return None
    elif m[0] == "saturating" and m[1] == "Sub" and G.strip(m[2][1]) == ("c", hs):
        atom = G.strip(m[2][0])
    else:
        return None
    # atom must be a field of *addr
    if atom[0] == "fld" and atom[1] == ("deref", addr):
        return atom
    return None


def wrap_rejecting_guard(ctx, F, hty):
    """B3w for header type hty: (ok, how)"""
    inst = rfb_inst(F, hty)
    if inst is None:
        return (False, "ref_from_bytes::<%s> not instantiated" % short(hty))
    A = an.of(F, inst)
    fps = fatptr_sites(A)
    if len(fps) != 1:
        return (False, "ref_from_bytes has %d fat-pointer sites" % len(fps))
    bb, fp = fps[0]
    facts = A.g.facts_at(bb)
    hs = F.size_of(hty)
    meta = G.strip(fp[2]) if fp[0] == "fatptr" else None
    if meta is not None and meta[0] == "saturating" and meta[1] == "Sub":
        return (True, "payload_len saturates (the metadata is %s): an undersized declaration gives 0, never a wrapped length" % G.show(meta)[:80])
    for f in facts:
        if f[0] != "cmp":
            continue
        # `size_of::<H>().checked_add(payload_len)` is Some: header + payload_len does not overflow usize, so payload_len is
        # below 2^64 - size_of::<H>() - every wrapped value of `size - size_of::<H>()` (>= 2^64 - size_of::<H>()) is rejected
        if f[1] == "Eq" and f[3] == ("c", 1) and f[2][0] == "discr" and f[2][1][0] == "checked" and f[2][1][1] == "Add":
            xs = [G.strip(x) for x in f[2][1][2]]
            if ("c", hs) in xs and meta is not None and any(x == meta for x in xs):
                return (True, "guard `%s.checked_add(payload_len)` is Some: a wrapped payload_len (>= 2^64-%d) overflows the checked "
                              "addition and is rejected (%s)" % (hs, hs, A.site(bb)))
        op, a, b = f[1], G.strip(f[2]), G.strip(f[3])
        if op in ("Ge", "Gt"):
            op, a, b = G.SWAP[op], b, a
        if op not in ("Le", "Lt"):
            continue
        # a must be the raw subtraction  size - K  (a single Sub term, nothing added to it)
        if a[0] == "bin" and a[1] == "Sub" and G.strip(a[3]) == ("c", hs) and G.strip(a[2])[0] == "fld":
            ub = upper_bound(b)
            if ub is not None and ub <= 2**63 - 1:
                return (True, "constructor guard `%s` compares the raw subtraction with a value <= isize::MAX: a wrapped "
                              "result (>= 2^64-%d) is rejected, and with overflow checks the subtraction panics (%s)" %
                        (G.show(f), hs, A.site(bb)))
        if a[0] == "saturating":
            return (True, "payload_len saturates")
    return (False, "no guard in ref_from_bytes::<%s> rejects a wrapped payload_len" % short(hty))


def upper_bound(t):
    try:
        lf = G.lin(t)
    except Exception:
        return None
    v = lf.c
    for a, c in lf.m.items():
        r = G.atom_range(a)
        if r is None:
            return None
        lo, hi = r
        if c > 0:
            if hi is None:
                return None
            v += c * hi
        else:
            if lo is None:
                return None
            v += c * lo
    return v


def bytesref_ctor(F, hty):
    """the function that validates a slice and builds BytesRef<hty>: `TryFrom::try_from`, or the inherent constructor it forwards
    to / that is called in its place (found by role: roles.bytesref_ctors) -> instance or None"""
    from .. import roles
    keys = [k for k in roles.bytesref_ctors(F) if ("BytesRef<'_, %s>" % hty) in k or ("BytesRef::<'_, %s>" % hty) in k]
    real = []
    for k in keys:
        rt, _ = an.of(F, F.insts[k]).ret()
        n = G.N(rt) if rt is not None else None
        if n is not None and n[0] == "call" and n[1] in keys and n[1] != k and n[2] == (("arg", 1),):
            continue        # forwards to the other one
        real.append(k)
    return F.insts[real[0]] if len(real) == 1 else None


def is_misaligned_test(f, ptr):
    """`the address of ptr is not a multiple of 8`: align_offset(8) != 0 (std: 0 exactly when aligned, for a byte pointer and a power of
    two), or the address itself `% 8 != 0` / `& 7 != 0`"""
    if not (isinstance(f, tuple) and f[0] == "cmp" and f[1] == "Ne" and G.strip(f[3]) == ("c", 0)):
        return False
    e = G.strip(f[2])
    if e == ("align_offset", ptr, ("c", ALIGN)):
        return True

    def is_addr(t):
        t = G.strip(t)
        if t[0] == "cast" and t[1] in ("PointerExposeProvenance", "Transmute") and len(t) > 3 and t[3] == "usize":
            return G.strip(t[2]) == ptr
        if t[0] == "call" and G.cn(t[1]) in ("core::ptr::const_ptr::<impl *const T>::addr", "core::ptr::const_ptr::<impl *const T>::expose_provenance") and len(t[2]) == 1:
            return G.strip(t[2][0]) == ptr
        return False
    if e[0] == "bin" and e[1] == "Rem" and G.strip(e[3]) == ("c", ALIGN) and is_addr(e[2]):
        return True
    if e[0] == "bin" and e[1] == "BitAnd" and G.strip(e[3]) == ("c", ALIGN - 1) and is_addr(e[2]):
        return True
    return False


def check_try_from(ctx, F, hty):
    inst = bytesref_ctor(F, hty)
    lab = "try_from<%s>" % short(hty)
    if inst is None:
        ctx.fail("ANCHOR", lab, "BytesRef::<%s>::try_from is instantiated" % short(hty), "", "missing")
        return
    A = an.of(F, inst)
    ex = CH.exits(A)
    hs = F.size_of(hty)
    slice_arg = ("arg", 1, "&[u8]")
    want = [
        # the guard must be *equivalent* to `len < size_of::<H>()`: a weaker test (say `len < 8` for the 16-byte header) is entailed
        # one way only and would let a slice shorter than the header through (seed C10-7b)
        ("ShorterThanHeader", lambda f: f[0] == "cmp" and G.entails([f], ("cmp", "Lt", ("len", slice_arg), ("c", hs))) is not None
         and G.entails([("cmp", "Lt", ("len", slice_arg), ("c", hs))], f) is not None,
         "len < size_of::<H>() (%d)" % hs),
        ("WrongAlignment", lambda f: is_misaligned_test(f, ("asptr", slice_arg)),
         "as_ptr().align_offset(8) != 0"),
        ("MissingPadding", lambda f: f[0] == "cmp" and f[1] == "Ne" and G.strip(f[3]) == ("c", 0) and
         G.lin(f[2]).key() == G.lin(("bin", "Rem", ("len", slice_arg), ("c", ALIGN), "usize")).key(), "len % 8 != 0"),
    ]
    errs = [e for e in ex if e.kind == "Err"]
    oks = [e for e in ex if e.kind == "Ok"]
    ctx.check(len(errs) == 3 and len(oks) == 1 and len(ex) == 4, "B1", lab + ":exits",
              "try_from has exactly three error exits and one success exit", A.site(),
              how="%d Err, %d Ok" % (len(errs), len(oks)), why="exits: %s" % ex)
    for i, (variant, pred, text) in enumerate(want):
        if i >= len(errs):
            break
        e = errs[i]
        good = e.variant == variant and len(e.own) >= 1 and any(pred(f) for f in e.own)
        prec = all(CH.precedes(errs[j], e) for j in range(i))
        ctx.check(good and prec, "B1", "%s:%d:%s" % (lab, i, variant),
                  "exit #%d of try_from: `%s` -> Err(%s), tested after all earlier exits" % (i + 1, text, variant),
                  A.site(e.bb), how="own guard %s; earlier guards negated in its facts" % [G.show(f) for f in e.own],
                  why="exit is %s with own guard %s (precedence ok: %s)" % (e.variant, [G.show(f) for f in e.own], prec))
    if oks:
        o = oks[0]
        p = o.payload
        good = p is not None and p[0] == "aggr" and p[1][0] == "adt" and p[1][1].endswith("::BytesRef") and G.strip(p[2][0]) == slice_arg
        allneg = all(CH.precedes(e, o) for e in errs)
        ctx.check(good and allneg, "B1", lab + ":ok",
                  "success returns BytesRef over the argument slice itself, only when all three tests passed", A.site(o.bb),
                  how="Ok(BytesRef{bytes: arg}); facts %s" % [G.show(f) for f in o.facts],
                  why="payload %s; all guards negated: %s" % (G.show(p), allneg))


def check_ref_from_bytes(ctx, F, hty):
    lab = "ref_from_bytes<%s>" % short(hty)
    inst = rfb_inst(F, hty)
    if inst is None:
        ctx.fail("ANCHOR", lab, "%s is instantiated" % lab, "", "missing")
        return
    A = an.of(F, inst)
    hs = F.size_of(hty)
    fps = fatptr_sites(A)
    if len(fps) != 1:
        ctx.fail("B3", lab + ":shape", "ref_from_bytes creates exactly one fat pointer", A.site(), "%d sites" % len(fps))
        return
    bb, fp = fps[0]
    addr, meta = fp[1], fp[2]
    bytes_slice = None
    # address: as_ptr of the BytesRef's slice
    a = G.strip(addr)
    good_addr = a[0] == "asptr" and G.strip(a[1])[0] == "fld" and G.strip(a[1])[1] == ("arg", 1, inst["body"]["locals"][1]["ty"])
    if good_addr:
        bytes_slice = a[1]
    atom = payload_len_shape(F, hty, meta, a)
    ctx.check(good_addr and atom is not None, "B4", lab,
              "the fat pointer starts at bytes.as_ptr() and its metadata is payload_len() of the header at that address",
              A.site(bb), how="fatptr(%s, %s)" % (G.show(addr), G.show(meta)), why="fatptr(%s, %s)" % (G.show(addr), G.show(meta)))
    if not (good_addr and atom is not None):
        return
    facts = G.resolve_saturating(A.g.facts_at(bb))
    need = ("cmp", "Le", ("bin", "Add", ("c", hs), meta, "usize"), ("len", bytes_slice))
    j = G.entails(facts, need)
    ctx.check(j is not None, "B3", lab,
              "size_of::<H>() + payload_len() <= bytes.len() is a fact where the fat reference is created (total declared size fits the slice)",
              A.site(bb), how="from %s" % [G.show(facts[i]) for i in (j[1] if j else [])],
              why="facts at the site: %s - the declared total size is not compared with the slice" % [G.show(f) for f in facts])
    # failing edge returns InvalidReportedTotalSize
    ex = CH.exits(A)
    def cannot_be_taken(e):
        # an exit behind a test no input satisfies (the overflow arm of `checked_add` on operands that are bounded by their types)
        others = [f for f in e.facts if f not in e.own]
        for f in e.own:
            nf = G.negate(f)
            if nf[0] == "cmp" and G.entails(others, nf) is not None:
                return True
        return False
    errs = [e for e in ex if e.kind == "Err" and not cannot_be_taken(e)]
    dead = [e for e in ex if e.kind == "Err" and cannot_be_taken(e)]
    oks = [e for e in ex if e.kind == "Ok"]
    # (an exit no input can take - its guard contradicts the facts it is reached under, the BytesRef invariants included - may
    # name any error: `len.checked_sub(size_of::<H>())` answering None)
    good = len(errs) == 1 and errs[0].variant == "InvalidReportedTotalSize" and len(oks) == 1 and CH.precedes(errs[0], oks[0])
    ctx.check(good, "B3", lab + ":error",
              "the only error exit of ref_from_bytes is InvalidReportedTotalSize, taken exactly when the size test fails",
              A.site(), how="exits %s" % ex, why="exits %s" % ex)
    if oks:
        p = oks[0].payload
        good = p is not None and G.strip(p) == G.strip(("deref", fp)) or (p is not None and p[0] == "ref" and G.strip(p[1]) == ("deref", fp)) or G.strip(p) == fp
        ctx.check(good, "B4", lab + ":returned", "the returned reference is that fat pointer", A.site(oks[0].bb),
                  how=G.show(p), why=G.show(p))
    ok, how = wrap_rejecting_guard(ctx, F, hty)
    hgood = header_nonwrapping(F, hty)
    ctx.check(ok or hgood[0], "B3w", lab,
              "a declared size below the header never yields a structure: payload_len cannot wrap unnoticed past the guard",
              A.site(bb), how=how if ok else hgood[1], why=how + "; " + hgood[1])


def header_nonwrapping(F, hty):
    from . import c05
    class Dummy:
        pass
    return c05.header_guarantee(None, F, hty)


def _calls_in(t, acc=None):
    acc = [] if acc is None else acc
    if isinstance(t, tuple):
        if t and t[0] == "call":
            acc.append(t)
        for x in t:
            if isinstance(x, tuple):
                _calls_in(x, acc)
    return acc


def is_ref_from_slice_of(ex, hty, src, F_=None):
    """the exits `ex` are those of  ref_from_bytes(BytesRef::try_from(src)?)  with the error passed through unchanged
    (ref_from_slice itself, or its body written out / spliced in place, e.g. `try_from(src).and_then(ref_from_bytes)`)"""
    tf = "<multiboot2_common::bytes_ref::BytesRef<'_, %s> as core::convert::TryFrom<&[u8]>>::try_from" % hty
    rfb = "multiboot2_common::DynSizedStructure::<%s>::ref_from_bytes" % hty
    if F_ is not None:
        # whichever of the constructor's two names is called (the TryFrom impl or the inherent constructor it forwards to)
        from .. import roles
        called = {G.N(x)[1] for e in ex for x in ([e.val] if e.val is not None else []) + list(e.facts)
                  for x in _calls_in(G.N(x))}
        for k in roles.bytesref_ctors(F_):
            if k in called and (("BytesRef<'_, %s>" % hty) in k or ("BytesRef::<'_, %s>" % hty) in k):
                tf = k
    TF = G.N(("call", tf, (src,)))
    if len(ex) != 2:
        return False
    res = [e for e in ex if e.kind == "Err"]
    cont = [e for e in ex if G.N(e.val)[0] == "call" and G.N(e.val)[1] == rfb]
    g1 = g2 = False
    if len(res) == 1:
        # the error of try_from is returned unchanged (same error type: no conversion call survives inlining)
        g1 = G.N(res[0].payload) == CH.payload_of(TF, 1) and CH.own_is_variant(res[0], TF, 1)
    if len(cont) == 1:
        v = G.N(cont[0].val)
        g2 = v[2] == (CH.payload_of(TF, 0),) and CH.guarded_by_variant(cont[0].facts, TF, 0)
    return g1 and g2


def check_ref_from_slice(ctx, F, hty):
    lab = "ref_from_slice<%s>" % short(hty)
    inst = F.insts.get("multiboot2_common::DynSizedStructure::<%s>::ref_from_slice" % hty)
    if inst is None:
        # not instantiated for this header type (nothing calls it): nothing to decide; its callers' premises
        # (C02/C10 ref_from_ptr) then have to show the same composition in place
        ctx.ok("B5", lab, "ref_from_slice::<%s> is not instantiated in the three crates" % short(hty), "", how="no instance", nontrivial=False)
        return
    A = an.of(F, inst)
    ex = CH.exits(A)
    ok = is_ref_from_slice_of(ex, hty, ("arg", 1, "&[u8]"), F)
    ctx.check(ok, "B5", lab,
              "ref_from_slice(bytes) = ref_from_bytes(BytesRef::try_from(bytes)?) with the error passed through unchanged",
              A.site(), how="exits: %s" % [G.show(e.val) for e in ex], why="exits: %s" % [G.show(e.val) for e in ex])


def residue_eval(t, r, m=ALIGN):
    """value of the integer term t over the single argument x = m*q + r as (coefficient of q, constant), or None"""
    k = t[0]
    if k == "arg":
        return (m, r)
    if k == "c":
        return (0, t[1])
    if k in ("zext",):
        return residue_eval(t[1], r, m)
    if k == "cast" and t[1] == "IntToInt":
        # only value-preserving casts: a cast to a narrower type (`size as u32`) truncates, and q ranges over all of usize
        from .. import terms as T_
        src = T_.INT_BITS.get(G.term_type(t[2]) or "", 64)
        if T_.INT_BITS.get(t[3], 0) < src:
            return None
        return residue_eval(t[2], r, m)
    if k == "bin":
        op = t[1]
        a, b = residue_eval(t[2], r, m), residue_eval(t[3], r, m)
        if a is None or b is None:
            return None
        if op in ("Add", "AddUnchecked"):
            return (a[0] + b[0], a[1] + b[1])
        if op in ("Sub", "SubUnchecked"):
            return (a[0] - b[0], a[1] - b[1])
        if op in ("Mul", "MulUnchecked") and (a[0] == 0 or b[0] == 0):
            c_, v_ = (a, b) if a[0] == 0 else (b, a)
            return (v_[0] * c_[1], v_[1] * c_[1])
        if b[0] == 0 and b[1] > 0 and a[1] >= 0:
            d = b[1]
            if op == "Rem" and a[0] % d == 0:
                return (0, a[1] % d)
            if op == "Div" and a[0] % d == 0:
                return (a[0] // d, a[1] // d)
            if op == "BitAnd":
                if (d + 1) & d == 0 and a[0] % (d + 1) == 0:
                    return (0, a[1] % (d + 1))
                inv = (~d) & ((1 << 64) - 1)
                if (inv + 1) & inv == 0 and a[0] % (inv + 1) == 0:
                    return (a[0], a[1] - a[1] % (inv + 1))
        return None
    if k == "numfn" and t[1] == "next_multiple_of":
        a, b = residue_eval(t[2][0], r, m), residue_eval(t[2][1], r, m)
        if a is None or b is None or b[0] != 0 or b[1] <= 0 or a[0] % b[1] != 0 or a[1] < 0:
            return None
        return (a[0], a[1] + (b[1] - a[1] % b[1]) % b[1])
    if k == "ite":
        c = t[1]
        if c[0] == "cmp":
            x, y = residue_eval(c[2], r, m), residue_eval(c[3], r, m)
            if x is None or y is None or x[0] != 0 or y[0] != 0:
                return None
            truth = {"Eq": x[1] == y[1], "Ne": x[1] != y[1], "Lt": x[1] < y[1], "Le": x[1] <= y[1], "Gt": x[1] > y[1], "Ge": x[1] >= y[1]}[c[1]]
            return residue_eval(t[2] if truth else t[3], r, m)
        return None
    return None


def rounding_kernel(ctx, F, rule="B6"):
    """increase_to_alignment(x) == least multiple of 8 >= x.  Returns True if recognised."""
    inst = F.insts.get("multiboot2_common::increase_to_alignment")
    if inst is None:
        ctx.fail("ANCHOR", "increase_to_alignment", "increase_to_alignment exists", "", "missing")
        return False
    A = an.of(F, inst)
    rt, facts = A.ret()
    x = ("arg", 1, "usize")
    ok = False
    how = "return term %s" % G.show(rt)
    if rt is not None:
        r = G.strip(rt)
        if r[0] == "numfn" and r[1] == "next_multiple_of" and G.strip(r[2][0]) == x and G.strip(r[2][1]) == ("c", ALIGN):
            ok = True
        else:
            try:
                lf = G.lin(r)
                # accepted: x + 7 - ((x+7) mod 8)
                want = G.lin(("bin", "Add", x, ("c", ALIGN - 1), "usize")).add(
                    G.Lin(0, {("rem", G.canon(("bin", "Add", x, ("c", ALIGN - 1), "usize")), ALIGN): 1}), -1)
                # or 8 * ((x+7) div 8)
                want2 = G.Lin(0, {("div", G.canon(("bin", "Add", x, ("c", ALIGN - 1), "usize")), ALIGN): ALIGN})
                ok = lf.key() == want.key() or lf.key() == want2.key()
            except Exception:
                ok = False
    if not ok and rt is not None:
        # any other spelling: evaluate the return term on x = 8q + r for each residue r (affine in q); it must be 8q + 8*ceil(r/8)
        res = [residue_eval(G.N(rt), r_) for r_ in range(ALIGN)]
        ok = all(v is not None and v == (ALIGN, 0 if r_ == 0 else ALIGN) for r_, v in enumerate(res))
        how = "residue classes x = 8q + r, r = 0..7: %s" % res
    ctx.check(ok, rule, "increase_to_alignment",
              "increase_to_alignment(x) = x + 7 - ((x + 7) mod 8): a multiple of 8 in [x, x+7], hence the least one >= x "
              "(no overflow for x < 2^32 on a 64-bit target)", A.site(), how=how, why=how)
    c = F.consts.get("multiboot2_common::ALIGNMENT")
    ctx.check(c is not None and c.get("v") == ALIGN, rule, "ALIGNMENT", "multiboot2_common::ALIGNMENT == 8",
              (c or {}).get("span", ""), how="const value", why=str(c))
    return ok


def run(ctx):
    F = ctx.F()
    hts = header_types(F)
    ctx.floor("B1", "header types of the two crates", len(hts), 4)
    for h in hts:
        hty = h["self"]
        check_try_from(ctx, F, hty)
        check_ref_from_bytes(ctx, F, hty)
        check_ref_from_slice(ctx, F, hty)
        # B7 layout
        sty = "multiboot2_common::DynSizedStructure<%s>" % hty
        a = F.adts.get(sty)
        hs = F.size_of(hty)
        good = bool(a) and (a.get("tail") or {}).get("off") == hs and a["align"] == ALIGN and (a["tail"] or {}).get("elem_size") == 1 \
            and a["fields"][0]["off"] == 0 and a["fields"][0]["ty"] == hty
        ctx.check(good, "B7", "DynSizedStructure<%s>" % short(hty),
                  "layout: header at 0, [u8] at %s, alignment 8  => size_of_val = round8(%s + meta)" % (hs, hs),
                  (a or {}).get("span", ""), how="compiler layout", why=str(a and {k: a[k] for k in ("align", "tail")}))
        ctx.check(hs is not None and hs % ALIGN == 0 and F.align_of(hty) is not None and ALIGN % F.align_of(hty) == 0,
                  "B7", "header:%s" % short(hty),
                  "size_of::<%s>() is a multiple of 8 and its alignment divides 8 (the header read through the 8-aligned pointer is aligned)" % short(hty),
                  h["span"], how="size %s align %s" % (hs, F.align_of(hty)), why="size %s align %s" % (hs, F.align_of(hty)))
    # B2: who constructs BytesRef
    ctors = []
    for k, f in F.fns.items():
        b = f["body"]
        for bb in b["blocks"]:
            if bb.get("cleanup"):
                continue
            for st in bb["s"]:
                if st["k"] == "assign" and st["rv"]["k"] == "aggr" and st["rv"].get("adt", "").endswith("bytes_ref::BytesRef"):
                    ctors.append((k, f))
    from .. import roles as _roles
    ctor_paths = {F.insts[k_].get("path") for k_ in _roles.bytesref_ctors(F)}

    def in_try_from(f):
        if f.get("name") == "try_from" and f.get("impl_trait") == "core::convert::TryFrom":
            return True
        if f.get("path") in ctor_paths:
            return True          # the inherent validating constructor (same role, decided by B1 like try_from)
        # a closure written inside try_from (e.g. `check(..).map(|()| Self {..})`) is part of try_from
        root = F.fns.get(f.get("root")) if f.get("closure") and f.get("root") else None
        return root is not None and (root.get("path") in ctor_paths or (root.get("name") == "try_from" and root.get("impl_trait") == "core::convert::TryFrom"))
    bad = [k for (k, f) in ctors if not in_try_from(f) and not f.get("derived")]
    ctx.check(len(ctors) >= 1 and not bad, "B2", "BytesRef:constructors",
              "BytesRef {..} is constructed only in TryFrom::try_from (and its derived Clone)", "",
              how="%d construction sites: %s" % (len(ctors), sorted({str(f.get("name")) for _, f in ctors})),
              why="other construction sites: %s" % bad)
    bf = [a for k, a in F.adts.items() if k.startswith("generic ") and a.get("name") == "BytesRef"]
    ctx.check(len(bf) == 1 and all(not fl["pub"] for fl in bf[0].get("fields", [])), "B2", "BytesRef:fields",
              "BytesRef's fields are private (no construction outside the defining module)", "",
              how="fields %s" % [(fl["name"], fl["pub"]) for fl in (bf[0]["fields"] if bf else [])], why=str(bf))
    if ctx.tier == "thorough":
        from .. import witness
        witness.check(ctx, [("PrivBytesRef", "B2: a BytesRef cannot be constructed outside its module (private fields)")], rule="B2")
    rounding_kernel(ctx, F)
    return ctx.finish(
        "other",
        "Early-exit chains (dominance-ordered guards and error constructors) of BytesRef::try_from, ref_from_bytes and "
        "ref_from_slice for every header type; the linear fact `header size + metadata <= slice length` at the single "
        "fat-pointer creation site; who-may-construct BytesRef; the rounding kernel in linear/remainder normal form; layouts "
        "from the compiler. Complete for the statement under the std contracts of align_offset, Try/FromResidual and ptr_meta.",
        ["rustc MIR/layout", "mb2facts/mb2rules (TERMS, GUARD, CHAIN)", "std: <*const T>::align_offset, Result as Try, ptr_meta::from_raw_parts"],
        "one obligation per (header type, premise B1..B7)",
    )
