"""C11 — header accessors and typed getters decode the specified fields.

H1  layouts of Multiboot2BasicHeader, HeaderTagHeader and the 11 header-tag structs vs the oracle; enum discriminants
H2  read-set of every public accessor (typ/flags/size through the common header; the kind's own fields)
H3  getter table: 10 typed getters = get_tag::<T>() with T::ID the variant of the kind's number
H4  get_tag = iter().find(|t| t.typ() == T::ID).map(|t| t.cast::<T>()); iter() = TagIter over the exact payload (offset 16)
H5  the tag walk's transition premises for H = HeaderTagHeader (shared with C03/C09)
"""
from .. import an
from .. import select as SEL
from .. import guard as G
from .. import layout as L
from .. import spec as S
from ..guard import N, arg, fld, deref, cn
from . import c05
from . import c03
from . import tagtables as TT

MH = "multiboot2_header::header::Multiboot2Header::<'_>::"


def run(ctx):
    F = ctx.F()
    num_of_variant = {v: k for k, v in S.HEADER_TAG_TYPES.items()}
    adts = {}
    for kind, row in S.HEADER_TAGS.items():
        a = TT.layout_row(ctx, F, "multiboot2_header", kind, row, S.HEADER_TAG_HEADER, rule="H1")
        if a:
            adts[kind] = a
    ctx.floor("H1", "specified header-tag kinds with a type", len(adts), 11)
    hth = L.adt(F, "multiboot2_header", "HeaderTagHeader")
    ctx.check(bool(hth) and hth["size"] == 8 and [(f["off"], f["size"]) for f in hth["fields"]] == [(0, 2), (2, 2), (4, 4)], "H1", "layout:HeaderTagHeader",
              "HeaderTagHeader: type u16@0, flags u16@2, size u32@4", (hth or {}).get("span", ""), how="compiler layout", why=str(hth and hth["fields"]))
    bh = L.adt(F, "multiboot2_header", "Multiboot2BasicHeader")
    ok = bool(bh) and bh["size"] == S.MB2_HEADER["size"] and all(TT.locate(F, bh, o, w) for (_, o, w) in S.MB2_HEADER["fields"])
    ctx.check(ok, "H1", "layout:Multiboot2BasicHeader", "magic u32@0, architecture u32@4, header_length u32@8, checksum u32@12; 16 bytes", (bh or {}).get("span", ""),
              how="compiler layout", why=str(bh and bh["fields"]))
    for (tyname, table, what) in (("HeaderTagType", S.HEADER_TAG_TYPES, "tag type numbers"), ("HeaderTagISA", S.HEADER_ARCH, "architecture values"),
                                  ("HeaderTagFlag", S.HEADER_TAG_FLAGS, "flags bit 0"), ("RelocatableHeaderTagPreference", S.RELOCATABLE_PREFERENCE, "preference values")):
        e = L.adt(F, "multiboot2_header", tyname)
        got = {v["discr"]: v["name"] for v in (e or {}).get("variants", [])}
        ctx.check(got == table, "H1", "enum:" + tyname, "%s discriminants equal the specified %s" % (tyname, what), (e or {}).get("span", ""), how=str(got), why=str(got))
    # ---- H2
    n = 0
    for kind, a in adts.items():
        n += TT.accessors(ctx, F, "multiboot2_header", a, S.HEADER_ACCESSORS, S.HEADER_TAGS[kind], S.HEADER_TAG_HEADER,
                          {("InformationRequestHeaderTag", "requests"): "C05"}, rule="H2", common=S.HEADER_COMMON_ACCESSORS)
    if hth:
        n += TT.accessors(ctx, F, "multiboot2_header", hth, {"HeaderTagHeader": {"typ": "type", "flags": "flags", "size": "size"}},
                          dict(fields=S.HEADER_TAG_HEADER), [], {}, rule="H2")
    if bh:
        n += TT.accessors(ctx, F, "multiboot2_header", bh, {"Multiboot2BasicHeader": S.MB2_HEADER_ACCESSORS}, dict(fields=S.MB2_HEADER["fields"]), [],
                          {("Multiboot2BasicHeader", "verify_checksum"): "C10"}, rule="H2")
    ctx.floor("H2", "header-crate accessors checked", n, 55)
    # Multiboot2Header forwards
    inner_hdr = fld(deref(fld(deref(arg(1)), 0)), 0)
    fi = {f["name"]: f["i"] for f in (bh or {}).get("fields", [])}
    for meth, sfield in S.MB2_HEADER_ACCESSORS.items():
        i = F.insts.get(MH + meth)
        if i is None:
            ctx.fail("ANCHOR", "Multiboot2Header::" + meth, "exists", "", "missing")
            continue
        rt, _ = an.of(F, i).ret()
        o, w = [(o, w) for (nme, o, w) in S.MB2_HEADER["fields"] if nme == sfield][0]
        idx = [f["i"] for f in bh["fields"] if f["off"] == o and f["size"] == w][0]
        ctx.check(rt is not None and N(rt) == fld(inner_hdr, idx), "H2", "Multiboot2Header::" + meth, "Multiboot2Header::%s() returns the stored %s (u32@%d)" % (meth, sfield, o),
                  i.get("span", ""), how=G.show(rt), why=G.show(rt))
    # ---- H3
    ng = 0
    for g, kind in S.HEADER_GETTERS.items():
        if TT.getter(ctx, F, MH, g, kind, S.HEADER_TAGS[kind], "multiboot2_header", num_of_variant, rule="H3"):
            ng += 1
    ctx.floor("H3", "typed getters", ng, 10)
    for k, i in F.insts.items():
        if k.startswith(MH) and i.get("eff_pub") and not i.get("closure") and i["name"].endswith("_tag") and i["name"] not in S.HEADER_GETTERS \
                and not TT.added_getter(ctx, F, MH, i, "H3"):
            ctx.fail("H3", "unmapped:" + i["name"], "getter is in the getter table", i.get("span", ""), "unmapped typed getter")
    # ---- H4
    gt = F.fns.get("multiboot2_header::header::Multiboot2Header::<'a>::get_tag")
    if gt is None:
        ctx.fail("ANCHOR", "get_tag", "Multiboot2Header::get_tag exists", "", "missing")
    else:
        sel, why = SEL.analyse(F, gt)
        ok = False
        if sel is not None:
            payload = fld(deref(fld(deref(arg(1)), 0)), 1)
            it = SEL.canon_place(SEL.unref(sel["iter"]))
            it_ok = c03.tagiter_fresh(it, payload, canon=lambda x: SEL.canon_place(SEL.unref(x)))
            typ_of_tag = fld(fld(deref(SEL.ELEM), 0), 0)
            sides = SEL.eq_sides(sel["pred"])
            pred_ok = False
            if sides is not None:
                a0, a1, via = sides
                if via is None:
                    # derived PartialEq on the fieldless enum HeaderTagType, inlined: discriminant(tag.typ) == discriminant(T::ID)
                    ss = [SEL.canon_place(x) for x in (a0, a1)]
                    a = [x for x in ss if x == ("discr", typ_of_tag) or x == ("discr", ("call", "multiboot2_header::tags::HeaderTagHeader::typ", (fld(deref(SEL.ELEM), 0),)))]
                    b = [x for x in ss if x[0] == "discr" and SEL.is_id_const(x[1])]
                    pred_ok = len(a) == 1 and len(b) == 1
                elif "HeaderTagType as core::cmp::PartialEq>::eq" in str(via):
                    ss = [SEL.unref(SEL.canon_place(x)) for x in (a0, a1)]
                    a = [x for x in ss if x == typ_of_tag or x == ("call", "multiboot2_header::tags::HeaderTagHeader::typ", (fld(deref(SEL.ELEM), 0),))]
                    b = [x for x in ss if SEL.is_id_const(x)]
                    pred_ok = len(a) == 1 and len(b) == 1
            map_ok = SEL.is_cast_of_elem(sel["map"], poly=True)
            ok = it_ok and pred_ok and map_ok
            why = "form %s: fresh iter()=%s predicate typ()==T::ID=%s cast::<T>=%s (predicate term %s)" % (sel["form"], it_ok, pred_ok, map_ok, G.show(sel["pred"])[:200])
        ctx.check(ok, "H4", "get_tag", "get_tag::<T>() = iter().find(|t| t.typ() == T::ID).map(|t| t.cast::<T>()) for every T", gt.get("span", ""), how=why, why=why)
    # derived PartialEq of the fieldless HeaderTagType is discriminant equality
    pe = [f for k, f in F.fns.items() if f.get("impl_self_name") == "HeaderTagType" and f.get("impl_trait") == "core::cmp::PartialEq" and f.get("name") == "eq"]
    ctx.check(len(pe) == 1 and pe[0].get("derived"), "H4", "HeaderTagType:eq", "HeaderTagType's PartialEq is derived on a fieldless enum: equality of discriminants = of the stored numbers",
              pe[0].get("span", "") if pe else "", how="derived", why=str(len(pe)))
    it = F.insts.get(MH + "iter")
    if it is None:
        ctx.fail("ANCHOR", "Multiboot2Header::iter", "Multiboot2Header::iter exists", "", "missing")
    if it is not None:
        rt, _ = an.of(F, it).ret()
        n_ = N(rt) if rt is not None else None
        payload = ("ref", fld(deref(fld(deref(arg(1)), 0)), 1))
        g = n_ is not None and c03.tagiter_fresh(n_, payload)
        ds = F.adts.get("multiboot2_common::DynSizedStructure<multiboot2_header::header::Multiboot2BasicHeader>")
        ctx.check(g and bool(ds) and ds["tail"]["off"] == 16, "H4", "iter", "iter() walks exactly the header's payload: from byte 16 to the declared length", it.get("span", ""),
                  how=G.show(rt)[:160], why=G.show(rt)[:300])
    # ---- H5
    c03.check_next(ctx, F, "multiboot2_header::tags::HeaderTagHeader", 4, "HeaderTagHeader", rule_prefix="H5.T")
    # the walk is next()'s: no other Iterator method of TagIter is overridden (positional access through `nth` / `skip` included)
    from . import iters as IT_
    IT_.check_overrides(ctx, F, "H5.T5", "TagIter")
    ctx.import_prop("C15")
    from . import c15 as C15_
    C15_.cast_rejects_exactly(ctx, F, "H4")
    # "for every valid header": a valid header is one load() accepts - that load rejects only what C10 says it rejects (exit chain,
    # magic and checksum predicates) is what makes the accessors reachable for every valid header (seed C11-7b: a checksum
    # predicate that left the architecture out rejected every valid MIPS32 header)
    ctx.import_prop("C10", only=lambda o: o.rule in ("A2", "K"), label="valid headers load")
    # requests() of the information-request tag and the header's own payload: their extents are C05's premises for these two kinds
    ctx.import_prop("C05", only=c05.only_header_kinds, label="header kinds")
    return ctx.finish(
        "other",
        "Compiler layouts of the basic header, the tag header and all 11 header-tag structs, and the discriminants of the four enums, against "
        "hand-written multiboot2.h tables; every public accessor's return term resolved to (offset, width) and compared with the accessor "
        "table; the getter table with ID constants; the polymorphic get_tag composition; iter() over the exact payload; the tag walk's "
        "transition premises for HeaderTagHeader.",
        ["rustc layout/MIR", "mb2rules LAYOUT/READSET/TERMS", "spec.py tables", "std: Iterator::find, Option::map", "C15"],
        "one obligation per layout row, accessor, getter",
    )
