"""C13 — searching a binary image for the header is exact and total.

P   PANIC(find_header) = {}: slice accesses are get()-based or bounded by min(len, 8192)
W   the scanned window is buffer[..min(len, 8192)], scanned with windows(4) and position() (std: first index)
    whose predicate is u32::from_le_bytes(window) == MAGIC
X   exits in dominance order: misaligned buffer -> Err(WrongAlignment); no match -> Ok(None); i % 8 != 0 ->
    Err(WrongAlignment); length field (LE u32 at buffer[i+8..i+12]) unavailable -> Err; range [i, i+len) not in
    the buffer -> Err; else Ok(Some((buffer[i..][..len], i as u32)))
"""
from .. import an
from .. import select as SEL
from .. import chain as CH
from .. import guard as G
from .. import spec as S
from ..guard import N, cn, arg
from . import c02

FH = "multiboot2_header::header::Multiboot2Header::<'_>::find_header"
WINDOW = 8192


def call(t, name):
    if isinstance(t, tuple) and t and t[0] == "call" and cn(t[1]) == name:
        return t[2]
    return None


def range_(t, kind):
    if isinstance(t, tuple) and t[0] == "aggr" and t[1][0] == "adt" and t[1][1] == "core::ops::range::" + kind:
        return t[2]
    return None


def err_of(t):
    return CH.describe(("aggr", ("adt", "core::result::Result", "Err", ()), (t,)))[1]


def run(ctx):
    F = ctx.F()
    inst = F.insts.get(FH)
    if inst is None:
        ctx.fail("ANCHOR", "find_header", "Multiboot2Header::find_header exists", "", "missing")
        return ctx.finish("other", "anchor missing", [], "")
    A = an.of(F, inst)
    buf = arg(1)
    # ---- W: window / scan structure (found from the position() call)
    pos = win = clo = None
    for bb, t in A.body.calls():
        v = N(A.tb.call_value(t, bb))
        a = call(v, "core::iter::traits::iterator::Iterator::position") or call(v, "<core::slice::iter::Windows as core::iter::traits::iterator::Iterator>::position")
        if a is None and v[0] == "call" and str(v[1]).endswith("}>") and "Iterator>::position" in str(v[1]):
            a = v[2]
        if a is not None:
            pos, it, clo = v, a[0], a[1]
            w = call(it[1] if it[0] == "ref" else it, "core::slice::windows")
            if w is not None:
                win = w
    ok_w = False
    how = "position() over windows() not found"
    if win is not None:
        scanned, size = win[0], win[1]
        idx = call(scanned, "core::slice::index::index")
        rg = range_(idx[1], "RangeTo") if idx else None
        end = rg[0] if rg else None
        ok_w = (idx is not None and idx[0] == buf and size == ("c", 4) and end is not None and end[0] == "min"
                and {end[1], end[2]} == {("len", buf), ("c", WINDOW)})
        how = "scans %s" % G.show(scanned)
    ctx.check(ok_w, "W", "window", "the scan runs over buffer[..min(buffer.len(), 8192)] with windows(4) and Iterator::position",
              A.site(), how=how, why=how)
    # closure predicate
    ok_c = False
    howc = "closure not found"
    if clo is not None and clo[0] == "aggr" and clo[1][0] == "closure":
        ck = [k for k in F.insts if k.startswith(FH) and "{closure#" in k]
        if len(ck) == 1:
            C = an.of(F, F.insts[ck[0]])
            rt, _ = C.ret()
            howc = G.show(rt)
            if rt is not None:
                n = N(rt)
                if n[0] == "bin" and n[1] == "Eq":
                    for (x, y) in ((n[2], n[3]), (n[3], n[2])):
                        if y == ("c", S.HEADER_MAGIC) and x[0] == "from_bytes" and x[1] == "from_le_bytes" and x[3] == "u32":
                            src = x[2]
                            if src[0] == "unwrap" and src[1][0] == "call" and "TryFrom<&[u8]> for [u8; 4]" in str(src[1][1]) and src[1][2][0] == arg(2):
                                ok_c = True
    ctx.check(ok_c, "W", "predicate", "the scan predicate is u32::from_le_bytes(window) == 0xE85250D6", A.site(), how=howc, why=howc)
    # ---- P
    def allow(s):
        if "find_header::{closure#0}" in s.key() and s.kind == "maypanic" and s.what == "Result::unwrap" and ok_w and ok_c:
            return ("the closure is passed only to position() over windows(4), whose items have exactly 4 bytes (std contract): "
                    "<[u8; 4]>::try_from cannot fail")
        return None
    c02.panic_free(ctx, F, [FH], "P", "find_header", allow=allow)
    # ---- X: exits
    ex = CH.exits(A)
    ctx.check(len(ex) == 6, "X", "exits", "find_header has exactly six exits", A.site(), how=str(len(ex)), why=str(ex))
    if len(ex) == 6 and pos is not None:
        IDX = ("fld", ("dc", pos, 1), 0)
        e0, e1, e2 = ex[0], ex[1], ex[2]
        rest = ex[3:]
        g0 = e0.kind == "Err" and e0.variant == "Memory::WrongAlignment" and [N(f) for f in e0.own] == [("cmp", "Ne", ("align_offset", ("asptr", buf), ("c", 8)), ("c", 0))]
        ctx.check(g0, "X", "0:buffer-misaligned", "a buffer that is not 8-aligned is rejected first with Err(WrongAlignment)", A.site(e0.bb),
                  how=str(e0), why=str(e0))
        g1 = e1.kind == "Ok" and e1.variant == "None" and CH.own_is_variant(e1, pos, 0) and CH.precedes(e0, e1)
        ctx.check(g1, "X", "1:none", "Ok(None) is returned exactly when position() finds no window equal to the magic", A.site(e1.bb),
                  how="own guard discr(position(..)) == None", why=str(e1))
        # i % 8 != 0, also spelled i & 7 != 0
        want2 = [("cmp", "Ne", ("bin", "Rem", IDX, ("c", 8)), ("c", 0)), ("cmp", "Ne", ("bin", "BitAnd", IDX, ("c", 7)), ("c", 0))]
        g2 = e2.kind == "Err" and e2.variant == "Memory::WrongAlignment" and len(e2.own) == 1 and N(e2.own[0]) in want2 and CH.precedes(e1, e2)
        ctx.check(g2, "X", "2:index-misaligned", "a first occurrence at i with i % 8 != 0 yields Err(WrongAlignment)", A.site(e2.bb),
                  how="own guard i % 8 != 0 with i the payload of position()", why=str(e2)[:400])
        errs = [e for e in rest if e.kind == "Err"]
        oks = [e for e in rest if e.kind == "Ok"]
        g3 = g4 = g5 = False
        empty = lambda t: t[0] == "unsize" and t[3] == "&[u8; 0]"

        def is_from(t):
            """the bytes of the buffer from index i on: buffer.get(i..).unwrap_or(&[]) in call or spliced form, or &buffer[i..]
            (identical because position() returned i < len)"""
            t = SEL.canon_place(t)
            gf = ("call", "core::slice::<impl [u8]>::get::<core::ops::range::RangeFrom<usize>>", (buf, ("aggr", ("adt", "core::ops::range::RangeFrom", "RangeFrom", ("start",)), (IDX,))))
            if t[0] == "ite" and N(t[1]) == ("cmp", "Eq", ("discr", gf), ("c", 1)) and SEL.canon_place(N(t[2])) == CH.payload_of(gf, 1) and empty(N(t[3])):
                return True
            uo = call(t, "core::option::Option::unwrap_or")
            if uo is not None and uo[0] == gf and empty(uo[1]):
                return True
            ix = call(t, "core::slice::index::index") or (t[2] if t[0] == "call" and "Index<core::ops::range::RangeFrom<usize>>" in str(t[1]) else None)
            if ix is not None and ix[0] == buf and range_(ix[1], "RangeFrom") == (IDX,):
                return True
            return False
        FROM = None
        G812 = GLEN = None
        if len(errs) == 2 and len(oks) == 1:
            f3 = N(errs[0].own[0]) if len(errs[0].own) == 1 else None
            if f3 is not None and f3[0] == "cmp" and f3[2][0] == "discr":
                G812 = f3[2][1]
                a = call(G812, "core::slice::get")
                if a is not None and range_(a[1], "Range") == (("c", 8), ("c", 12)) and is_from(a[0]):
                    FROM = a[0]
                    g3 = CH.own_is_variant(errs[0], G812, 0) and (errs[0].variant or "").startswith("Memory::") and CH.precedes(e2, errs[0])
            f4 = N(errs[1].own[0]) if len(errs[1].own) == 1 else None
            if f4 is not None and f4[0] == "cmp" and f4[2][0] == "discr" and FROM is not None:
                GLEN = f4[2][1]
                a = call(GLEN, "core::slice::get")
                LENB = CH.payload_of(G812, 1)
                le = ("from_bytes", "from_le_bytes", ("unwrap", ("call", "core::array::<impl core::convert::TryFrom<&[u8]> for [u8; 4]>::try_from", (LENB,))), "u32")
                lens = [("unwrap", ("call", "core::convert::num::ptr_try_from_impls::<impl core::convert::TryFrom<u32> for usize>::try_from", (le,))),
                        ("cast", "IntToInt", le, "usize")]
                if a is not None and a[0] == FROM:
                    r = range_(a[1], "RangeTo")
                    g4 = r is not None and r[0] in lens and CH.own_is_variant(errs[1], GLEN, 0) and (errs[1].variant or "").startswith("Memory::") and CH.precedes(errs[0], errs[1])
            pl = N(oks[0].payload) if oks[0].payload is not None else None
            if pl is not None and pl[0] == "aggr" and pl[1][1].endswith("Option") and pl[1][2] == "Some" and GLEN is not None:
                tup = pl[2][0]
                g5 = tup[0] == "aggr" and tup[1] == ("tuple",) and tup[2][0] == CH.payload_of(GLEN, 1) and tup[2][1] == ("cast", "IntToInt", IDX, "u32") and \
                    CH.own_is_variant(oks[0], GLEN, 1) and CH.precedes(errs[1], oks[0])
        ctx.check(g3, "X", "3:length-field", "the header length is read from buffer[i..].get(8..12) (bytes i+8..i+12 of the buffer itself); if unavailable -> Err",
                  A.site(), how="buffer.get(i..).unwrap_or(&[]).get(8..12)", why=str([G.show(N(e.own[0]))[:300] for e in errs[:1] if e.own]))
        ctx.check(g4, "X", "4:truncated", "the header slice is buffer[i..].get(..len) with len the little-endian u32 just read; if it does not fit -> Err",
                  A.site(), how="from_magic.get(..u32::from_le_bytes(..) as usize)", why=str([G.show(N(e.own[0]))[:300] for e in errs[1:] if e.own]))
        ctx.check(g5, "X", "5:some", "success returns (that slice, i as u32), after all error exits", A.site(),
                  how="Some((header, i as u32))", why=str([G.show(e.val)[:300] for e in oks]))
    ctx.note("`first occurrence` and the exact iff rest on the std contracts of slice::windows (all length-4 sub-slices in order) and "
             "Iterator::position (first index whose predicate holds) - not re-proved here")
    c = F.consts.get("multiboot2_header::header::MAGIC")
    ctx.check(c is not None and c.get("v") == S.HEADER_MAGIC, "W", "MAGIC", "the compared constant is the specified header magic", (c or {}).get("span", ""),
              how="0x%x" % (c or {}).get("v", 0), why=str(c))
    return ctx.finish(
        "other",
        "Structural part of the statement: the scanned window, the scan predicate, the dominance-ordered exits with their guards and "
        "the exact slices returned, and a panic-edge census of find_header and its closure. The `first occurrence`/iff exactness is "
        "delegated to the std contracts of windows/position.",
        ["rustc MIR", "mb2rules PANIC/CHAIN/TERMS", "std: slice::windows, Iterator::position, slice::get, u32::from_le_bytes, <[u8;4]>::try_from"],
        "one obligation per panic site, per exit, per structural element of the scan",
    )
