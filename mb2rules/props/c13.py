"""C13 — searching a binary image for the header is exact and total.

The function is read as a decision list over three quantities: n = buffer.len(), i = the index the search reports, and
hl = the little-endian u32 at buffer[i+8..i+12].  Every bounds test - written with `get`, with an explicit length comparison,
or implied by an indexing that has returned - is brought to a linear constraint over (n, i, hl) by SLICE (slices.py), so the
rule does not depend on which of those spellings the code uses.

P   PANIC(find_header) = {}: every panic edge / wrapping operation in its closure is discharged by facts
W   the search: the first index i in 0.. with i + 4 <= min(n, 8192) and buffer[i..i+4] == MAGIC (little endian), or none.
    Recognised forms: windows(4).position(pred) / windows(4).enumerate().find_map(..) over buffer[..min(n, 8192)] (std
    contracts: windows yields all length-4 sub-slices in order, position / find_map stop at the first hit), and the counting
    loop `i = 0; while i + 4 <= W { if buffer[i..i+4] == MAGIC {found i}; i += 1 }` read off the CFG (one loop, one carried
    variable starting at 0 and advanced by 1 on the only back edge, left only by the guard failing or by the hit)
X   exits, by what they return and under which path condition PC (all dominating facts, normalised):
      Err(WrongAlignment) with align_offset(buffer) != 0        - before anything else
      Ok(None)            exactly on the search's `none` outcome
      Err(WrongAlignment) PC |- found, i % 8 != 0
      Err(Memory::*)      PC |- found, i % 8 == 0, i + 12 > n                       (length field unavailable)
      Err(Memory::*)      PC |- found, i % 8 == 0, i + 12 <= n, i + hl > n           (truncated)
      Ok(Some((s, i)))    PC |- found, i % 8 == 0, i + 12 <= n, i + hl <= n, and s == buffer[i..i+hl]
    Exits partition the inputs (they are the leaves of the CFG) and so do the six classes; each exit lying inside its class
    makes the two partitions equal.
"""
from .. import an
from .. import select as SEL
from .. import chain as CH
from .. import guard as G
from .. import mir as M
from .. import slices as SL
from .. import spec as S
from .. import terms as T
from ..guard import N, cn, arg
from . import c02

FH = "multiboot2_header::header::Multiboot2Header::<'_>::find_header"
WINDOW = 8192
BUF = arg(1)
NLEN = ("len", BUF)


def call(t, name):
    if isinstance(t, tuple) and t and t[0] == "call" and cn(t[1]) == name:
        return t[2]
    return None


def subterms(t, acc=None):
    acc = acc if acc is not None else []
    if isinstance(t, tuple):
        acc.append(t)
        for x in t:
            if isinstance(x, tuple):
                subterms(x, acc)
    return acc


def magic_bytes_le(t):
    """t denotes the 4 little-endian bytes of the header magic (array value, reference or slice view of it)"""
    for _ in range(5):
        if isinstance(t, tuple) and t and t[0] in ("ref", "deref", "unsize"):
            t = t[1]
        else:
            break
    if t == ("to_bytes", "to_le_bytes", ("c", S.HEADER_MAGIC), "u32"):
        return True
    le = [(S.HEADER_MAGIC >> (8 * k)) & 0xFF for k in range(4)]
    if t[0] == "aggr" and t[1] == ("array",) and [x[1] if x[0] == "c" else None for x in t[2]] == le:
        return True
    if t[0] == "cs" and len(t) > 2 and isinstance(t[2], (list, tuple)) and list(t[2]) == le:
        return True
    return False


def window_pred(pred, window):
    """pred (a boolean term or fact, SLICE-normalised) says: the 4 bytes of `window` are the little-endian magic.
    window: ("sub", B, lo, hi) or an opaque slice term"""
    p = pred
    if p[0] in ("istrue",):
        p = p[1]
    if p[0] in ("cmp", "bin") and p[1] == "Eq":
        for (x, y) in ((p[2], p[3]), (p[3], p[2])):
            if y == ("c", S.HEADER_MAGIC):
                # u32::from_le_bytes(window) == MAGIC
                if window[0] == "sub" and x == ("le32", window[1], G.canon(window[2])):
                    return True
                if x[0] == "from_bytes" and x[1] == "from_le_bytes" and x[3] == "u32":
                    src = x[2]
                    if src[0] == "unwrap" and src[1][0] == "call" and "TryFrom<&[u8]> for [u8; 4]" in str(src[1][1]) and _same_slice(src[1][2][0], window):
                        return True
        return False
    if p[0] == "call" and len(p[2]) == 2 and "PartialEq<" in str(p[1]) and (str(p[1]).endswith("::eq") or cn(p[1]).endswith("::eq")):
        for (x, y) in ((p[2][0], p[2][1]), (p[2][1], p[2][0])):
            if magic_bytes_le(y) and _same_slice(x, window):
                return True
    return False


def _same_slice(x, window):
    for _ in range(4):
        if isinstance(x, tuple) and x and x[0] in ("ref", "deref") and x != window:
            x = x[1]
        else:
            break
    w = window
    for _ in range(4):
        if isinstance(w, tuple) and w and w[0] in ("ref", "deref") and x != w:
            w = w[1]
        else:
            break
    if x == w:
        return True
    if x[0] == "sub" and w[0] == "sub":
        return x[1] == w[1] and SL.same(x[2], w[2]) and SL.same(x[3], w[3])
    return False


def is_window_len(Wt):
    """Wt == min(buffer.len(), 8192)"""
    if Wt[0] == "min" and {G.strip(Wt[1]), G.strip(Wt[2])} == {NLEN, ("c", WINDOW)}:
        return True
    if Wt[0] == "ite":
        c = T._canon_ite(("ite", Wt[1], Wt[2], Wt[3]))
        if c[0] == "min":
            return is_window_len(c)
    return False


class Search:
    def __init__(self):
        self.kind = None
        self.idx = None          # the term the rest of the function uses as the found index
        self.k = None            # window length
        self.W = None            # end of the scanned prefix (a term)
        self.base_ok = False     # the scanned slice is buffer[0..W]
        self.pred_ok = False
        self.how = ""
        self.found_block = None  # CFG form: blocks dominated by these are the outcomes
        self.none_block = None
        self.call = None         # iterator form: the position / find_map call term
        self.loop_next = None    # for-loop form: the next() term of the enumerated windows


def search_of(F, A, inst, idx_term):
    """how the index `idx_term` was found"""
    s = Search()
    s.idx = idx_term
    nm = SL.Norm([], A)
    if idx_term[0] == "fld" and idx_term[2] == 0 and idx_term[1][0] == "dc" and idx_term[1][1][0] == "call":
        C = idx_term[1][1]
        key = str(C[1])
        name = cn(C[1])
        args = C[2]
        s.call = C
        it = clo = None
        if ("Iterator>::position" in key or name.endswith("Iterator::position")) and len(args) == 2:
            s.kind = "windows(k).position(pred)"
            it, clo = args
            it = it[1] if it[0] == "ref" else it
            enum = False
        elif ("Iterator>::find_map" in key or name.endswith("Iterator::find_map")) and len(args) == 2:
            s.kind = "windows(k).enumerate().find_map(pred -> index)"
            it, clo = args
            it = it[1] if it[0] == "ref" else it
            e = it if it[0] == "call" and ("Iterator>::enumerate" in str(it[1]) or cn(it[1]).endswith("Iterator::enumerate")) and len(it[2]) == 1 else None
            if e is None:
                s.how = "find_map over %s" % G.show(it)[:80]
                return s
            it = e[2][0]
            enum = True
        else:
            s.how = "index comes from %s" % name[:80]
            return s
        w = call(it, "core::slice::windows")
        if w is None:
            s.how = "iterator %s is not slice::windows" % G.show(it)[:80]
            return s
        scanned = nm.unref(nm.norm(w[0]))
        size = nm.norm(w[1])
        B, lo, hi = SL.as_sub(scanned)
        s.k = size[1] if size[0] == "c" else None
        s.base_ok = B == BUF and lo == ("c", 0)
        s.W = hi
        cf = SEL.closure_fn(F, clo, inst)
        if cf is not None:
            C2 = an.of(F, cf)
            rt, _ = C2.ret()
            if (rt is None or N(rt)[0] == "opq") and enum:
                # `pred.then_some(idx)` / `if pred { Some(idx) } else { None }` written with two returns: rebuild the choice
                exs = CH.exits(C2)
                so = [e_ for e_ in exs if e_.kind == "Some"]
                no = [e_ for e_ in exs if e_.kind == "None"]
                if len(exs) == 2 and len(so) == 1 and len(no) == 1 and len(so[0].own) == 1:
                    rt = ("ite", so[0].own[0], so[0].val, no[0].val)
            if rt is not None:
                r = SL.Norm([], C2).norm(SEL._bind_captures(N(rt), clo))
                if not enum:
                    s.pred_ok = window_pred(r, arg(2)) or window_pred(r, ("deref", arg(2)))
                    s.how = "closure: %s" % G.show(r)[:160]
                else:
                    # |(idx, window)| if pred(window) { Some(idx) } else { None }
                    win, ix = ("fld", arg(2), 1), ("fld", arg(2), 0)
                    if r[0] == "ite" and r[2][0] == "aggr" and r[2][1][:3] == SL.SOME[:3] and r[3][0] == "aggr" and r[3][1][:3] == SL.NONE[:3] and r[2][2][0] == ix:
                        s.pred_ok = window_pred(r[1], win)
                    s.how = "closure: %s" % G.show(r)[:160]
        return s
    if idx_term[0] == "opq" and len(idx_term) > 3 and idx_term[1] == "phi" and not idx_term[3]:
        return counting_search(F, A, idx_term, s)
    if idx_term[0] == "fld" and idx_term[2] == 0 and idx_term[1][0] == "fld" and idx_term[1][2] == 0 and idx_term[1][1][0] == "dc" and \
            idx_term[1][1][2] == 1 and idx_term[1][1][1][0] == "call" and "Iterator>::next" in str(idx_term[1][1][1][1]):
        return enum_loop_search(F, A, idx_term, s)
    s.how = "index term %s" % G.show(idx_term)[:100]
    return s


def enum_loop_search(F, A, idx_term, s):
    """for (i, w) in buffer[..W].windows(k).enumerate() { if hit(w) { <leave with i> } } <none>: one loop around one `next()` of the
    enumerated windows (std contract: the items are (0, w0), (1, w1), .. with w_i = scanned[i..i+k], i + k <= len), left only by
    `next()` answering None and by the hit test succeeding"""
    b = A.body
    NX = idx_term[1][1][1]
    s.kind = "for (i, w) in windows(k).enumerate(), leaving at the first hit"
    site = [(bb, t) for bb, t in b.calls() if N(A.tb.call_value(t, bb)) == NX]
    if len(site) != 1:
        s.how = "%d calls evaluate to the next() term" % len(site)
        return s
    nbb, nt = site[0]
    loops = [(t, h) for (t, h) in b.back_edges() if nbb in b.loop_blocks(h, t)]
    heads = {h for (_, h) in loops}
    if len(heads) != 1:
        s.how = "next() lies in %d loops" % len(heads)
        return s
    head = next(iter(heads))
    blocks = set()
    for (t, h) in loops:
        blocks |= b.loop_blocks(h, t)
    nexts = [bb for bb, t in b.calls() if bb in blocks and "Iterator>::next" in str(M_callee(t))]
    if len(nexts) != 1:
        s.how = "%d next() calls in the loop" % len(nexts)
        return s
    itr = NX[2][0]
    itr = itr[1] if itr[0] == "ref" else itr
    itr = an.loop_entry_value(A, itr, head, blocks)
    for _ in range(3):
        if itr[0] == "call" and len(itr[2]) == 1 and "IntoIterator" in str(itr[1]):
            itr = itr[2][0]
    if not (itr[0] == "call" and ("Iterator>::enumerate" in str(itr[1]) or cn(itr[1]).endswith("Iterator::enumerate")) and len(itr[2]) == 1):
        s.how = "the loop walks %s, not an enumerate()" % G.show(itr)[:80]
        return s
    w = call(itr[2][0], "core::slice::windows")
    if w is None:
        s.how = "enumerate() of %s, not of slice::windows" % G.show(itr[2][0])[:80]
        return s
    nm = SL.Norm([], A)
    scanned = nm.unref(nm.norm(w[0]))
    size = nm.norm(w[1])
    B, lo, hi = SL.as_sub(scanned)
    s.k = size[1] if size[0] == "c" else None
    s.base_ok = B == BUF and lo == ("c", 0)
    s.W = hi
    # ways out of the loop that can return
    exits = []
    for x in sorted(blocks):
        for (y, lab) in b.succ[x]:
            if y not in blocks and not b.diverges(y):
                exits.append((x, y, lab))
    none_e, found_e = [], []
    win = ("fld", ("fld", ("dc", NX, 1), 0), 1)
    how = []
    for (x, y, lab) in exits:
        c = A.g.edge_condition(x, y, lab)
        cn_ = N(c) if c is not None else None
        if cn_ is not None and cn_[0] == "cmp" and cn_[2] == ("discr", NX) and ((cn_[1] == "Eq" and cn_[3] == ("c", 0)) or (cn_[1] == "Ne" and cn_[3] == ("c", 1))):
            none_e.append((x, y, lab))
            continue
        fs = SL.norm_facts([N(f) for f in A.g.edge_facts(x, y, lab)], A)
        hit = False
        for f in fs:
            if window_pred(f, win) or window_pred(f, ("deref", win)):
                hit = True
            for z in subterms(f):
                if z and z[0] == "call" and "PartialEq<" in str(z[1]) and (window_pred(z, win) or window_pred(z, ("deref", win))):
                    hit = True
        how.append([G.show(f)[:100] for f in fs])
        if hit:
            found_e.append((x, y, lab))
    if len(exits) != 2 or len(none_e) != 1 or len(found_e) != 1:
        s.how = "the loop is left by %s (expected: next() == None, and the hit test on the window): %s" % ([(x, y) for (x, y, _) in exits], how)
        return s
    s.none_block, s.found_block = none_e[0][1], found_e[0][1]
    s.pred_ok = True
    s.loop_next = NX
    s.how = "items of enumerate(windows(%s)) over buffer[..%s]; left on None or on the hit %s" % (s.k, G.show(s.W)[:60], how[:1])
    return s


def M_callee(t):
    from .. import mir as M_
    return (M_.callee_path(t) or "") + str(M_.callee_key(t))


def counting_search(F, A, phi, s):
    """i = 0; loop { if !(i + k <= W) {none}; if buffer[i..i+k] == MAGIC {found}; i += 1 }"""
    b = A.body
    L = phi[2]
    s.kind = "counting loop"
    defs = [d for d in A.tb.defs.get(L, []) if not d[3]]
    if len(defs) != 2 or any(d[0] != "stmt" for d in defs):
        s.how = "the index variable has %d definitions" % len(defs)
        return s
    vals = []
    for d in defs:
        st = b.stmts(d[1])[d[2]]
        vals.append((d, N(A.tb.rvalue(st["rv"], (d[1], d[2]), st))))
    init = [d for d, v in vals if v == ("c", 0)]
    upd = [d for d, v in vals if v[0] == "bin" and v[1] == "Add" and {v[2], v[3]} == {N(phi), ("c", 1)}]
    if len(init) != 1 or len(upd) != 1:
        s.how = "index variable is not `0, then += 1`: %s" % [G.show(v)[:60] for _, v in vals]
        return s
    ub = upd[0][1]
    loops = [(t, h) for (t, h) in b.back_edges() if ub in b.loop_blocks(h, t)]
    heads = {h for (_, h) in loops}
    if len(heads) != 1:
        s.how = "the increment lies in %d loops" % len(heads)
        return s
    head = next(iter(heads))
    blocks = set()
    for (t, h) in loops:
        blocks |= b.loop_blocks(h, t)
    if init[0][1] in blocks or not b.dominates(init[0][1], head):
        s.how = "the index is not initialised before the loop"
        return s
    if not all(b.dominates(ub, t) for (t, h) in loops):
        s.how = "a back edge bypasses the increment"
        return s
    # the two branches between the loop head and the increment: the continue-guard and the (negated) hit test
    sw = [(d, t_, lab) for (d, t_, lab) in A.g.dominating_edges(ub) if d in blocks and b.term(d)["k"] == "switch"]
    if len(sw) != 2:
        s.how = "%d branches between the loop head and the increment (expected the bound test and the comparison)" % len(sw)
        return s
    if not b.dominates(sw[0][0], sw[1][0]):
        sw.reverse()
    (d1, t1, l1), (d2, t2, l2) = sw
    # every other way out of the loop that can return
    exits = []
    for x in sorted(blocks):
        for (y, lab) in b.succ[x]:
            if y not in blocks and not b.diverges(y):
                exits.append((x, y, lab))
    none_e = [e for e in exits if e[0] == d1]
    found_e = [e for e in exits if e[0] == d2]
    if len(exits) != 2 or len(none_e) != 1 or len(found_e) != 1:
        s.how = "the loop is left by %s (expected: the bound test failing, and the hit)" % [(x, y) for (x, y, _) in exits]
        return s
    s.none_block, s.found_block = none_e[0][1], found_e[0][1]
    base = [N(f) for f in A.g.facts_at(d1)]
    g = SL.norm_facts([N(f) for f in A.g.edge_facts(d1, t1, l1)], A)
    g = [f for f in g if f[0] == "cmp"]
    # guard: i + k <= W   (an `i <= i + k` conjunct of a get(i..i+k) is trivial)
    bound = None
    for f in g:
        try:
            lf = G.lin(f[2]).add(G.lin(f[3]), -1)      # a - b
        except Exception:
            continue
        op = f[1]
        if op in ("Ge", "Gt"):
            lf, op = lf.scale(-1), {"Ge": "Le", "Gt": "Lt"}[op]
        if op not in ("Le", "Lt"):
            continue
        if lf.m.get(N(phi)) == 1 and len(lf.m) >= 2:
            k = lf.c + (1 if op == "Lt" else 0)
            rest = {a_: c_ for a_, c_ in lf.m.items() if a_ != N(phi)}
            if len(rest) == 1 and list(rest.values()) == [-1]:
                bound = (k, next(iter(rest)))
    if bound is None:
        s.how = "continue-guard %s is not `i + k <= W`" % [G.show(f)[:80] for f in g]
        return s
    s.k, s.W = bound
    s.base_ok = True
    # hit test: on the found edge the comparison is true
    fnd = SL.norm_facts([N(f) for f in A.g.edge_facts(found_e[0][0], found_e[0][1], found_e[0][2])], A)
    nmz = SL.Norm(g + base, A)
    window = ("sub", BUF, N(phi), SL.add(N(phi), ("c", s.k)))
    ok = False
    for f in fnd:
        for x in subterms(f):
            if x and x[0] == "call" and "PartialEq<" in str(x[1]):
                xs = ("call", x[1], tuple(nmz.unref(nmz.norm(a_)) for a_ in x[2]))
                if window_pred(xs, window):
                    ok = True
        if window_pred(f, window):
            ok = True
    s.pred_ok = ok
    s.how = "i from 0 by 1; continue while i + %s <= %s; hit test %s" % (s.k, G.show(s.W)[:60], [G.show(f)[:100] for f in fnd])
    return s


def run(ctx):
    F = ctx.F()
    inst = F.insts.get(FH)
    if inst is None:
        ctx.fail("ANCHOR", "find_header", "Multiboot2Header::find_header exists", "", "missing")
        return ctx.finish("other", "anchor missing", [], "")
    A = an.of(F, inst)
    b = A.body
    ex = CH.exits(A)
    # ---- the success exit names the index
    oks = [e for e in ex if e.kind == "Ok" and e.variant != "None" and e.payload is not None and N(e.payload)[0] == "aggr" and N(e.payload)[1][:3] == SL.SOME[:3]]
    IDX = None
    if len(oks) >= 1:
        pl = N(oks[0].payload)
        tup = pl[2][0]
        if tup[0] == "aggr" and tup[1] == ("tuple",) and len(tup[2]) == 2:
            c = tup[2][1]
            IDX = c[2] if c[0] == "cast" and c[1] == "IntToInt" and c[3] == "u32" else None
            if IDX is None and c[0] in ("unwrap", "expect") and c[1][0] == "call" and "TryFrom<usize> for u32" in str(c[1][1]) and len(c[1][2]) == 1:
                IDX = c[1][2][0]          # `u32::try_from(i).expect(..)`: the same number where it returns (its panic site is P's)
    if IDX is None:
        ctx.fail("X", "5:some", "success returns (header slice, i as u32) with i the index the search found", A.site(), "no exit of that shape: %s" % ex)
        sr = Search()
    else:
        sr = search_of(F, A, inst, IDX)
    # ---- W
    ok_w = sr.base_ok and sr.k == 4 and sr.W is not None and is_window_len(sr.W)
    ctx.check(ok_w, "W", "window", "the search covers exactly the 4-byte windows of buffer[..min(buffer.len(), 8192)], from index 0 upwards, stopping at the first hit",
              A.site(), how="%s over buffer[..%s]" % (sr.kind, G.show(sr.W)[:60] if sr.W else "?"),
              why="form=%s base=buffer[0..]:%s k=%s W=%s (%s)" % (sr.kind, sr.base_ok, sr.k, G.show(sr.W)[:80] if sr.W else None, sr.how[:300]))
    ctx.check(sr.pred_ok, "W", "predicate", "a window is a hit iff its 4 bytes are the little-endian header magic 0xE85250D6", A.site(), how=sr.how[:300], why=sr.how[:400])

    if sr.call is not None and sr.pred_ok and ok_w:
        # the closure answers Some(enumerate index) exactly for an accepted window (checked above), so the payload of
        # find_map's answer is an index of windows(k): i + k <= len of the scanned slice.  PANIC's discharges may use it.
        raw_call = None
        for bb_, t_ in b.calls():
            v_ = A.tb.call_value(t_, bb_)
            if N(v_) == sr.call:
                raw_call = v_
        if raw_call is not None:
            def hook(dt, is_some, raw_call=raw_call):
                if is_some and dt[1] == raw_call:
                    idx_raw = A.tb.project(raw_call, [("dc", 1, "Some"), ("f", 0, "0", "usize")])
                    # the scanned slice was shown to be buffer[..min(len, 8192)] (W:window)
                    raw_buf = ("arg", 1, b.local_ty(1))
                    return [("cmp", "Le", ("bin", "Add", idx_raw, T.C(sr.k), "usize"), ("min", ("len", raw_buf), T.C(WINDOW)))]
                return []
            A.g.add_fact_hook(hook)
            from .. import panic as P_
            if hasattr(P_, "_sites_cache"):
                P_._sites_cache.clear()
    if sr.loop_next is not None and sr.pred_ok and ok_w:
        # for-loop form: the item next() answered is (i, w) of enumerate(windows(k)) over buffer[..W] (checked above), so
        # i + k <= min(len, 8192) wherever that answer is Some.  PANIC's discharges may use it.
        raw_nx = None
        for bb_, t_ in b.calls():
            v_ = A.tb.call_value(t_, bb_)
            if N(v_) == sr.loop_next:
                raw_nx = v_
        raw_idx = next((x for x in subterms(oks[0].payload) if isinstance(x, tuple) and x and x[0] == "fld" and N(x) == IDX), None)
        if raw_nx is not None and raw_idx is not None:
            def hook2(dt, is_some, raw_nx=raw_nx, raw_idx=raw_idx):
                if is_some and dt[1] == raw_nx:
                    raw_buf = ("arg", 1, b.local_ty(1))
                    return [("cmp", "Le", ("bin", "Add", raw_idx, T.C(sr.k), "usize"), ("min", ("len", raw_buf), T.C(WINDOW)))]
                return []
            A.g.add_fact_hook(hook2)
            from .. import panic as P_
            if hasattr(P_, "_sites_cache"):
                P_._sites_cache.clear()
    # ---- P
    def allow(s_):
        if sr.loop_next is not None and s_.kind == "maypanic" and s_.what == "Result::unwrap" and ok_w and sr.pred_ok and sr.k == 4 and len(s_.terms) == 1:
            t_ = N(s_.terms[0])
            win_ = ("fld", ("fld", ("dc", sr.loop_next, 1), 0), 1)
            if t_[0] == "call" and "TryFrom" in str(t_[1]) and len(t_[2]) == 1 and SL.Norm([], A).unref(t_[2][0]) in (win_, ("deref", win_)):
                return ("the converted slice is the window of an item of windows(4).enumerate() (W:window), which has exactly 4 bytes "
                        "(std contract): <[u8; 4]>::try_from cannot fail")
        if "{closure#" in s_.key() and s_.kind == "maypanic" and s_.what == "Result::unwrap" and ok_w and sr.pred_ok and sr.call is not None:
            return ("the closure is passed only to position() over windows(4), whose items have exactly 4 bytes (std contract): "
                    "<[u8; 4]>::try_from cannot fail")
        return None
    c02.panic_free(ctx, F, [FH], "P", "find_header", allow=allow)
    # ---- X
    def found(e):
        if sr.call is not None:
            return CH.guarded_by_variant([N(f) for f in e.facts], sr.call, 1)
        return sr.found_block is not None and b.dominates(sr.found_block, e.bb)

    def none(e):
        if sr.call is not None:
            return CH.guarded_by_variant([N(f) for f in e.facts], sr.call, 0)
        return sr.none_block is not None and b.dominates(sr.none_block, e.bb)
    iN = SL.Norm([], A).norm(N(IDX)) if IDX is not None else ("opq", "no index")
    HL = ("le32", BUF, G.canon(SL.add(iN, ("c", 8))))
    mis_buf = ("cmp", "Ne", ("align_offset", ("asptr", BUF), ("c", 8)), ("c", 0))
    al_buf = ("cmp", "Eq", ("align_offset", ("asptr", BUF), ("c", 8)), ("c", 0))
    rem = [("bin", "Rem", iN, ("c", 8)), ("bin", "BitAnd", iN, ("c", 7))]
    classes = {k_: [] for k_ in ("0:buffer-misaligned", "1:none", "2:index-misaligned", "3:length-field", "4:truncated", "5:some")}
    stray = []

    def pc_of(e):
        fs = [N(f) for f in e.facts]
        if found(e) and sr.k is not None and sr.W is not None:
            # std contract of position / find_map over windows(k) (iterator form); the loop form carries it as its guard
            fs.append(("cmp", "Le", SL.add(iN, ("c", sr.k)), sr.W))
        return SL.norm_facts(fs, A)

    def ent(pc, need):
        """PC |- need, splitting on the disjunctive facts of PC"""
        plain = [f for f in pc if f[0] != "or"]
        ors = [f for f in pc if f[0] == "or"]
        if G.entails(plain, need) is not None or need in plain:
            return True
        for o in ors[:4]:
            alts = []
            for conj in o[1]:
                feasible = not any(c_[0] == "cmp" and G.entails(plain, G.negate(c_)) is not None for c_ in conj)
                if feasible:
                    alts.append(conj)
            if alts and all(G.entails(plain + [c_ for c_ in conj if c_[0] == "cmp"], need) is not None for conj in alts):
                return True
        return False

    def aligned(pc, want):
        for r in rem:
            if ent(pc, ("cmp", "Eq" if want else "Ne", r, ("c", 0))) or ("cmp", "Eq" if want else "Ne", r, ("c", 0)) in pc:
                return True
        return False
    unreachable = []
    for e in ex:
        pc = pc_of(e)
        if ("const", False) in pc or G.entails([f for f in pc if f[0] == "cmp"], ("cmp", "Le", ("c", 1), ("c", 0))) is not None:
            # the path condition contradicts itself (e.g. the `_` arm of a slice pattern over a 4-byte slice): no input takes it
            unreachable.append(e)
            continue
        if e.kind == "Err" and e.variant == "Memory::WrongAlignment" and not found(e) and not none(e):
            good = mis_buf in pc and len(e.facts) <= 2
            classes["0:buffer-misaligned"].append((e, good, "own guard align_offset(buffer, 8) != 0, first test of the function"))
        elif e.kind == "Ok" and e.variant == "None":
            good = none(e) and al_buf in pc
            classes["1:none"].append((e, good, "taken on the search's `none` outcome only"))
        elif e.kind == "Err" and e.variant == "Memory::WrongAlignment":
            good = found(e) and al_buf in pc and aligned(pc, False)
            classes["2:index-misaligned"].append((e, good, "PC |- found, i % 8 != 0"))
        elif e.kind == "Err" and (e.variant or "").startswith("Memory::"):
            base_ok = found(e) and al_buf in pc and aligned(pc, True)
            short = ent(pc, ("cmp", "Gt", SL.add(iN, ("c", 12)), NLEN))
            if base_ok and short:
                classes["3:length-field"].append((e, True, "PC |- found, i % 8 == 0, i + 12 > len"))
            else:
                fits12 = ent(pc, ("cmp", "Le", SL.add(iN, ("c", 12)), NLEN))
                trunc = ent(pc, ("cmp", "Gt", SL.add(iN, HL), NLEN))
                good = base_ok and fits12 and trunc
                classes["4:truncated" if (fits12 or trunc) else "3:length-field"].append(
                    (e, good, "PC |- found, i %% 8 == 0, i + 12 <= len, i + hl > len (fits12=%s truncated=%s)" % (fits12, trunc)))
        elif e.kind == "Ok":
            pl = SL.Norm([f for f in pc if f[0] == "cmp"], A).norm(N(e.payload)) if e.payload is not None else None
            good = False
            why = "payload %s" % (G.show(pl)[:200] if pl is not None else None)
            if pl is not None and pl[0] == "aggr" and pl[1][:3] == SL.SOME[:3] and pl[2][0][0] == "aggr" and pl[2][0][1] == ("tuple",):
                sl_, ix = pl[2][0][2]
                sl_ = SL.Norm([f for f in pc if f[0] == "cmp"], A).unref(sl_)
                Bs, lo, hi = SL.as_sub(sl_)
                slice_ok = sl_[0] == "sub" and Bs == BUF and SL.same(lo, iN) and SL.same(hi, SL.add(iN, HL))
                idx_ok = ix == ("cast", "IntToInt", iN, "u32") or \
                    (ix[0] in ("unwrap", "expect") and ix[1][0] == "call" and "TryFrom<usize> for u32" in str(ix[1][1]) and ix[1][2] == (iN,))
                conds = found(e) and al_buf in pc and aligned(pc, True) and ent(pc, ("cmp", "Le", SL.add(iN, ("c", 12)), NLEN)) and \
                    ent(pc, ("cmp", "Le", SL.add(iN, HL), NLEN))
                good = slice_ok and idx_ok and conds
                why = "slice == buffer[i..i+hl]: %s; index == i as u32: %s; PC |- found, aligned, i + 12 <= len, i + hl <= len: %s" % (slice_ok, idx_ok, conds)
            classes["5:some"].append((e, good, why))
        else:
            stray.append(e)
    if unreachable:
        ctx.note("%d exit(s) have a contradictory path condition and are taken by no input: %s" % (len(unreachable), [str(e)[:80] for e in unreachable]))
    ctx.check(not stray, "X", "exits", "every exit of find_header is one of the six outcomes of the statement", A.site(), how="%d exits" % len(ex), why=str(stray))
    texts = {
        "0:buffer-misaligned": "a buffer that is not 8-aligned is rejected first with Err(WrongAlignment)",
        "1:none": "Ok(None) is returned exactly when the search finds no window equal to the magic",
        "2:index-misaligned": "a first occurrence at i with i % 8 != 0 yields Err(WrongAlignment)",
        "3:length-field": "if the length field buffer[i+8..i+12] is not inside the buffer -> Err",
        "4:truncated": "the header length is the little-endian u32 at buffer[i+8..i+12]; if buffer[i..i+len] does not fit -> Err",
        "5:some": "success returns (buffer[i..i+len], i as u32), under all the preceding tests",
    }
    for k_, lst in classes.items():
        ok = bool(lst) and all(g for (_, g, _) in lst)
        ctx.check(ok, "X", k_, texts[k_], A.site(lst[0][0].bb) if lst else A.site(),
                  how="; ".join(sorted({h for (_, _, h) in lst}))[:300],
                  why="%d exits of this kind; %s" % (len(lst), [(str(e)[:120], g, h[:200]) for (e, g, h) in lst if not g][:3]))
    ctx.note("`first occurrence` for the iterator forms rests on the std contracts of slice::windows (all length-4 sub-slices in order) and "
             "Iterator::position / find_map (first item whose predicate holds) - not re-proved here; for the loop form it is read off the CFG")
    c = F.consts.get("multiboot2_header::header::MAGIC")
    ctx.check(c is not None and c.get("v") == S.HEADER_MAGIC, "W", "MAGIC", "the compared constant is the specified header magic", (c or {}).get("span", ""),
              how="0x%x" % (c or {}).get("v", 0), why=str(c))
    return ctx.finish(
        "other",
        "Structural part of the statement: the scanned window, the scan predicate, every exit with its path condition brought to "
        "linear constraints over (len, i, stored length) and compared with the statement's decision list, the exact slice returned, "
        "and a panic-edge census of find_header and its closure. For the iterator forms the `first occurrence`/iff exactness is "
        "delegated to the std contracts of windows/position/find_map.",
        ["rustc MIR", "mb2rules PANIC/CHAIN/TERMS/SLICE", "std: slice::windows, Iterator::position, slice::get, u32::from_le_bytes, <[u8;4]>::try_from"],
        "one obligation per panic site, per outcome class, per structural element of the scan",
    )
