"""C13 — searching a binary image for the header is exact and total.

P   PANIC(find_header) = {}: slice accesses are get()-based or bounded by min(len, 8192)
W   the scanned window is buffer[..min(len, 8192)], scanned with windows(4) and position() (std: first index)
    whose predicate is u32::from_le_bytes(window) == MAGIC
X   exits in dominance order: misaligned buffer -> Err(WrongAlignment); no match -> Ok(None); i % 8 != 0 ->
    Err(WrongAlignment); length field (LE u32 at buffer[i+8..i+12]) unavailable -> Err; range [i, i+len) not in
    the buffer -> Err; else Ok(Some((buffer[i..][..len], i as u32)))
"""
from .. import an
from .. import chain as CH
from .. import guard as G
from .. import spec as S
from ..guard import N, cn, arg
from . import c02

FH = "multiboot2_header::header::Multiboot2Header::<'_>::find_header"
WINDOW = 8192


def call(t, name):
    if isinstance(t, tuple) and t and t[0] == "call" and cn(t[1]) == name:
        return t[2]
    return None


def range_(t, kind):
    if isinstance(t, tuple) and t[0] == "aggr" and t[1][0] == "adt" and t[1][1] == "core::ops::range::" + kind:
        return t[2]
    return None


def err_of(t):
    return CH.describe(("aggr", ("adt", "core::result::Result", "Err", ()), (t,)))[1]


def run(ctx):
    F = ctx.F()
    inst = F.insts.get(FH)
    if inst is None:
        ctx.fail("ANCHOR", "find_header", "Multiboot2Header::find_header exists", "", "missing")
        return ctx.finish("other", "anchor missing", [], "")
    A = an.of(F, inst)
    buf = arg(1)
    # ---- W: window / scan structure (found from the position() call)
    pos = win = clo = None
    for bb, t in A.body.calls():
        v = N(A.tb.call_value(t, bb))
        a = call(v, "core::iter::traits::iterator::Iterator::position") or call(v, "<core::slice::iter::Windows as core::iter::traits::iterator::Iterator>::position")
        if a is None and v[0] == "call" and str(v[1]).endswith("}>") and "Iterator>::position" in str(v[1]):
            a = v[2]
        if a is not None:
            pos, it, clo = v, a[0], a[1]
            w = call(it[1] if it[0] == "ref" else it, "core::slice::windows")
            if w is not None:
                win = w
    ok_w = False
    how = "position() over windows() not found"
    if win is not None:
        scanned, size = win[0], win[1]
        idx = call(scanned, "core::slice::index::index")
        rg = range_(idx[1], "RangeTo") if idx else None
        end = rg[0] if rg else None
        ok_w = (idx is not None and idx[0] == buf and size == ("c", 4) and end is not None and end[0] == "min"
                and {end[1], end[2]} == {("len", buf), ("c", WINDOW)})
        how = "scans %s" % G.show(scanned)
    ctx.check(ok_w, "W", "window", "the scan runs over buffer[..min(buffer.len(), 8192)] with windows(4) and Iterator::position",
              A.site(), how=how, why=how)
    # closure predicate
    ok_c = False
    howc = "closure not found"
    if clo is not None and clo[0] == "aggr" and clo[1][0] == "closure":
        ck = [k for k in F.insts if k.startswith(FH) and "{closure#" in k]
        if len(ck) == 1:
            C = an.of(F, F.insts[ck[0]])
            rt, _ = C.ret()
            howc = G.show(rt)
            if rt is not None:
                n = N(rt)
                if n[0] == "bin" and n[1] == "Eq":
                    for (x, y) in ((n[2], n[3]), (n[3], n[2])):
                        if y == ("c", S.HEADER_MAGIC) and x[0] == "from_bytes" and x[1] == "from_le_bytes" and x[3] == "u32":
                            src = x[2]
                            if src[0] == "unwrap" and src[1][0] == "call" and "TryFrom<&[u8]> for [u8; 4]" in str(src[1][1]) and src[1][2][0] == arg(2):
                                ok_c = True
    ctx.check(ok_c, "W", "predicate", "the scan predicate is u32::from_le_bytes(window) == 0xE85250D6", A.site(), how=howc, why=howc)
    # ---- P
    def allow(s):
        if "find_header::{closure#0}" in s.key() and s.kind == "maypanic" and s.what == "Result::unwrap" and ok_w and ok_c:
            return ("the closure is passed only to position() over windows(4), whose items have exactly 4 bytes (std contract): "
                    "<[u8; 4]>::try_from cannot fail")
        return None
    c02.panic_free(ctx, F, [FH], "P", "find_header", allow=allow)
    # ---- X: exits
    ex = CH.exits(A)
    ctx.check(len(ex) == 6, "X", "exits", "find_header has exactly six exits", A.site(), how=str(len(ex)), why=str(ex))
    if len(ex) == 6 and pos is not None:
        IDX = ("fld", ("dc", pos, 1), 0)
        e0, e1, e2, e3, e4, e5 = ex[0], ex[1], ex[2], None, None, None
        rest = ex[3:]
        g0 = e0.kind == "Err" and e0.variant == "Memory::WrongAlignment" and [N(f) for f in e0.own] == [("cmp", "Ne", ("align_offset", ("asptr", buf), ("c", 8)), ("c", 0))]
        ctx.check(g0, "X", "0:buffer-misaligned", "a buffer that is not 8-aligned is rejected first with Err(WrongAlignment)", A.site(e0.bb),
                  how=str(e0), why=str(e0))
        g1 = e1.kind == "Ok" and e1.variant == "None" and [N(f) for f in e1.own] == [("cmp", "Eq", ("discr", pos), ("c", 0))] and CH.precedes(e0, e1)
        ctx.check(g1, "X", "1:none", "Ok(None) is returned exactly when position() finds no window equal to the magic", A.site(e1.bb),
                  how="own guard discr(position(..)) == None", why=str(e1))
        want2 = ("cmp", "Ne", ("bin", "Rem", IDX, ("c", 8)), ("c", 0))
        g2 = e2.kind == "Err" and e2.variant == "Memory::WrongAlignment" and [N(f) for f in e2.own] == [want2] and CH.precedes(e1, e2)
        ctx.check(g2, "X", "2:index-misaligned", "a first occurrence at i with i % 8 != 0 yields Err(WrongAlignment)", A.site(e2.bb),
                  how="own guard i % 8 != 0 with i the payload of position()", why=str(e2)[:400])
        # FROM = buffer.get(i..).unwrap_or(&[])
        errs = [e for e in rest if N(e.val)[0] == "try_err"]
        oks = [e for e in rest if e.kind == "Ok"]
        g3 = g4 = g5 = False
        FROM = LEN = None
        if len(errs) == 2 and len(oks) == 1:
            v3 = N(errs[0].val)[1]
            a = call(v3, "core::option::Option::ok_or")
            if a is not None:
                gt = call(a[0], "core::slice::get")
                if gt is not None and range_(gt[1], "Range") == (("c", 8), ("c", 12)):
                    FROM = gt[0]
                    uo = call(FROM, "core::option::Option::unwrap_or")
                    fg = call(uo[0], "core::slice::get") if uo else None
                    empty = uo is not None and uo[1][0] == "unsize" and uo[1][3] == "&[u8; 0]"
                    g3 = (fg is not None and fg[0] == buf and range_(fg[1], "RangeFrom") == (IDX,) and empty
                          and err_of(a[1]) is not None and err_of(a[1]).startswith("Memory::"))
            LENB = ("try_ok", v3)
            LEN = ("unwrap", ("call", "core::convert::num::ptr_try_from_impls::<impl core::convert::TryFrom<u32> for usize>::try_from",
                              (("from_bytes", "from_le_bytes", ("unwrap", ("call", "core::array::<impl core::convert::TryFrom<&[u8]> for [u8; 4]>::try_from", (LENB,))), "u32"),)))
            v4 = N(errs[1].val)[1]
            a4 = call(v4, "core::option::Option::ok_or")
            if a4 is not None and FROM is not None:
                gt = call(a4[0], "core::slice::get")
                if gt is not None and gt[0] == FROM:
                    r = range_(gt[1], "RangeTo")
                    lenterm = r[0] if r else None
                    alt = ("cast", "IntToInt", LEN[1][2][0], "usize") if lenterm is not None else None
                    g4 = lenterm is not None and (lenterm == LEN or lenterm == alt) and err_of(a4[1]) is not None and err_of(a4[1]).startswith("Memory::")
            pl = N(oks[0].payload) if oks[0].payload is not None else None
            if pl is not None and pl[0] == "aggr" and pl[1][1].endswith("Option") and pl[1][2] == "Some":
                tup = pl[2][0]
                g5 = tup[0] == "aggr" and tup[1] == ("tuple",) and tup[2][0] == ("try_ok", v4) and tup[2][1] == ("cast", "IntToInt", IDX, "u32")
            prec = CH.precedes(e2, errs[0]) and CH.precedes(errs[0], errs[1]) and CH.precedes(errs[1], oks[0])
            g5 = g5 and prec
        ctx.check(g3, "X", "3:length-field", "the header length is read from buffer[i..].get(8..12) (bytes i+8..i+12 of the buffer itself); if unavailable -> Err",
                  A.site(), how="buffer.get(i..).unwrap_or(&[]).get(8..12)", why=str([G.show(e.val)[:300] for e in errs[:1]]))
        ctx.check(g4, "X", "4:truncated", "the header slice is buffer[i..].get(..len) with len the little-endian u32 just read; if it does not fit -> Err",
                  A.site(), how="from_magic.get(..u32::from_le_bytes(..) as usize)", why=str([G.show(e.val)[:300] for e in errs[1:]]))
        ctx.check(g5, "X", "5:some", "success returns (that slice, i as u32), after all error exits", A.site(),
                  how="Some((header, i as u32))", why=str([G.show(e.val)[:300] for e in oks]))
    ctx.note("`first occurrence` and the exact iff rest on the std contracts of slice::windows (all length-4 sub-slices in order) and "
             "Iterator::position (first index whose predicate holds) - not re-proved here")
    c = F.consts.get("multiboot2_header::header::MAGIC")
    ctx.check(c is not None and c.get("v") == S.HEADER_MAGIC, "W", "MAGIC", "the compared constant is the specified header magic", (c or {}).get("span", ""),
              how="0x%x" % (c or {}).get("v", 0), why=str(c))
    return ctx.finish(
        "other",
        "Structural part of the statement: the scanned window, the scan predicate, the dominance-ordered exits with their guards and "
        "the exact slices returned, and a panic-edge census of find_header and its closure. The `first occurrence`/iff exactness is "
        "delegated to the std contracts of windows/position.",
        ["rustc MIR", "mb2rules PANIC/CHAIN/TERMS", "std: slice::windows, Iterator::position, slice::get, u32::from_le_bytes, <[u8;4]>::try_from"],
        "one obligation per panic site, per exit, per structural element of the scan",
    )
