"""C02 — loading accepts exactly the well-formed boot informations.

A1  PANIC(BootInformation::load) = {}: every panic edge / profile-dependent operation in the
    instances reachable from `load` is discharged
A2  CHAIN(load): null -> Memory(Null); then the errors of ref_from_ptr (= C14's chain over the slice
    [ptr, ptr + zext(raw total_size))) mapped by LoadError::Memory; then !end-tag -> NoEndTag; then Ok
A3  end-tag predicate = (type == EndTag::ID numerically) && (size == 8) read at base + total_size - 8
A4  start_address/as_ptr = the inner reference, total_size = zext(field 0), end_address = their sum
"""
from .. import an
from .. import chain as CH
from .. import guard as G
from .. import panic as P
from .. import spec as S
from ..guard import N, fld, deref, arg

BI = "multiboot2::boot_information::BootInformation::<'_>::"
HDR = "multiboot2::boot_information::BootInformationHeader"


def panic_free(ctx, F, entry_keys, rule, what, allow=None):
    """A1-style premise: all sites of the closure are discharged.  allow: predicate(site)->reason for
    documented, property-permitted panics"""
    cl = P.repo_closure(F, entry_keys)
    n_sites = 0
    for k in cl:
        for s in P.sites_of(F, F.insts[k]):
            n_sites += 1
            if s.status == "discharged":
                ctx.ok(rule, s.key(), "%s: %s site in the closure of %s cannot fire" % (s.kind, s.what, what), s.span, how=s.how,
                       nontrivial=not s.how.startswith("R1"))
            else:
                why = allow(s) if allow else None
                if why:
                    ctx.ok(rule, s.key(), "%s: permitted by the property: %s" % (s.kind, why), s.span, how=why)
                else:
                    ctx.fail(rule, s.key(), "no reachable panic edge / wrapping operation in the closure of %s (%s %s)" % (what, s.kind, s.what),
                             s.span, s.how)
    ctx.count("instances in closure of " + what, len(cl))
    ctx.count("panic/arith sites in closure of " + what, n_sites)
    return cl


def end_tag_slice_form(F, B, exs, payload, t2):
    """(typ_ok, size_ok, conjunction_ok, address_ok) if has_valid_end_tag is a decision list over the two u32 words at
    payload[len-8..len-4] and payload[len-4..len]; None if its exits are not of that form at all"""
    from .. import slices as SL
    n = ("len", payload)
    WT = ("le32", payload, G.canon(("bin", "Sub", n, ("c", 8))))
    WS = ("le32", payload, G.canon(("bin", "Sub", n, ("c", 4))))

    def is_end(x):
        return x[0] == "call" and x[1] == t2 and x[2][0][0] == "cs" and len(x[2][0]) > 2 and x[2][0][2] == "End"

    def kind(f):
        """'typ=' / 'typ!=' / 'size=' / 'size!=' / 'short' / None for a normalised fact"""
        if f[0] != "cmp":
            return None
        def unwrap(t):
            # `TagTypeId::from(w).0` - the transparent newtype built by a transmute of the word, read back - is the word
            if t[0] == "fld" and t[2] == 0 and t[1][0] == "cast" and t[1][1] == "Transmute" and str(t[1][3] if len(t[1]) > 3 else "").endswith("::TagTypeId"):
                return t[1][2]
            return t
        a, b_, op = unwrap(f[2]), unwrap(f[3]), f[1]
        for (x, y) in ((a, b_), (b_, a)):
            if is_end(y) and op in ("Eq", "Ne"):
                return ("typ" + ("=" if op == "Eq" else "!="), x)
            if y == ("c", 8) and x[0] == "le32" and op in ("Eq", "Ne"):
                return ("size" + ("=" if op == "Eq" else "!="), x)
        if a == n and b_ == ("c", 8) and op == "Lt" or b_ == n and a == ("c", 8) and op == "Gt":
            return ("short", None)
        return None
    seen_words = []
    have_value = False
    for e in exs:
        pc = SL.norm_facts([N(f) for f in e.facts], B)
        if ("const", False) in pc:
            continue        # an exit no input takes (the `_` arm of a slice pattern over a slice of known length)
        nm = SL.Norm([f for f in pc if f[0] == "cmp"], B)
        v = nm.norm(N(e.val))
        ks = [kind(f) for f in pc]
        ks = [k_ for k_ in ks if k_]
        tags = {k_[0] for k_ in ks}
        seen_words += [k_ for k_ in ks if k_[1] is not None]
        if v == ("c", 0):
            if not ({"short", "typ!=", "size!="} & tags):
                return None
        elif v == ("c", 1):
            if not {"typ=", "size="} <= tags:
                return None
            have_value = True
        elif v[0] == "bin" and v[1] == "Eq":
            kv = kind(("cmp", "Eq", v[2], v[3]))
            if kv is None:
                return None
            seen_words.append(kv)
            other = "typ=" if kv[0].startswith("size") else "size="
            if other not in tags:
                return None
            have_value = True
        else:
            return None
    if not have_value:
        return None
    typ_words = {w for (k_, w) in seen_words if k_.startswith("typ")}
    size_words = {w for (k_, w) in seen_words if k_.startswith("size")}
    typ_ok = typ_words == {WT}
    size_ok = size_words == {WS}
    return typ_ok, size_ok, True, typ_ok and size_ok


def check_ref_from_ptr(ctx, F, hty, size_field_off, rule="A2"):
    """ref_from_ptr(ptr) = ref_from_slice(from_raw_parts(ptr as *u8, zext(raw size field of *ptr)))"""
    key = "multiboot2_common::DynSizedStructure::<%s>::ref_from_ptr::<'_>" % hty
    inst = F.insts.get(key)
    if inst is None:
        return ctx.fail("ANCHOR", "ref_from_ptr<%s>" % hty.split("::")[-1], "ref_from_ptr is instantiated", "", "missing")
    A = an.of(F, inst)
    rt, _ = A.ret()
    rfs = "multiboot2_common::DynSizedStructure::<%s>::ref_from_slice" % hty
    good = False
    how = G.show(rt) if rt is not None else "several exits"
    a = F.adts.get(hty)
    fidx = [f["i"] for f in a["fields"] if f["off"] == size_field_off and f["size"] == 4]

    def is_region(rs):
        """from_raw_parts(ptr as *u8, zext(raw size field of *ptr))"""
        return rs[0] == "rawslice" and rs[1] == arg(1) and bool(fidx) and rs[2] == fld(deref(arg(1)), fidx[0])
    if rt is not None:
        n = N(rt)
        if n[0] == "call" and n[1] == rfs and len(n[2]) == 1:
            good = is_region(n[2][0])
    if not good:
        # ref_from_slice written out in place: the same two exits over the same region
        from . import c14
        ex = CH.exits(A)
        regions = set()
        for e in ex:
            for x in G_subterms(N(e.val)) + [y for f in e.own for y in G_subterms(N(f))]:
                if isinstance(x, tuple) and x and x[0] == "rawslice":
                    regions.add(x)
        if len(regions) == 1:
            rs = next(iter(regions))
            good = is_region(rs) and c14.is_ref_from_slice_of(ex, hty, rs, F)
            how = "ref_from_slice expanded in place over %s" % G.show(rs)[:120]
    if not good:
        # the first verdict of C14's chain anticipated: `if raw size < size_of::<H>() { return Err(ShorterThanHeader) }` before the
        # region is formed (the same error for the same inputs as the chain's first test over a region of that length), then the
        # plain form
        ex = CH.exits(A)
        tails = [e for e in ex if N(e.val)[0] == "call" and N(e.val)[1] == rfs and len(N(e.val)[2]) == 1 and is_region(N(e.val)[2][0])]
        early = [e for e in ex if e not in tails]
        hs = F.size_of(hty)
        if len(tails) == 1 and early and fidx:
            raw = ("zext", fld(deref(arg(1)), fidx[0]), "u32", "usize")
            want = ("cmp", "Lt", raw, ("c", hs))

            def same(f):
                f = N(f)
                return f[0] == "cmp" and G.entails([f], want) is not None and G.entails([want], f) is not None
            if all(e.kind == "Err" and e.variant == "ShorterThanHeader" and len(e.own) == 1 and same(e.own[0]) for e in early):
                good = True
                how = "Err(ShorterThanHeader) when the raw size < %d, else ref_from_slice over [ptr, ptr + raw size)" % hs
    return ctx.check(good, rule, "ref_from_ptr<%s>" % hty.split("::")[-1],
                     "ref_from_ptr views exactly [ptr, ptr + zext(raw declared size)) and hands it to ref_from_slice (errors of C14's chain)",
                     A.site(), how=how, why=how)


def G_subterms(t, acc=None):
    acc = acc if acc is not None else []
    if isinstance(t, tuple):
        acc.append(t)
        for x in t:
            if isinstance(x, tuple):
                G_subterms(x, acc)
    return acc


def same_ptr(a, b):
    pa, pb = G.ptr_norm(a), G.ptr_norm(b)
    return pa is not None and pb is not None and pa[0] == pb[0] and pa[1].key() == pb[1].key()


def load_chain(ctx, F, A, ex, rfp, memory_ctor, wrapper_name, wrapper_adt, tail_checks):
    """Shared by C02/C10: `NonNull::new(ptr).ok_or(Memory(Null))?`, `ref_from_ptr(nn).map_err(Memory)?`,
    then a list of (error variant, predicate description) tests on the loaded structure, then Ok(Wrapper(inner)).
    tail_checks: [(variant, callee key or None, expect_true)] in order; returns the predicate terms."""
    from ..guard import cn
    nn = ("nonnull_new", arg(1))
    e_null, e_mem = ex[0], ex[1]
    rest = ex[2:]
    # exit 1: Err(Memory(Null)) exactly when NonNull::new(ptr) is None
    g1 = e_null.kind == "Err" and e_null.variant == "Memory::Null" and CH.own_is_variant(e_null, nn, 0)
    ctx.check(g1, "A2", "load:1:null", "first exit: NonNull::new(ptr) is None (ptr null) -> Err(Memory(Null)), before anything is read",
              A.site(e_null.bb), how=G.show(e_null.val), why="%s own %s" % (G.show(e_null.val), [G.show(f) for f in e_null.own]))
    # exit 2: the scrutinee X of its guard is the memory check over the non-null pointer; its error is wrapped unchanged
    g2 = False
    X = None
    if e_mem.kind == "Err" and len(e_mem.own) == 1:
        f = N(e_mem.own[0])
        if f[0] == "cmp" and f[2][0] == "discr":
            X = f[2][1]
    ptr = CH.payload_of(nn, 1)
    if X is not None and X[0] == "call":
        direct = X[1] == rfp and X[2] == (ptr,)
        rfs = rfp.replace("::ref_from_ptr::<'_>", "::ref_from_slice")
        via_slice = X[1] == rfs and len(X[2]) == 1 and X[2][0][0] == "rawslice" and same_ptr(X[2][0][1], ptr)
        pay = N(e_mem.payload) if e_mem.payload is not None else None
        wrapped = pay is not None and pay[0] == "aggr" and pay[1][:3] == ("adt", memory_ctor.rsplit("::", 1)[0], "Memory") and pay[2] == (CH.payload_of(X, 1),)
        g2 = (direct or via_slice) and wrapped and CH.own_is_variant(e_mem, X, 1) and CH.guarded_by_variant(e_mem.facts, nn, 1)
    ctx.check(g2 and CH.precedes(e_null, e_mem), "A2", "load:2:memory",
              "second exit: the error of ref_from_ptr(non-null ptr), wrapped unchanged in LoadError::Memory, tested after the null check",
              A.site(e_mem.bb), how=G.show(e_mem.val), why="%s own %s" % (G.show(e_mem.val), [G.show(f) for f in e_mem.own]))
    inner = CH.payload_of(X, 0) if X is not None else None
    this = ("aggr", ("adt", wrapper_adt, wrapper_name, ("0",)), (inner,))
    errs = [e for e in rest if e.kind == "Err"]
    oks = [e for e in rest if e.kind == "Ok"]
    preds = []
    good_n = len(errs) == len(tail_checks) and len(oks) == 1
    ctx.check(good_n, "A2", "load:tail-exits", "after the memory checks load has exactly %d further error exit(s) and one success exit" % len(tail_checks),
              A.site(), how="%d/%d" % (len(errs), len(oks)), why="%s" % rest)
    prev = [e_null, e_mem]
    for i, (variant, callee, expect_true) in enumerate(tail_checks):
        if i >= len(errs):
            break
        e = errs[i]
        g = e.variant == variant and len(e.own) == 1 and all(CH.precedes(p, e) for p in prev)
        pred = None
        if g:
            f = e.own[0]
            pred = f
        preds.append((e, pred))
        ctx.check(g, "A2", "load:%d:%s" % (i + 3, variant), "exit #%d: Err(%s), tested after all earlier exits" % (i + 3, variant),
                  A.site(e.bb), how="own guard %s" % [G.show(x) for x in e.own], why="variant %s own %s" % (e.variant, [G.show(x) for x in e.own]))
        prev.append(e)
    g4 = False
    if oks and inner is not None:
        pl = N(oks[0].payload)
        g4 = pl == this and all(CH.precedes(e, oks[0]) for e in prev)
    ctx.check(g4, "A2", "load:ok", "success returns %s over the structure ref_from_ptr produced, only when no exit fired" % wrapper_name,
              A.site(oks[0].bb) if oks else A.site(), how=G.show(oks[0].val) if oks else "", why=str(oks))
    return inner, this, preds


def run(ctx):
    F = ctx.F()
    load = F.insts.get(BI + "load")
    if load is None:
        ctx.fail("ANCHOR", "BootInformation::load", "BootInformation::load exists", "", "missing")
        return ctx.finish("other", "anchor missing", [], "")
    # ---------------------------------------------------------------- A1
    panic_free(ctx, F, [load["key"]], "A1", "BootInformation::load")
    # ---------------------------------------------------------------- A2
    A = an.of(F, load)
    ex = CH.exits(A)
    LE = "multiboot2::boot_information::LoadError"
    rfp = "multiboot2_common::DynSizedStructure::<%s>::ref_from_ptr::<'_>" % HDR
    nn = ("nonnull_new", arg(1))
    shape_ok = len(ex) == 4
    ctx.check(shape_ok, "A2", "load:exits", "load has exactly four exits (null, memory error, no end tag, success)", A.site(),
              how="%d exits" % len(ex), why="exits: %s" % ex)
    if shape_ok:
        inner, this, preds = load_chain(ctx, F, A, ex, rfp, LE + "::Memory", "BootInformation",
                                        "multiboot2::boot_information::BootInformation",
                                        tail_checks=[("NoEndTag", BI + "has_valid_end_tag", False)])
        if preds and preds[0][1] is not None:
            f = N(preds[0][1])
            good = f == ("not", ("istrue", ("call", BI + "has_valid_end_tag", (("ref", this),))))
            ctx.check(good, "A2", "load:3:predicate", "the NoEndTag exit is taken exactly when the end-tag predicate on the loaded structure is false",
                      A.site(preds[0][0].bb), how=G.show(preds[0][1]), why=G.show(preds[0][1]))
    check_ref_from_ptr(ctx, F, HDR, 0)
    # the memory-error exits are C14's chain for this header type (see C10)
    if not getattr(ctx, "_imported", False):
        ctx.import_prop("C14", only=lambda o: "<BootInformationHeader>" in o.key, label="slice validation for BootInformationHeader")
    # who constructs the wrapper: only load's success exit - the premise of the size invariant I-BI used by its methods
    from .. import inline as INL_
    ctors_, bad_ = INL_.constructors_of(F, "multiboot2::boot_information::BootInformation", ("load",))
    ctx.check(bool(ctors_) and not bad_, "A2", "I-BI:who-constructs", "BootInformation values are built only by load() (and derived Clone): every one satisfies "
              "`declared size >= header size` (the memory exit of load precedes the success exit; C14.B1)", "",
              how="%d construction sites, all in load" % len(ctors_), why="other constructors: %s" % bad_)
    ctx.note("errors of ref_from_slice (ShorterThanHeader < WrongAlignment < MissingPadding < InvalidReportedTotalSize) are premises C14.B1/B3/B5; "
             "under the property's hypothesis (8-aligned pointer, slice formed from the declared size) WrongAlignment and "
             "InvalidReportedTotalSize cannot fire (hand step, DESIGN.md §4 C02)")
    # ---------------------------------------------------------------- A3
    hv_inst = F.insts.get(BI + "has_valid_end_tag")
    if hv_inst is None:
        # private helper may be renamed/inlined: find it by role = the callee deciding the NoEndTag exit
        ctx.fail("A3", "end-tag-predicate", "the callee deciding the NoEndTag exit is found", "", "not found")
    else:
        B = an.of(F, hv_inst)
        exs = CH.exits(B)
        inner = fld(deref(arg(1)), 0)               # self.0 : &DynSizedStructure
        hdr_total = fld(fld(deref(inner), 0), 0)    # self.0.header.total_size
        payload = ("ref", fld(deref(inner), 1))
        good = len(exs) == 2
        ptr_ok = typ_ok = size_ok = conj = False
        from . import tagtables as TT_
        t2 = TT_.conv_key(F, "t2")
        exp_off = G.lin(("saturating", "Sub", (("zext", ("fld", ("fld", ("deref", ("fld", ("deref", ("arg", 1, "&multiboot2::boot_information::BootInformation<'_>")), 0, "0", "&multiboot2_common::DynSizedStructure<%s>" % HDR)), 0, "header", HDR), 0, "total_size", "u32"), "u32", "usize"), ("c", 8)), "usize")).add(G.Lin(8), -1)

        def conjunct(c):
            """c = ('cmp','Eq',a,b) raw terms -> ('typ'|'size', pointer term) or None"""
            if c is None or c[0] != "cmp" or c[1] != "Eq":
                return None
            for (x, y) in ((c[2], c[3]), (c[3], c[2])):
                nx, ny = N(x), N(y)
                sx = G.strip(x)
                if ny == ("c", 8) and nx[0] == "fld" and nx[2] == 1 and nx[1][0] == "deref":
                    return ("size", G.strip(sx[1])[1])
                if ny[0] == "call" and ny[1] == t2 and ny[2][0][0] == "cs" and ny[2][0][2] == "End" and \
                        nx[0] == "fld" and nx[2] == 0 and nx[1][0] == "fld" and nx[1][2] == 0 and nx[1][1][0] == "deref":
                    return ("typ", G.strip(G.strip(sx[1])[1])[1])
            return None
        if good:
            efalse = [e for e in exs if N(e.val) == ("c", 0)]
            esecond = [e for e in exs if N(e.val) != ("c", 0)]
            if len(efalse) == 1 and len(esecond) == 1 and len(efalse[0].own) == 1:
                c1 = G.negate(efalse[0].own[0])
                sv = G.strip(esecond[0].val)
                c2 = ("cmp", sv[1], sv[2], sv[3]) if sv[0] == "bin" and sv[1] == "Eq" else None
                k1, k2 = conjunct(c1), conjunct(c2)
                kinds = {k[0] for k in (k1, k2) if k}
                typ_ok, size_ok = "typ" in kinds, "size" in kinds
                conj = c1 in esecond[0].facts
                ptrs = [k[1] for k in (k1, k2) if k]
                if len(ptrs) == 2:
                    pns = [G.ptr_norm(p) for p in ptrs]
                    ptr_ok = all(pn is not None and N(pn[0]) == ("asptr", payload) and pn[1].key() == exp_off.key() for pn in pns)
                    if not ptr_ok:
                        # the same address written from the structure's base: offsets are compared relative to the base, with
                        # payload.as_ptr() = base + 8 (layout) and saturating_sub(total_size, 8) = total_size - 8 (I-BI: total_size >= 8)
                        tot = G.lin(("fld", ("fld", ("deref", ("fld", ("deref", ("arg", 1, "&multiboot2::boot_information::BootInformation<'_>")), 0, "0",
                                                              "&multiboot2_common::DynSizedStructure<%s>" % HDR)), 0, "header", HDR), 0, "total_size", "u32"))
                        want_rel = tot.add(G.Lin(8), -1)            # base + total_size - 8

                        def rel(pn):
                            if pn is None:
                                return None
                            base_t, off = N(pn[0]), pn[1]
                            # replace the saturating atom by its exact value under the invariant
                            o2 = G.Lin(off.c)
                            for a_, c_ in off.m.items():
                                if isinstance(a_, tuple) and a_ and a_[0] == "saturating" and a_[1] == "Sub" and G.lin(a_[2][0]).key() == tot.key() and G.strip(a_[2][1]) == ("c", 8):
                                    o2 = o2.add(tot.add(G.Lin(8), -1), c_)
                                elif isinstance(a_, tuple) and a_ and N(a_) == ("len", payload):
                                    # len(self.0.payload) = payload_len(header) (C14.B4: the fat pointer's metadata) = total_size - 8 (I-BI)
                                    o2 = o2.add(tot.add(G.Lin(8), -1), c_)
                                else:
                                    o2 = o2.add(G.Lin(0, {a_: 1}), c_)
                            if base_t == ("asptr", payload):
                                return o2.add(G.Lin(8))
                            if base_t == inner:
                                return o2
                            return None
                        rels = [rel(pn) for pn in pns]
                        ptr_ok = all(r is not None and r.key() == want_rel.key() for r in rels)
        if not (good and size_ok and typ_ok and conj and ptr_ok):
            # the predicate written over the payload *slice* (safe code): its last eight bytes read as two u32 words.  Decision list
            # over the SLICE-normalised exits: false when there is no room (len < 8), false when the type word differs, else the
            # comparison of the size word with 8
            sf = end_tag_slice_form(F, B, exs, payload, t2)
            if sf is not None:
                good = True
                typ_ok, size_ok, conj, ptr_ok = sf
        ctx.check(good and size_ok and typ_ok and conj, "A3", "end-tag:conjunction",
                  "the end-tag predicate is (u32 image of stored type == u32 image of TagType::End) && (zext(stored size) == 8)",
                  B.site(), how="exits %s" % [G.show(e.val)[:80] for e in exs], why="exits %s" % [(G.show(e.val)[:200], [G.show(f)[:200] for f in e.own]) for e in exs])
        ctx.check(ptr_ok, "A3", "end-tag:address",
                  "the end tag is read at payload.as_ptr() + payload_len - 8 = base + total_size - 8 (the last 8 bytes of the declared region)",
                  B.site(), how="pointer base payload.as_ptr(), byte offset saturating_sub(total_size, 8) - 8",
                  why="pointer term does not normalise to payload.as_ptr() + payload_len - 8")
        # EndTag::ID is End (number 0 by C20) and EndTag is 8 bytes
        et = [i for i in F.impls if i.get("self") == "multiboot2::end::EndTag" and i.get("trait", "").endswith("::Tag")]
        idv = [x for x in (et[0]["items"] if et else []) if x["name"] == "ID"]
        ctx.check(bool(idv) and idv[0].get("variant") == S.MBI_TAG_TYPES[0] and F.size_of("multiboot2::end::EndTag") == 8,
                  "A3", "end-tag:constants", "EndTag::ID is the variant of number 0 and size_of::<EndTag>() == 8", et[0]["span"] if et else "",
                  how="ID=%s size=%s" % (idv and idv[0].get("variant"), F.size_of("multiboot2::end::EndTag")), why=str(idv))
    # ---------------------------------------------------------------- A4
    inner = fld(deref(arg(1)), 0)
    total = fld(fld(deref(inner), 0), 0)
    exp = {
        "as_ptr": inner,
        "start_address": ("cast", "PointerExposeProvenance", inner, "usize"),
        "total_size": total,
        "end_address": ("bin", "Add", ("cast", "PointerExposeProvenance", inner, "usize"), total),
    }
    for nme, want in exp.items():
        i = F.insts.get(BI + nme)
        if i is None:
            ctx.fail("ANCHOR", "BootInformation::" + nme, "accessor exists", "", "missing")
            continue
        rt, _ = an.of(F, i).ret()
        ctx.check(rt is not None and N(rt) == want, "A4", "BootInformation::" + nme,
                  "%s() returns %s" % (nme, {"as_ptr": "the address of the loaded structure (= input pointer by C14.B4)",
                                             "start_address": "that address as usize", "total_size": "zext of the stored total_size",
                                             "end_address": "start_address + total_size"}[nme]),
                  i["span"], how=G.show(rt), why=G.show(rt))
    hl = F.adts.get(HDR)
    ctx.check(bool(hl) and hl["size"] == 8 and hl["align"] == 8 and hl["fields"][0]["off"] == 0 and hl["fields"][0]["size"] == 4 and hl["niche"] is None,
              "A4", "BootInformationHeader:layout", "BootInformationHeader: total_size u32 at 0, reserved u32 at 4, 8 bytes, align 8, no niche",
              (hl or {}).get("span", ""), how="compiler layout", why=str(hl))
    return ctx.finish(
        "other",
        "Panic-edge census of every instance reachable from BootInformation::load (overflow asserts, explicit panics, may-panic std "
        "callees) with each site discharged by a fact; early-exit chain of load in dominance order with the exact error "
        "constructors; the end-tag predicate's two conjuncts and the normalised address of the read; return terms of the "
        "four address/size accessors. Together with C14's chain this decides totality, the iff and the precedence for every "
        "header content; WrongAlignment/InvalidReportedTotalSize are shown unreachable by hand under the hypothesis.",
        ["rustc MIR", "mb2facts/mb2rules (PANIC, CHAIN, TERMS)", "std: NonNull::new (None iff null), Option::ok_or, Result::map_err, Try for Result",
         "C14 premises (chain of ref_from_slice)", "C20 (TagTypeId == TagType is numeric equality)"],
        "one obligation per panic/arith site in the closure of load, per exit of the chain, per conjunct, per accessor",
    )
