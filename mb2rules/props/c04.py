"""C04 — typed getters select the first matching tag and decode every specified field.

G1  every typed getter of BootInformation is get_tag::<T>() with T::ID = the kind's specified number (18 direct getters,
    three wrappers, module_tags via C03.T6)
G2  get_tag (polymorphic) = fresh tags() . find(|t| u32 image of t.typ == u32 image of T::ID) . map(|t| t.cast::<T>())
G3  efi_memory_map_tag returns get_tag::<EFIMemoryMapTag>() only on the None edge of get_tag::<EFIBootServicesNotExitedTag>()
G4  framebuffer_tag: Err(e) carries the error of buffer_type(), which feeds the raw type byte to FramebufferTypeId::try_from (C20)
G5  layout of all 22 tag structs, MemoryArea, FramebufferColor/Field, VBEControlInfo/VBEModeInfo vs the oracle
G6  read-set of every public accessor vs the accessor table; compound accessors (RSDP checksums/strings, module size,
    area end, boot-loader-name type, framebuffer colour info) matched term by term
G7  plain accessors have no panic edge at all
"""
from .. import an
from . import c03
from .. import select as SEL
from .. import chain as CH
from .. import guard as G
from .. import layout as L
from .. import mir as M
from .. import panic as P
from .. import readset as RS
from .. import spec as S
from ..guard import N, arg, fld, deref, cn
from . import tagtables as TT

BI = "multiboot2::boot_information::BootInformation::<'_>::"
T2 = "multiboot2::tag_type::primitive_conversion_impls::<impl core::convert::From<multiboot2::tag_type::TagType> for u32>::from"
T1 = "multiboot2::tag_type::primitive_conversion_impls::<impl core::convert::From<u32> for multiboot2::tag_type::TagType>::from"


def closure_inst(F, clo):
    if clo[0] != "aggr" or clo[1][0] != "closure":
        return None
    cf = [c for k, c in F.insts.items() if c.get("path") == clo[1][1]]
    return cf[0] if cf else None


def run(ctx):
    F = ctx.F()
    global T2, T1
    from . import tagtables as _TTk
    T2 = _TTk.conv_key(F, "t2")
    T1 = _TTk.conv_key(F, "t1")
    num_of_variant = {v: k for k, v in S.MBI_TAG_TYPES.items()}
    adts = {}
    # ---------------------------------------------------------------- G5
    for kind, row in S.MBI_TAGS.items():
        a = TT.layout_row(ctx, F, "multiboot2", kind, row, S.MBI_TAG_HEADER)
        if a:
            adts[kind] = a
    ctx.floor("G5", "specified boot-information tag kinds with a type", len(adts), 22)
    th = L.adt(F, "multiboot2", "TagHeader")
    ctx.check(bool(th) and th["size"] == 8 and [(f["off"], f["size"]) for f in th["fields"]] == [(0, 4), (4, 4)] and th["niche"] is None, "G5", "layout:TagHeader",
              "TagHeader: type u32@0, size u32@4, 8 bytes, no niche", (th or {}).get("span", ""), how="compiler layout", why=str(th and th["fields"]))
    ma = L.adt(F, "multiboot2", "MemoryArea")
    ok = bool(ma) and ma["size"] == S.MMAP_ENTRY["size"] and all(TT.locate(F, ma, o, w) for (_, o, w) in S.MMAP_ENTRY["fields"])
    ctx.check(ok, "G5", "layout:MemoryArea", "MemoryArea = multiboot_mmap_entry: addr u64@0, len u64@8, type u32@16, zero u32@20, 24 bytes", (ma or {}).get("span", ""),
              how="compiler layout", why=str(ma and ma["fields"]))
    fc = L.adt(F, "multiboot2", "FramebufferColor")
    ok = bool(fc) and fc["size"] == 3 and fc["align"] == 1 and [(f["name"], f["off"]) for f in fc["fields"]] == [("red", 0), ("green", 1), ("blue", 2)]
    ctx.check(ok, "G5", "layout:FramebufferColor", "FramebufferColor = multiboot_color: red@0, green@1, blue@2, 3 bytes, align 1", (fc or {}).get("span", ""), how="compiler layout", why=str(fc))
    for (tyname, spec, names) in (("VBEControlInfo", S.VBE_INFO_BLOCK, S.VBE_CONTROL_FIELDS), ("VBEModeInfo", S.VBE_MODE_INFO_BLOCK, S.VBE_MODE_FIELDS)):
        a = L.adt(F, "multiboot2", tyname)
        if a is None:
            ctx.fail("ANCHOR", tyname, "type exists", "", "missing")
            continue
        bad = []
        sf = {n: (o, w) for (n, o, w) in spec["fields"]}
        for f in a["fields"]:
            want = sf.get(names.get(f["name"]))
            if want is None or (f["off"], f["size"]) != want:
                bad.append((f["name"], f["off"], f["size"], want))
        missing = set(names) - {f["name"] for f in a["fields"]}
        ctx.check(not bad and not missing and a["size"] == spec["size"] and a["align"] == 1, "G5", "layout:" + tyname,
                  "%s: packed, %d bytes, each of its %d fields at the VBE 3.0 offset/width of the block it documents" % (tyname, spec["size"], len(a["fields"])),
                  a.get("span", ""), how="compiler layout", why="mismatches %s missing %s size %s" % (bad, missing, a["size"]))
    for tup, parent in (("(u16, u16)", "VBEModeInfo.resolution"), ("(u8, u8)", "VBEModeInfo.character_size")):
        ctx.note("%s is a repr(Rust) tuple %s: the order of its two halves is toolchain-dependent and not claimed" % (parent, tup))
    vf = L.adt(F, "multiboot2", "VBEField")
    ctx.check(bool(vf) and [(f["name"], f["off"]) for f in vf["fields"]] == [("size", 0), ("position", 1)], "G5", "layout:VBEField", "VBEField: mask size @0, field position @1",
              (vf or {}).get("span", ""), how="compiler layout", why=str(vf and vf["fields"]))
    # ---------------------------------------------------------------- G6 plain accessors
    n_acc = 0
    plain_insts = []
    for kind, a in adts.items():
        row = S.MBI_TAGS[kind]
        n_acc += TT.accessors(ctx, F, "multiboot2", a, S.MBI_ACCESSORS, row, S.MBI_TAG_HEADER, S.COMPOUND_ACCESSORS)
    if ma:
        n_acc += TT.accessors(ctx, F, "multiboot2", ma, {"MemoryArea": S.MMAP_ENTRY_ACCESSORS}, dict(fields=S.MMAP_ENTRY["fields"]), [], S.COMPOUND_ACCESSORS)
    ctx.floor("G6", "plain field accessors checked", n_acc, 48)
    compound(ctx, F, adts, ma)
    # ---------------------------------------------------------------- G1
    n_get = 0
    for g, kind in S.MBI_GETTERS.items():
        if TT.getter(ctx, F, BI, g, kind, S.MBI_TAGS[kind], "multiboot2", num_of_variant):
            n_get += 1
    ctx.floor("G1", "direct typed getters", n_get, 18)
    # every public Option<&T>-returning method of BootInformation is in one of the getter tables
    for k, i in F.insts.items():
        if k.startswith(BI) and i.get("eff_pub") and not i.get("closure") and i["body"]["argc"] == 1 and i["name"].endswith("_tag") or \
                (k.startswith(BI) and i.get("eff_pub") and i["name"] in ("elf_sections", "module_tags")):
            nm = i["name"]
            if nm not in S.MBI_GETTERS and nm not in S.MBI_WRAPPER_GETTERS and nm != "get_tag" and not TT.added_getter(ctx, F, BI, i, "G1"):
                ctx.fail("G1", "unmapped:" + nm, "getter %s is in the getter table" % nm, i.get("span", ""), "unmapped typed getter")
    # ---------------------------------------------------------------- G2 (polymorphic get_tag)
    gt = F.fns.get("multiboot2::boot_information::BootInformation::<'a>::get_tag")
    if gt is None:
        ctx.fail("ANCHOR", "get_tag", "BootInformation::get_tag exists", "", "missing")
    else:
        sel, why = SEL.analyse(F, gt)
        ok = False
        if sel is not None:
            payload = fld(deref(fld(deref(arg(1)), 0)), 1)
            it = SEL.canon_place(SEL.unref(sel["iter"]))
            it_ok = c03.tagiter_fresh(it, payload, canon=lambda x: SEL.canon_place(SEL.unref(x)))
            typ0 = fld(fld(fld(deref(SEL.ELEM), 0), 0), 0)          # tag.header().typ.0
            typ = fld(fld(deref(SEL.ELEM), 0), 0)                    # tag.header().typ
            sides = SEL.eq_sides(sel["pred"])
            pred_ok = False
            if sides is not None:
                a, b_, via = sides
                for (x, y) in ((a, b_), (b_, a)):
                    x, y = SEL.canon_place(x), SEL.canon_place(y)
                    # numeric form: u32::from(T::ID) == typ.0 ; trait form: <TagTypeId as PartialEq<TagType>>::eq(&typ, &T::ID) (numeric by C20)
                    is_id = (x[0] == "call" and x[1] == T2 and SEL.is_id_const(x[2][0])) if via is None else \
                        SEL.is_id_const(x)
                    is_typ = (y == typ0) if via is None else (SEL.unref(y) == typ and "PartialEq<multiboot2::tag_type::TagType>" in str(via) and "TagTypeId" in str(via))
                    if is_id and is_typ:
                        pred_ok = True
            map_ok = SEL.is_cast_of_elem(sel["map"], poly=True)
            ok = it_ok and pred_ok and map_ok
            why = "form %s: fresh tags() iterator=%s numeric predicate=%s cast::<T>=%s" % (sel["form"], it_ok, pred_ok, map_ok)
        ctx.check(ok, "G2", "get_tag", "get_tag::<T>() = tags().find(|t| u32::from(T::ID) == t.typ.0).map(|t| t.cast::<T>()) for every T (first match in walk order by Iterator::find)",
                  gt.get("span", ""), how=why, why=why)
        # the promoted constant in the predicate is T::ID: per instantiation the mono closure compares with the kind's variant
        n_cl = 0
        for kind, a in adts.items():
            gi = F.insts.get("%sget_tag::<%s>" % (BI, a["path"]))
            if gi is None:
                continue
            si, why_i = SEL.analyse(F, gi)
            good = False
            how = why_i
            if si is not None:
                sides = SEL.eq_sides(si["pred"])
                how = G.show(si["pred"])[:160]
                if sides is not None and sides[2] is None:
                    good = any(x[0] == "call" and x[1] == T2 and SEL.unref(x[2][0])[0] == "cs" and SEL.unref(x[2][0])[2] == kind for x in sides[:2]) and \
                        any(SEL.canon_place(x) == fld(fld(fld(deref(SEL.ELEM), 0), 0), 0) for x in sides[:2]) and \
                        SEL.is_cast_of_elem(si["map"], ty_suffix=a["path"].split("::")[-1], via_cast=SEL.calls_cast_only(F, gi))
            n_cl += 1
            ctx.check(good, "G2", "get_tag<%s>:predicate" % a["name"], "get_tag::<%s> compares the stored type with the number of `%s` and casts the match to %s" % (a["name"], kind, a["name"]),
                      gi.get("span", ""), how=how, why=str(how)[:300])
        ctx.floor("G2", "instantiated get_tag predicates", n_cl, 20)
    # ---------------------------------------------------------------- G3
    em = F.insts.get(BI + "efi_memory_map_tag")
    if em is None:
        ctx.fail("ANCHOR", "efi_memory_map_tag", "exists", "", "missing")
    else:
        bs = L.adt(F, "multiboot2", S.MBI_TAGS["EfiBs"]["ty"])
        mm = L.adt(F, "multiboot2", S.MBI_TAGS["EfiMmap"]["ty"])
        BS = ("call", "%sget_tag::<%s>" % (BI, bs["path"]), (arg(1),))
        MMc = ("call", "%sget_tag::<%s>" % (BI, mm["path"]), (arg(1),))
        A_em = an.of(F, em)
        ex = CH.exits(A_em)
        tails = [e for e in ex if e.kind not in ("None", "Some")]
        nones = [e for e in ex if e.kind == "None"]
        somes = [e for e in ex if e.kind == "Some"]
        # the marker may also be looked up through its own typed getter (G1 row: efi_bs_not_exited_tag() = get_tag::<..NotExitedTag>())
        BS_alts = [BS] + [("call", BI + g_, (arg(1),)) for g_, kind_ in S.MBI_GETTERS.items() if kind_ == "EfiBs"]
        MM_alts = [MMc] + [("call", BI + g_, (arg(1),)) for g_, kind_ in S.MBI_GETTERS.items() if kind_ == "EfiMmap" and g_ != "efi_memory_map_tag"]
        tail_ok = none_ok = False
        for BS in BS_alts:
            t_ok = len(tails) == 1 and SEL.canon_place(N(tails[0].val)) in MM_alts and CH.own_is_variant(tails[0], BS, 0)
            n_ok = bool(nones) and all(CH.guarded_by_variant(e.facts, BS, 1) for e in nones)
            if t_ok and n_ok:
                tail_ok, none_ok = True, True
                break
            tail_ok, none_ok = tail_ok or t_ok, none_ok or n_ok
        ok = tail_ok and none_ok and not somes
        rt = None
        why_g3 = "exits: %d tail (get_tag::<EFIMemoryMapTag>() under `not-exited tag absent`: %s), %d None (all under `tag present`: %s), %d Some" % (
            len(tails), tail_ok, len(nones), none_ok, len(somes))
        ctx.check(ok, "G3", "efi_memory_map_tag", "efi_memory_map_tag() = get_tag::<EFIBootServicesNotExitedTag>().map_or_else(|| get_tag::<EFIMemoryMapTag>(), |_| None): "
                  "the map is withheld while boot services are not exited", em.get("span", ""), how=why_g3, why=why_g3)
    # ---------------------------------------------------------------- G4
    fb = F.insts.get(BI + "framebuffer_tag")
    fbt = adts.get("Framebuffer")
    if fb is None or fbt is None:
        ctx.fail("ANCHOR", "framebuffer_tag", "exists", "", "missing")
    else:
        FT = ("call", "%sget_tag::<%s>" % (BI, fbt["path"]), (arg(1),))
        tag = CH.payload_of(FT, 1)
        BT = ("call", "multiboot2::framebuffer::FramebufferTag::buffer_type", (tag,))
        ex = CH.exits(an.of(F, fb))
        nones = [e for e in ex if e.kind == "None"]
        s_err = [e for e in ex if e.kind == "Some" and e.variant == "Err"]
        s_ok = [e for e in ex if e.kind == "Some" and e.variant == "Ok"]
        ok = len(ex) == 3 and len(nones) == 1 and len(s_err) == 1 and len(s_ok) == 1
        why = "exits %s" % [(e.kind, e.variant) for e in ex]
        if ok:
            n_ok = CH.own_is_variant(nones[0], FT, 0)
            e_ok = CH.own_is_variant(s_err[0], BT, 1) and CH.guarded_by_variant(s_err[0].facts, FT, 1) and \
                SEL.canon_place(N(s_err[0].payload)) == ("aggr", ("adt", "core::result::Result", "Err", ("0",)), (CH.payload_of(BT, 1),))
            o_ok = CH.own_is_variant(s_ok[0], BT, 0) and CH.guarded_by_variant(s_ok[0].facts, FT, 1) and \
                SEL.canon_place(N(s_ok[0].payload)) == ("aggr", ("adt", "core::result::Result", "Ok", ("0",)), (tag,))
            ok = n_ok and e_ok and o_ok
            why = "None iff get_tag::<FramebufferTag>() is None: %s; Some(Err(e)) iff buffer_type() = Err(e): %s; Some(Ok(tag)) iff buffer_type() is Ok: %s" % (n_ok, e_ok, o_ok)
        ctx.check(ok, "G4", "framebuffer_tag", "framebuffer_tag() maps the found tag to Ok(tag) iff buffer_type() is Ok, else to Err carrying buffer_type()'s error", fb.get("span", ""), how=why, why=why)
    buffer_type(ctx, F, fbt)
    # ---------------------------------------------------------------- G7
    n_plain = 0
    for kind, a in adts.items():
        for meth in S.MBI_ACCESSORS.get(a["name"], {}):
            i = F.find(impl_self_path=a["path"], name=meth, impl_trait=None)
            if len(i) != 1:
                continue
            cl = P.repo_closure(F, [i[0]["key"]])
            sites = [s for k in cl for s in P.sites_of(F, F.insts[k])]
            n_plain += 1
            ctx.check(not sites, "G7", "%s::%s" % (a["name"], meth), "%s::%s() has no panic edge, overflow-checked operation or may-panic callee" % (a["name"], meth),
                      i[0].get("span", ""), how="closure of %d instance(s), 0 sites" % len(cl), why="sites: %s" % [s.key()[:80] for s in sites[:3]], nontrivial=False)
    ctx.floor("G7", "plain accessors without panic edges", n_plain, 45)
    mm_ = L.adt(F, "multiboot2", "VBEMemoryModel")
    got_ = {v["discr"]: v["name"] for v in (mm_ or {}).get("variants", [])}
    ctx.check(got_ == S.VBE_MEMORY_MODELS, "G9", "enum:VBEMemoryModel", "VBEMemoryModel discriminants are the VBE 3.0 memory model numbers 0..7",
              (mm_ or {}).get("span", ""), how=str(got_), why="have %s, specified %s" % (got_, S.VBE_MEMORY_MODELS), nontrivial=False)
    from . import c15 as C15_
    C15_.cast_rejects_exactly(ctx, F, "G8")
    n_fc = TT.flag_constants(ctx, F, S.VBE_FLAG_CONSTANTS, "G9", "VBE 3.0 bit assignment")
    ctx.floor("G9", "VBE flag constants", n_fc, 15)
    ctx.import_prop("C03")
    ctx.import_prop("C15")
    ctx.import_prop("C20")
    # "for every boot information made of spec-conformant tags": one that load() accepts - its exit chain and end-tag predicate
    ctx.import_prop("C02", only=lambda o: o.rule in ("A2", "A3"), label="well-formed boot informations load")
    ctx.note("first-match selection is Iterator::find over the walk of C03; the decoded values' meaning is out of scope; iterator-based decoders are C18/C19; strings C17")
    return ctx.finish(
        "other",
        "Layouts of all 22 tag structs and the embedded records against hand-written specification tables; return terms of every public "
        "accessor resolved to (offset, width) through the compiler's layout and compared with an accessor table; typed-getter table with "
        "the kinds' ID constants; the polymorphic get_tag composition and each instantiated predicate; the EFI withholding and "
        "framebuffer error-propagation wrappers; compound accessors term by term; no panic edges in plain accessors.",
        ["rustc layout/MIR", "mb2rules LAYOUT/READSET/TERMS/CHAIN", "spec.py oracle and API tables (hand-written)", "std: Iterator::find (first match), Option::map/map_or_else", "C03, C15, C20"],
        "one obligation per (type, field row), per accessor, per getter",
    )


def poly_closure_ret(F, clo):
    if clo[0] != "aggr" or clo[1][0] != "closure":
        return None
    c = F.fns.get(clo[1][1])
    if c is None:
        return None
    rt, _ = an.of(F, c).ret()
    return N(rt) if rt is not None else None


def compound(ctx, F, adts, ma):
    me = deref(arg(1))

    def fidx(a, name):
        return [f["i"] for f in a["fields"] if f["name"] == name][0]

    def ret(ty_path, meth):
        i = F.find(impl_self_path=ty_path, name=meth, impl_trait=None)
        if len(i) != 1:
            ctx.fail("ANCHOR", "%s::%s" % (ty_path.split("::")[-1], meth), "accessor exists", "", "%d" % len(i))
            return None, None
        rt, _ = an.of(F, i[0]).ret()
        return (N(rt) if rt is not None else None), i[0]
    # module_size
    a = adts.get("Module")
    if a:
        n, i = ret(a["path"], "module_size")
        off = {f["off"]: f["i"] for f in a["fields"]}
        ctx.check(n == ("bin", "Sub", fld(me, off[12]), fld(me, off[8])), "G6", "ModuleTag::module_size", "module_size() = mod_end (u32@12) - mod_start (u32@8)",
                  i and i.get("span", ""), how=str(n)[:120], why=str(n)[:200])
    if ma:
        n, i = ret(ma["path"], "end_address")
        off = {f["off"]: f["i"] for f in ma["fields"]}
        ctx.check(n == ("bin", "Add", fld(me, off[0]), fld(me, off[8])), "G6", "MemoryArea::end_address", "end_address() = addr (u64@0) + len (u64@8)", i and i.get("span", ""),
                  how=str(n)[:120], why=str(n)[:200])
    a = adts.get("BootLoaderName")
    if a:
        n, i = ret(a["path"], "typ")
        ctx.check(n == ("call", T1, (fld(fld(fld(me, 0), 0), 0),)), "G6", "BootLoaderNameTag::typ", "typ() = TagType::from(stored type word)", i and i.get("span", ""), how=str(n)[:120], why=str(n)[:200])
    for kind, slen in (("AcpiV1", S.RSDP_V1_LEN), ("AcpiV2", S.RSDP_V2_LEN)):
        a = adts.get(kind)
        if not a:
            continue
        off = {f["off"]: f for f in a["fields"]}
        for meth, o, w in (("signature", 8, 8), ("oem_id", 17, 6)):
            n, i = ret(a["path"], meth)
            want = ("call", "core::str::converts::from_utf8", (("unsize", ("ref", fld(me, off[o]["i"])), "&[u8]", "&[u8; %d]" % w),))
            ctx.check(n == want, "G6", "%s::%s" % (a["name"], meth), "%s() = str::from_utf8 of the %d bytes at offset %d" % (meth, w, o), i and i.get("span", ""), how=str(n)[:140], why=str(n)[:240])
        # checksum: wrapping byte sum over the RSDP bytes [8, 8 + L) == 0
        i = F.find(impl_self_path=a["path"], name="checksum_is_valid", impl_trait=None)
        if len(i) != 1:
            ctx.fail("ANCHOR", "%s::checksum_is_valid" % a["name"], "checksum_is_valid() exists (one instance)", a.get("span", ""), "%d found" % len(i))
        if len(i) == 1:
            ok, how = rsdp_checksum(F, i[0], slen, kind == "AcpiV2", a)
            ctx.check(ok, "G6", "%s::checksum_is_valid" % a["name"], "checksum_is_valid(): the wrapping u8 sum over the RSDP bytes [8, 8+%s) is compared with 0" % ("20" if kind == "AcpiV1" else "length (<= 36)"),
                      i[0].get("span", ""), how=how, why=how)


def bytesum_source(F, A, t):
    """t (N-form) is the wrapping u8 sum of all bytes of a slice SRC, in order: returns SRC or None.
    Forms: SRC.iter().fold(0, |acc, b| acc.wrapping_add(*b))  |  let mut s = 0u8; for b in SRC { s = s.wrapping_add(*b) } s"""
    if t[0] == "call" and "Iterator>::fold" in str(t[1]) and len(t[2]) == 3 and t[2][1] == ("c", 0):
        it = t[2][0]
        clo = t[2][2]
        byval = False
        if it[0] == "call" and len(it[2]) == 1 and ("Iterator>::copied" in str(it[1]) or "Iterator>::cloned" in str(it[1])) and "slice::iter::Iter<" in str(it[1]):
            it = it[2][0]          # items by value (u8 is Copy: the same bytes)
            byval = True
        if it[0] == "call" and cn(it[1]) == "core::slice::iter":
            item = arg(3) if byval else ("deref", arg(3))
            if clo[0] == "aggr" and clo[1][0] == "closure":
                ci = [c for k, c in F.insts.items() if c.get("path") == clo[1][1]]
                if len(ci) >= 1:
                    r = N(an.of(F, ci[0]).ret()[0])
                    if r in (("wrap", "Add", (arg(2), item), "u8"), ("wrap", "Add", (item, arg(2)), "u8")):
                        return it[2][0]
            if byval and clo == ("fn", "core::num::<impl u8>::wrapping_add"):
                return it[2][0]    # `fold(0, u8::wrapping_add)`: acc.wrapping_add(byte)
        return None
    if t[0] == "opq" and len(t) > 3 and t[1] == "phi":
        b = A.body
        L = t[2]
        be = b.back_edges()
        if len({h for (_, h) in be}) != 1:
            return None
        loop = set()
        for (tl, h) in be:
            loop |= b.loop_blocks(h, tl)
        defs = [d for d in A.tb.defs.get(L, []) if not d[3]]
        init = [d for d in defs if d[1] not in loop]
        upd = [d for d in defs if d[1] in loop]
        if len(init) != 1 or len(upd) != 1 or init[0][0] != "stmt":
            return None
        st0 = b.stmts(init[0][1])[init[0][2]]
        if N(A.tb.rvalue(st0["rv"], (init[0][1], init[0][2]), st0)) != ("c", 0) or A.body.local_ty(L) != "u8":
            return None
        if upd[0][0] == "stmt":
            st1 = b.stmts(upd[0][1])[upd[0][2]]
            uv = N(A.tb.rvalue(st1["rv"], (upd[0][1], upd[0][2]), st1))
        else:
            uv = N(A.tb.call_value(b.term(upd[0][1]), upd[0][1]))
        if not (uv[0] == "wrap" and uv[1] == "Add" and uv[3] == "u8" and len(uv[2]) == 2):
            return None
        acc, x = uv[2]
        if not (acc[0] == "opq" and acc[1] == "phi" and acc[2] == L):
            acc, x = x, acc
        if not (acc[0] == "opq" and acc[1] == "phi" and acc[2] == L):
            return None
        # x = *item, item = payload of the loop's only next() over a forward iterator of the slice
        x = x[1] if x[0] == "deref" else x
        if not (x[0] == "fld" and x[2] == 0 and x[1][0] == "dc" and x[1][2] == 1 and x[1][1][0] == "call" and "Iterator>::next" in str(x[1][1][1])):
            return None
        nexts = [bb for bb, tt in b.calls() if bb in loop and "Iterator>::next" in (M.callee_path(tt) or "") + str(M.callee_key(tt))]
        if len(nexts) != 1 or not all(b.dominates(upd[0][1], tl) for (tl, _) in be):
            return None
        itr = x[1][1][2][0]
        itr = itr[1] if itr[0] == "ref" else itr
        # the iterator is advanced by next() in the loop: what is walked is its value on entry to the loop
        itr = an.loop_entry_value(A, itr, next(iter({h for (_, h) in be})), loop)
        for _ in range(3):
            if itr[0] == "call" and len(itr[2]) == 1 and ("IntoIterator" in str(itr[1]) or cn(itr[1]) == "core::slice::iter"):
                itr = itr[2][0]
        return itr
    return None


def rsdp_checksum(F, inst, slen, v2, a):
    A = an.of(F, inst)
    rt, _ = A.ret()
    n = N(rt) if rt is not None else None

    def fold_ok(t, src_pred):
        # Eq(fold(iter(SRC), 0, closure wrapping_add), 0)
        if not (t[0] == "bin" and t[1] == "Eq" and t[3] == ("c", 0)):
            return False
        f = t[2]
        if not (f[0] == "call" and "Iterator>::fold" in str(f[1]) and len(f[2]) == 3 and f[2][1] == ("c", 0)):
            return False
        it = f[2][0]
        if not (it[0] == "call" and cn(it[1]) == "core::slice::iter" and src_pred(it[2][0])):
            return False
        clo = f[2][2]
        ci = [c for k, c in F.insts.items() if c.get("path") == clo[1][1]] if clo[0] == "aggr" and clo[1][0] == "closure" else []
        if len(ci) != 1:
            return False
        r = N(an.of(F, ci[0]).ret()[0])
        return r == ("wrap", "Add", (arg(2), ("deref", arg(3))), "u8")
    whole = ("rawslice", arg(1), ("c", slen + 8), "u8")
    from8 = ("call", "core::slice::index::<impl core::ops::index::Index<core::ops::range::RangeFrom<usize>> for [u8]>::index",
             (whole, ("aggr", ("adt", "core::ops::range::RangeFrom", "RangeFrom", ("start",)), (("c", 8),))))

    def sum_is_zero_over(t, src_pred):
        """t = (wrapping byte sum over SRC) == 0 with src_pred(SRC)"""
        if not (t[0] == "bin" and t[1] == "Eq" and t[3] == ("c", 0)):
            return False
        src_ = bytesum_source(F, A, t[2])
        return src_ is not None and src_pred(SEL.canon_place(src_))
    if not v2:
        if n is None:
            return False, "no single return term"
        return sum_is_zero_over(n, lambda x: x == SEL.canon_place(from8)), str(n)[:200]
    # v2: false unless the RSDP bytes (tag bytes from 8 on) have at least `length` bytes; then (sum over exactly those == 0).
    # The bytes from 8 on are bytes.get(8..) (a None exit of its own) or &bytes[8..] (44 >= 8: always in bounds)
    ex = CH.exits(A)
    G8 = ("call", "core::slice::<impl [u8]>::get::<core::ops::range::RangeFrom<usize>>", (whole, ("aggr", ("adt", "core::ops::range::RangeFrom", "RangeFrom", ("start",)), (("c", 8),))))
    length_i = [f["i"] for f in a["fields"] if f["off"] == 28 and f["size"] == 4][0]
    ln = fld(deref(arg(1)), length_i)
    for (rsdp_t, need_g8) in ((CH.payload_of(G8, 1), True), (SEL.canon_place(from8), False)):
        G2 = SEL.canon_place(("call", "core::slice::<impl [u8]>::get::<core::ops::range::RangeTo<usize>>", (rsdp_t, ("aggr", ("adt", "core::ops::range::RangeTo", "RangeTo", ("end",)), (ln,)))))
        falses = [e for e in ex if N(e.val) == ("c", 0)]
        sums = [e for e in ex if N(e.val) != ("c", 0)]
        cf = lambda fs: [SEL.canon_place(N(f)) for f in fs]
        f_ok = len(falses) == (2 if need_g8 else 1) and (not need_g8 or any(CH.own_is_variant(e, G8, 0) for e in falses)) and \
            any(len(e.own) == 1 and CH.is_discr_fact(cf(e.own)[0], G2, 0) for e in falses)
        s_ok = False
        if len(sums) == 1:
            e = sums[0]
            under = CH.guarded_by_variant(cf(e.facts), G2, 1) and (not need_g8 or CH.guarded_by_variant(e.facts, G8, 1))
            v = SEL.canon_place(N(e.val))
            s_ok = under and sum_is_zero_over(v, lambda x: x == SEL.canon_place(CH.payload_of(G2, 1)))
        if f_ok and s_ok and len(ex) == (3 if need_g8 else 2):
            return True, "false when the RSDP part has fewer than `length` bytes; otherwise wrapping byte sum over exactly bytes[8..8+length] == 0 (%d exits)" % len(ex)
    # the same decision written with explicit comparisons / pre-checked indexing: every exit that returns false has a path condition
    # entailing 8 + length > 44, and the other exit returns (wrapping byte sum over bytes[8 .. 8 + length]) == 0 under 8 + length <= 44
    from .. import slices as SL
    total = slen + 8
    want_src = ("sub", whole, ("c", 8), ("bin", "Add", ("c", 8), ln))
    ok_all = bool(ex)
    n_sum = 0
    for e in ex:
        pc = SL.norm_facts([N(f) for f in e.facts], A)
        plain = [f for f in pc if f[0] == "cmp"]
        nm = SL.Norm(plain, A)
        v = N(e.val)
        if v == ("c", 0):
            ok_all = ok_all and G.entails(plain, ("cmp", "Gt", ("bin", "Add", ("c", 8), ln), ("c", total))) is not None
        elif v[0] == "bin" and v[1] == "Eq" and v[3] == ("c", 0):
            src_ = bytesum_source(F, A, G.strip(e.val)[2])
            s_ = nm.unref(nm.norm(N(src_))) if src_ is not None else None
            same = s_ is not None and s_[0] == "sub" and s_[1] == whole and SL.same(s_[2], want_src[2]) and SL.same(s_[3], want_src[3])
            fits = G.entails(plain, ("cmp", "Le", ("bin", "Add", ("c", 8), ln), ("c", total))) is not None
            ok_all = ok_all and same and fits
            n_sum += 1
        else:
            ok_all = False
    if ok_all and n_sum == 1:
        return True, "decision list: false when 8 + length > %d; otherwise wrapping byte sum over exactly bytes[8..8+length] == 0 (%d exits)" % (total, len(ex))
    return False, "exits %s" % [(G.show(N(e.val))[:60], [G.show(N(f))[:80] for f in e.own]) for e in ex]


def is_elem_read(n, buf, idx):
    """n reads buf[idx] with a bounds check that panics: *buf.get(idx).unwrap() (also via copied()/cloned()) or buf[idx]"""
    n = SEL.canon_place(n)
    buf, idx = SEL.canon_place(buf), SEL.canon_place(idx)
    if n[0] == "deref" and n[1][0] == "unwrap" and n[1][1][0] == "call" and cn(n[1][1][1]) == "core::slice::get":
        a = n[1][1][2]
        return SEL.canon_place(a[0]) == buf and SEL.canon_place(a[1]) == idx
    if n[0] == "idx":
        return SEL.unref(n[1]) == SEL.unref(buf) and n[2] == idx
    return False


def buffer_type(ctx, F, fbt):
    """G4/G6: the raw byte feeds try_from; indexed: u16 count then the palette at the following bytes; rgb: six bytes in order"""
    if fbt is None:
        return
    i = F.find(impl_self_path=fbt["path"], name="buffer_type", impl_trait=None)
    if len(i) != 1:
        ctx.fail("ANCHOR", "buffer_type", "FramebufferTag::buffer_type exists", "", "%d" % len(i))
        return
    A = an.of(F, i[0])
    b = A.body
    me = deref(arg(1))
    tfield = [f["i"] for f in fbt["fields"] if f["off"] == 29 and f["size"] == 1]
    tail_i = [f["i"] for f in fbt["fields"] if f["name"] == fbt["tail"]["field"]][0]
    # try_from call argument
    tf_ok = False
    for bb, t in b.calls():
        ck = M.callee_key(t) or ""
        if ck == "<multiboot2::framebuffer::FramebufferTypeId as core::convert::TryFrom<u8>>::try_from":
            a0 = N(A.tb.operand(t["args"][0], (bb, len(b.stmts(bb)))))
            tf_ok = bool(tfield) and a0 == fld(me, tfield[0])
    ctx.check(tf_ok and F.ty(fbt["fields"][tfield[0]]["ty"]).get("kind") == "uint" if tfield else False, "G4", "buffer_type:raw-byte",
              "buffer_type() feeds the raw u8 at offset 29 to FramebufferTypeId::try_from (whose table is C20: 0,1,2 known, every other byte an error carrying it)",
              i[0].get("span", ""), how="try_from(self.<u8 field @29>)", why="argument of try_from is not the raw byte field")
    # error propagation: `?` on try_from
    ex = CH.exits(A)
    errs = [e for e in ex if e.kind == "Err"]
    TF = ("call", "<multiboot2::framebuffer::FramebufferTypeId as core::convert::TryFrom<u8>>::try_from", (fld(me, tfield[0]),)) if tfield else None
    ctx.check(TF is not None and len(errs) == 1 and N(errs[0].payload) == CH.payload_of(TF, 1) and CH.own_is_variant(errs[0], TF, 1), "G4", "buffer_type:error",
              "the only error exit of buffer_type() is the `?` on that try_from (the unknown byte is carried unchanged)", i[0].get("span", ""),
              how="one try_err exit", why=str([G.show(e.val)[:100] for e in ex]))
    # Reader over the tail
    rd = [N(A.tb.call_value(t, bb)) for bb, t in b.calls() if cn(M.callee_key(t) or "") == "multiboot2::framebuffer::Reader::new"]
    ok_rd = False
    for bb in sorted(b.reachable):
        for si, st in enumerate(b.stmts(bb)):
            if st["k"] == "assign" and st["rv"]["k"] == "aggr" and st["rv"].get("adt_name") == "Reader":
                v = N(A.tb.rvalue(st["rv"], (bb, si), st))
                ok_rd = len(v[2]) >= 2 and v[2][0] == ("ref", fld(me, tail_i)) and v[2][1] == ("c", 0)
                # cursor representation: the reader is just the not yet consumed rest, initially the whole variable part
                ok_rd = ok_rd or (len(v[2]) == 1 and v[2][0] == ("ref", fld(me, tail_i)))
    ctx.check(ok_rd or any(r[0] == "aggr" and (len(r[2]) >= 2 and r[2][0] == ("ref", fld(me, tail_i)) and r[2][1] == ("c", 0) or
                                                len(r[2]) == 1 and r[2][0] == ("ref", fld(me, tail_i))) for r in rd), "G6", "buffer_type:reader",
              "the colour information is read by a Reader starting at offset 0 of the variable part (tag offset 32)", i[0].get("span", ""), how="Reader{buffer: &self.buffer, off: 0}", why=str(rd)[:200])
    # Reader primitives
    r8 = F.find(impl_self_name="Reader", name="read_next_u8")
    r16 = F.find(impl_self_name="Reader", name="read_next_u16")
    if len(r8) == 1 and len(r16) == 1:
        R = an.of(F, r8[0])
        rt, _ = R.ret()
        n = N(rt) if rt is not None else None
        rself = deref(arg(1))
        ok8 = n is not None and is_elem_read(n, fld(rself, 0), fld(rself, 1))
        w = [N(v) for (_bb, _si, _n, v) in an.writes_through(R, 1)]
        ok8 = ok8 and w == [("bin", "Add", fld(rself, 1), ("c", 1))]
        if not ok8 and n is not None:
            # cursor representation: `let (first, rest) = self.rest.split_first().expect(..); self.rest = rest; *first`
            sf = ("unwrap", ("call", "core::slice::<impl [u8]>::split_first", (fld(rself, 0),)))
            first = n
            for _ in range(3):
                if first[0] == "deref":
                    first = first[1]
            ok8 = first == ("fld", sf, 0) and w == [("fld", sf, 1)]
        ctx.check(ok8, "G6", "Reader::read_next_u8", "read_next_u8() returns buffer.get(off) (bounds-checked, panics if unavailable) and advances off by 1", r8[0].get("span", ""),
                  how=G.show(rt)[:120], why=G.show(rt)[:200] + str(w))
        R2 = an.of(F, r16[0])
        rt, _ = R2.ret()
        n = N(rt) if rt is not None else None
        ok16 = False
        if n is not None and n[0] == "from_bytes" and n[1] == "from_le_bytes" and n[3] == "u16":
            # u16::from_le_bytes([first byte, second byte]) - the same little-endian composition
            arr = n[2]
            calls16 = [bb for bb, t in R2.body.calls() if M.callee_key(t) == r8[0]["key"]]
            if arr[0] == "aggr" and arr[1] == ("array",) and len(arr[2]) == 2 and len(calls16) == 2:
                first, second = sorted(calls16, key=lambda x: R2.body.rpo.index(x))
                raw = G.strip(rt)
                rarr = G.strip(raw[2])
                sites = [G.strip(x)[3][1] if G.strip(x)[0] == "call" and G.strip(x)[3] is not None else None for x in rarr[2]]
                ok16 = sites == [first, second] and R2.body.dominates(first, second) and first != second
        if n is not None and n[0] == "bin" and n[1] == "BitOr":
            hi, lo = n[2], n[3]
            is_rd = lambda x: x[0] == "call" and x[1] == r8[0]["key"]
            calls16 = [bb for bb, t in R2.body.calls() if M.callee_key(t) == r8[0]["key"]]
            # low byte is the first read, high byte the second (little endian)
            if hi[0] == "bin" and hi[1] == "Shl" and hi[3] == ("c", 8) and len(calls16) == 2:
                first, second = sorted(calls16, key=lambda x: R2.body.rpo.index(x))
                lo_t = N(R2.tb.call_value(R2.body.term(first), first))
                hi_t = N(R2.tb.call_value(R2.body.term(second), second))
                ok16 = lo in (lo_t, ("cast", "IntToInt", lo_t, "u16")) and hi[2] in (hi_t, ("cast", "IntToInt", hi_t, "u16")) and R2.body.dominates(first, second)
        ctx.check(ok16, "G6", "Reader::read_next_u16", "read_next_u16() = first byte | (second byte << 8): little-endian", r16[0].get("span", ""), how=G.show(rt)[:160], why=G.show(rt)[:260])
    # RGB arm: six consecutive byte reads in the specified order feeding red.position, red.size, green.., blue..
    rgb_ok = False
    for e in ex:
        v = N(e.val)
        if e.kind == "Ok" and e.variant and e.variant.startswith("RGB"):
            pl = e.payload
            if pl[0] == "aggr" and pl[1][2] == "RGB":
                # each of the six operands is a read_next_u8 call; the raw term carries the call's block (calls on the
                # mutable reader are site-tagged), so the order of the reads is the dominance order of those blocks
                sites = []
                for fldv in pl[2]:
                    rv_ = G.strip(fldv)
                    if rv_[0] == "aggr" and rv_[1][1].endswith("FramebufferField"):
                        for nm, opnd in zip(rv_[1][3], rv_[2]):
                            o = G.strip(opnd)
                            bb_ = o[3][1] if o[0] == "call" and len(r8) == 1 and o[1] == r8[0]["key"] and o[3] is not None else None
                            sites.append((nm, bb_))
                order = [x[1] for x in sites]
                if all(o is not None for o in order) and len(order) == 6 and len(set(order)) == 6:
                    rgb_ok = all(b.dominates(order[j], order[j + 1]) and order[j] != order[j + 1] for j in range(5)) and \
                        [s[0] for s in sites] == ["position", "size"] * 3 and list(pl[1][3]) == ["red", "green", "blue"]
    ctx.check(rgb_ok, "G6", "buffer_type:rgb", "direct-RGB colour info: six consecutive byte reads in the order red position, red mask size, green position, green mask size, "
              "blue position, blue mask size", i[0].get("span", ""), how="dominance order of the six read_next_u8 call sites", why="order/shape not recognised")
    # indexed arm: u16 count first, then palette from the remaining bytes (bounds: C01.U11)
    idx_ok = False
    for e in ex:
        if e.kind == "Ok" and e.variant and e.variant.startswith("Indexed"):
            pl = N(e.payload)
            if pl[0] == "aggr" and pl[1][2] == "Indexed":
                pal = pl[2][0]
                if pal[0] == "rawslice" and pal[3].endswith("FramebufferColor") and len(r16) == 1:
                    cnt = pal[2]
                    idx_ok = cnt[0] == "call" and cnt[1] == r16[0]["key"] and pal[1][0] == "asptr"
    ctx.check(idx_ok, "G6", "buffer_type:indexed", "indexed colour info: a little-endian u16 colour count, then that many 3-byte colours from the bytes that follow it",
              i[0].get("span", ""), how="palette = from_raw_parts(remaining.as_ptr(), read_next_u16())", why="shape not recognised")
