"""C12 — building then loading a header preserves its tags and is spec-well-formed.

BUILDER  build(): one push per tag slot (10), Option slots iff Some, end tag (type 0, flags 0, size 8) pushed once, last, on every path;
         new_boxed(Multiboot2BasicHeader::new(self.arch, 0), slices)
HDR      Multiboot2BasicHeader::new(arch, len) stores the constant magic 0xE85250D6, the given architecture, len and calc_checksum of them;
         set_size (called by new_boxed) stores the byte length and recomputes the checksum (C10.K)
SETTER   setter bijection; Builder::new(arch) stores arch
Imports  C16, C07 (EndHeaderTag image and alignment), C10 (the result loads: magic, checksum law), C14
"""
from .. import an
from .. import guard as G
from .. import kernel as K
from .. import layout as L
from .. import spec as S
from ..guard import N, arg, fld, deref, cn
from . import builders as B


def run(ctx):
    F = ctx.F()
    ba = L.adt(F, "multiboot2_header", "Builder")
    if ba is None:
        ctx.fail("ANCHOR", "Builder", "multiboot2_header::Builder exists", "", "missing")
        return ctx.finish("other", "anchor missing", [], "")
    arch_i = [f["i"] for f in ba["fields"] if f["name"] == "arch"]
    ctx.floor("BUILDER", "fields of multiboot2_header::Builder", len(ba["fields"]), 11)
    BH = "multiboot2_header::header::Multiboot2BasicHeader"
    bnew = F.insts.get(BH + "::new")
    hdr_term = None
    if bnew is None:
        ctx.fail("ANCHOR", "Multiboot2BasicHeader::new", "exists", "", "missing")
    else:
        rt, _ = an.of(F, bnew).ret()
        n = N(rt) if rt is not None else None
        ok = False
        if n is not None and n[0] == "aggr" and n[1][1] == BH:
            d = dict(zip(n[1][3], n[2]))
            ck = d.get("checksum")
            r = K.ring(raw_of(an.of(F, bnew), "checksum"), 32) if True else None
            M_ = 1 << 32
            ck_ok = False
            if r is not None:
                names = {repr(N(k)): v for k, v in r.m.items()}
                ck_ok = (r.c == (-S.HEADER_MAGIC) % M_ and names.get(repr(arg(2))) == M_ - 1 and
                         (names.get(repr(("discr", arg(1)))) == M_ - 1 or names.get(repr(("cast", "IntToInt", arg(1), "u32"))) == M_ - 1) and len(names) == 2)
            ok = d.get("header_magic") == ("c", S.HEADER_MAGIC) and d.get("arch") == arg(1) and d.get("length") == arg(2) and ck_ok
        ctx.check(ok, "HDR", "Multiboot2BasicHeader::new", "new(arch, len) = {magic 0xE85250D6, arch, len, checksum = -(magic + arch + len) mod 2^32}", bnew.get("span", ""),
                  how=G.show(rt)[:200], why=G.show(rt)[:300])

    def hdr_ok(h):
        # header passed to new_boxed: Multiboot2BasicHeader::new(self.arch, 0) (inlined aggregate)
        if h[0] != "aggr" or h[1][1] != BH:
            return False
        d = dict(zip(h[1][3], h[2]))
        return d.get("header_magic") == ("c", S.HEADER_MAGIC) and bool(arch_i) and d.get("arch") == fld(arg(1), arch_i[0]) and d.get("length") == ("c", 0)
    B.analyse_build(ctx, F, "multiboot2_header", ba, "multiboot2_header::end::EndHeaderTag", "type 0, flags 0, size 8", hdr_ok, non_tag_fields=("arch",))
    n = B.analyse_setters(ctx, F, ba, non_tag_fields=("arch",))
    ctx.floor("SETTER", "setters of multiboot2_header::Builder", n, 10)
    bn = F.find(impl_self_path=ba["path"], name="new", impl_trait=None)
    if len(bn) != 1:
        ctx.fail("ANCHOR", "Builder::new", "the header builder's constructor exists (one instance)", ba.get("span", ""), "%d found" % len(bn))
    if len(bn) == 1:
        rt, _ = an.of(F, bn[0]).ret()
        n_ = N(rt) if rt is not None else None
        ok = n_ is not None and n_[0] == "aggr" and dict(zip(n_[1][3], n_[2])).get("arch") == arg(1) and \
            all(v == ("aggr", ("adt", "core::option::Option", "None", ()), ()) for k, v in zip(n_[1][3], n_[2]) if k != "arch")
        ctx.check(ok, "SETTER", "Builder::new", "Builder::new(arch) stores the chosen architecture and starts with all slots empty", bn[0].get("span", ""), how=G.show(rt)[:120], why=G.show(rt)[:300])
    if ctx.tier == "thorough":
        from .. import witness
        witness.check(ctx, [("SlotTypeHeader", "a header-builder slot only accepts its own tag type")], rule="SETTER")
    for pid in ("C16", "C07", "C10"):
        ctx.import_prop(pid)
    ctx.note("hand step: new_boxed calls set_size(total) which stores the byte length and the recomputed checksum (C10.K set_size); the pushed slices are the supplied tags' "
             "byte views; all tag types are 8-aligned and sized in multiples of 8, so the header loads (C10) and its walk (C11.H5) meets the tags then the end tag")
    return ctx.finish(
        "other",
        "Slot coverage of the header builder's build() for all 10 slots (all 2^10 subsets at once), the terminating end tag as the last push on "
        "every path, the fresh basic header carrying the constant magic and the builder's architecture, setter write-sets and bijection; "
        "imported premises of new_boxed, constructor images/alignment and header loading.",
        ["rustc MIR", "mb2rules BUILDER/TERMS/KERNEL", "std: Vec::push order, Option::as_ref", "C16, C07, C10"],
        "one obligation per slot, per setter",
    )


def raw_of(A, field):
    """raw (un-normalised) operand term of a field in the single returned aggregate"""
    rt, _ = A.ret()
    t = G.strip(rt)
    names = t[1][3]
    return t[2][list(names).index(field)]
