"""C05 — variable-length tag contents have exactly the extent the tag size implies.

For every `impl MaybeDynSized` whose Self type is unsized (and every instantiation of the
generic `DynSizedStructure<H>`):
  L1  BASE_SIZE == layout offset of the unsized tail == oracle fixed-part size
  L2  dst_len's return term == (zext(header.size) - BASE_SIZE) / size_of(elem); for elem > 1 the
      fact (size - BASE_SIZE) % elem == 0 holds at the return (failing edge diverges)
  L3  the fact size >= BASE_SIZE holds at the return (failing edge diverges)
  L4  the accessor exposing the variable part returns exactly the tail field
"""
from .. import an
from .. import guard as G
from ..guard import N, cn
from .. import layout as L
from .. import spec as S
from .. import terms as T

MDS = "::tag::MaybeDynSized"

# public accessor -> how the variable part is exposed (API table; iterator-based ones are C18/C19)
ACCESSORS = {
    "CommandLineTag": ("cmdline", "decoder", "parse_slice_as_string"),
    "BootLoaderNameTag": ("name", "decoder", "parse_slice_as_string"),
    "ModuleTag": ("cmdline", "decoder", "parse_slice_as_string"),
    "MemoryMapTag": ("memory_areas", "ref", None),
    "SmbiosTag": ("tables", "ref", None),
    "InformationRequestHeaderTag": ("requests", "ref", None),
}


def size_field_atom(F, hdr_ty, arg_ty):
    """the term `(*arg1).<size field>` for header type hdr_ty, found by the oracle's offset of `size`"""
    a = F.adts.get(hdr_ty)
    if a is None:
        return None
    return a


def is_size_read(F, t, hdr_ty, size_off, size_w):
    """t (stripped) reads the field at offset size_off/width size_w of *arg1 (arg1: &hdr_ty)"""
    t = G.strip(t)
    if t[0] != "fld":
        return False
    base = t[1]
    if base != ("deref", ("arg", 1, "&" + hdr_ty)):
        return False
    a = F.adts.get(hdr_ty)
    if a is None:
        return False
    f = a["fields"][t[2]] if t[2] < len(a["fields"]) else None
    return bool(f) and f["off"] == size_off and f["size"] == size_w


def analyse_dst_len(ctx, F, inst, hdr_ty, base, elem, label, size_off=4, size_w=4, allow_header_fact=None):
    A = an.of(F, inst)
    rt, facts = A.ret()
    site = A.site()
    if rt is None:
        ctx.fail("L2", label, "dst_len of %s has a single normal return whose value is a term of the header" % label, site,
                 "UNRECOGNISED: several returns or an opaque return value")
        return
    rts = G.strip(rt)
    inner = rts
    if elem == 1 and rts[0] == "saturating" and rts[1] == "Sub" and G.strip(rts[2][1]) == ("c", base) \
            and is_size_read(F, G.strip(rts[2][0]), hdr_ty, size_off, size_w):
        ctx.ok("L2", label, "dst_len(%s) == saturating_sub(zext(header.size), %d): size - %d for size >= %d, else 0" % (label, base, base, base),
               site, how="return term %s" % G.show(rt))
        ctx.ok("L3", label, "an undersized declaration exposes an empty variable part (never more than the header, which I-BR guarantees to be "
               "inside the slice); the load path rejects it (C02.A2 / C10: raw total_size() < header -> ShorterThanHeader)", site,
               how="saturating subtraction")
        return
    if elem > 1:
        if not (rts[0] == "bin" and rts[1] == "Div" and G.strip(rts[3]) == ("c", elem)):
            ctx.fail("L2", label, "dst_len(%s) == (size - %d) / %d" % (label, base, elem), site, "return term %s" % G.show(rt))
            return
        inner = G.strip(rts[2])
    lf = G.lin(inner)
    good = lf.c == -base and len(lf.m) == 1
    atom = None
    if good:
        (atom, coef), = lf.m.items()
        good = coef == 1 and is_size_read(F, atom, hdr_ty, size_off, size_w)
    ctx.check(good, "L2", label,
              "dst_len(%s) == (zext(header.size) - %d)%s with header.size the u32 at offset %d" %
              (label, base, " / %d" % elem if elem > 1 else "", size_off), site,
              how="return term %s" % G.show(rt), why="return term %s" % G.show(rt))
    if not good:
        return
    size_t = ("zext", atom, "u32", "usize")
    if elem > 1:
        need = ("cmp", "Eq", ("bin", "Rem", inner, ("c", elem), "usize"), ("c", 0))
        j = G.entails(facts, need)
        ctx.check(j is not None, "L2", label + ":remainder",
                  "(size - %d) %% %d == 0 is a fact at dst_len's return (a remainder is rejected by a panic)" % (base, elem), site,
                  how="dominating edge fact: %s" % "; ".join(G.show(facts[i]) for i in (j[1] if j else [])),
                  why="no dominating guard establishes it; facts: %s" % [G.show(f) for f in facts])
    need = ("cmp", "Ge", size_t, ("c", base))
    j = G.entails(facts, need)
    how = None
    if j is not None:
        how = "dominating edge fact: %s" % "; ".join(G.show(facts[i]) for i in j[1])
    elif allow_header_fact is not None and allow_header_fact[0]:
        how = allow_header_fact[1]
    ctx.check(how is not None, "L3", label,
              "size >= %d is established before dst_len(%s) returns (an undersized tag is rejected by a panic)" % (base, label),
              site, how=how or "",
              why="no guard with a diverging failing edge establishes size >= %d (facts at return: %s)" %
              (base, [G.show(f) for f in facts]))
    if how is not None:
        tight_rejection(ctx, F, inst, A, label, size_t, base, elem, inner)


def tight_rejection(ctx, F, inst, A, label, size_t, base, elem, inner):
    """L3x: the rejection is *exact*: dst_len diverges only for a size below the fixed part (or, for multi-byte elements, one that
    leaves a remainder).  Every panic edge of dst_len that no fact rules out must lie under facts that entail one of the two
    conditions - so `size == BASE_SIZE` (an empty variable part) and every larger conforming size are answered, not rejected
    (mutation sweep: `assert!(size > BASE_SIZE)` passed L3, whose fact it entails).  Overflow-checked arithmetic is C08's."""
    from .. import panic as P
    bad = []
    n = 0
    for s in P.sites_of(F, inst):
        if s.status == "discharged" or s.kind in ("overflow", "unchecked"):
            continue
        n += 1
        facts = list(A.g.facts_at(s.bb))
        if s.kind == "maypanic" and s.terms and s.what.split("::")[-1] in ("unwrap", "expect"):
            # `x.checked_sub(y).unwrap()/expect(..)` diverges exactly when the answer is None, i.e. x < y (and `checked_rem` & co. by
            # their contracts): the failing condition of the call is a fact of its panic edge
            o_ = G.strip(s.terms[0])
            if o_[0] == "checked" and o_[1] == "Sub":
                facts.append(("cmp", "Lt", o_[2][0], o_[2][1]))
        from .. import exact as EX

        def allowed(fs_):
            # `max(a, b) != a` is `a < b` (and `min(a, b) != b` likewise): the bound test spelt `size.max(BASE) == size`
            extra_ = []
            for f_ in fs_:
                if isinstance(f_, tuple) and len(f_) == 4 and f_[0] == "cmp" and f_[1] == "Ne":
                    for (m_, o_) in ((f_[2], f_[3]), (f_[3], f_[2])):
                        if isinstance(m_, tuple) and m_ and m_[0] == "max" and len(m_) == 3 and G.strip(m_[1]) == G.strip(o_):
                            extra_.append(("cmp", "Lt", m_[1], m_[2]))
                        if isinstance(m_, tuple) and m_ and m_[0] == "max" and len(m_) == 3 and G.strip(m_[2]) == G.strip(o_):
                            extra_.append(("cmp", "Lt", m_[2], m_[1]))
            fs_ = list(fs_) + extra_
            if G.entails(fs_, ("cmp", "Lt", size_t, ("c", base))) is not None:
                return True
            return elem > 1 and G.entails(fs_, ("cmp", "Ne", ("bin", "Rem", inner, ("c", elem), "usize"), ("c", 0))) is not None
        v_ = EX.judge(facts, allowed)
        if v_ == "undecided":
            ctx.note("L3x %s: a panic edge of dst_len is reached under the discriminant of a joined value only - not decided" % label)
        elif v_ == "bad":
            bad.append("%s %s under %s" % (s.kind, s.what, [G.show(f) for f in facts][:4]))
    ctx.check(not bad, "L3x", label, "dst_len(%s) rejects only sizes below the fixed part%s: every panic edge lies under `size < %d`%s" %
              (label, " or leaving a remainder" if elem > 1 else "", base, " or `(size - %d) %% %d != 0`" % (base, elem) if elem > 1 else ""),
              A.site(), how="%d panic edge(s), each under the rejecting condition" % n, why="; ".join(bad)[:500])


def header_guarantee(ctx, F, hdr_ty):
    """(ok, how): does `<hdr_ty as Header>::payload_len` establish size >= size_of(hdr) on normal return?"""
    pl = F.find(impl_trait="multiboot2_common::Header", impl_self=hdr_ty, name="payload_len")
    if len(pl) != 1:
        return (False, "no payload_len")
    A = an.of(F, pl[0])
    rt, facts = A.ret()
    if rt is None:
        return (False, "payload_len unrecognised")
    hs = F.size_of(hdr_ty)
    lf = G.lin(G.strip(rt))
    if len(lf.m) != 1 or lf.c != -hs:
        return (False, "payload_len is %s" % G.show(rt))
    (atom, coef), = lf.m.items()
    j = G.entails(facts, ("cmp", "Ge", ("zext", atom, "u32", "usize"), ("c", hs)))
    if j is None:
        return (False, "payload_len of %s has no guard size >= %d" % (hdr_ty, hs))
    return (True, "header's payload_len asserts size >= %d before every dst_len call site that goes through it (%s)" % (hs, A.site()))


def run(ctx):
    F = ctx.F()
    oracle_by_ty = {}
    for tab, crate in ((S.MBI_TAGS, "multiboot2"), (S.HEADER_TAGS, "multiboot2_header")):
        for kind, row in tab.items():
            oracle_by_ty[(crate, row["ty"])] = row
    n_dst = 0
    seen_oracle = set()
    for im in L.impls_of(F, MDS):
        if im["generic"]:
            continue
        self_ty = im["self"]
        a = F.adts.get(self_ty)
        if a is None:
            ctx.fail("ANCHOR", self_ty, "layout of %s is available" % self_ty, im["span"], "missing")
            continue
        if not a.get("unsized"):
            continue
        if im["crate"] == "multiboot2_common":
            continue  # test_utils dummies are not part of the property
        n_dst += 1
        name = a["name"]
        base = L.impl_item(im, "BASE_SIZE").get("v")
        hdr_ty = L.impl_item(im, "Header")["ty"]
        tail = a.get("tail") or {}
        row = oracle_by_ty.get((a["crate"], name))
        # ---- L1
        ctx.check(base == tail.get("off"), "L1", name + ":layout",
                  "%s::BASE_SIZE (%s) == offset of the unsized tail `%s` (%s)" % (name, base, tail.get("field"), tail.get("off")),
                  im["span"], how="const-eval %s, layout offset %s" % (base, tail.get("off")),
                  why="BASE_SIZE %s != tail offset %s" % (base, tail.get("off")))
        if row is None:
            ctx.fail("L1", name + ":oracle", "%s is a specified variable-length kind" % name, im["span"],
                     "no oracle row for this type - a new DST tag kind must be added to spec.py with its specified fixed part")
        else:
            seen_oracle.add((a["crate"], name))
            ctx.check(base == row["fixed"] and tail.get("elem_size") == row["var"], "L1", name + ":oracle",
                      "%s: fixed part %d bytes, element size %s (specification)" % (name, row["fixed"], row["var"]), im["span"],
                      how="BASE_SIZE %s, tail element %s (%s bytes)" % (base, tail.get("elem"), tail.get("elem_size")),
                      why="BASE_SIZE %s / element size %s" % (base, tail.get("elem_size")))
        # header field `size`: offset 4 width 4 in both header kinds
        # ---- L2, L3
        dl = F.find(impl_trait="multiboot2_common::tag::MaybeDynSized", impl_self=self_ty, name="dst_len")
        if len(dl) != 1:
            ctx.fail("ANCHOR", name + ":dst_len", "dst_len of %s has MIR" % name, im["span"], "%d instances" % len(dl))
            continue
        hg = None
        hs = F.size_of(hdr_ty)
        if base == hs:
            hg = header_guarantee_wrapsafe(ctx, F, hdr_ty)
        analyse_dst_len(ctx, F, dl[0], hdr_ty, base, tail.get("elem_size") or 1, name, allow_header_fact=hg)
        # ---- L4
        acc = ACCESSORS.get(name)
        if acc:
            fn = F.find(impl_self=self_ty, name=acc[0], impl_trait=None)
            if len(fn) != 1:
                ctx.fail("ANCHOR", "%s::%s" % (name, acc[0]), "accessor %s::%s exists" % (name, acc[0]), im["span"], "missing")
            else:
                A = an.of(F, fn[0])
                rt, _ = A.ret()
                tail_idx = [f["i"] for f in a["fields"] if f["name"] == tail.get("field")][0]
                want = ("ref", ("fld", ("deref", ("arg", 1, "&" + self_ty)), tail_idx))
                got = rt
                if acc[1] == "decoder" and rt is not None and rt[0] == "call" and acc[2] in str(rt[1]) and len(rt[2]) == 1:
                    got = rt[2][0]
                gotn = None
                if got is not None and got[0] == "ref" and got[1][0] == "fld":
                    gotn = ("ref", ("fld", got[1][1], got[1][2]))
                ctx.check(gotn == want, "L4", "%s::%s" % (name, acc[0]),
                          "%s::%s() exposes exactly the tail field `%s`%s" % (name, acc[0], tail.get("field"),
                                                                           " through %s" % acc[2] if acc[2] else ""),
                          A.site(), how="return term %s" % G.show(rt), why="return term %s" % G.show(rt))
    ctx.floor("L1", "non-generic DST implementors of MaybeDynSized (both crates)", n_dst, 10)
    stride_agreement(ctx, F)
    for (crate, ty), row in oracle_by_ty.items():
        if row["var"] is not None and (crate, ty) not in seen_oracle:
            ctx.fail("ANCHOR", ty, "specified variable-length kind %s is modelled by a DST implementing MaybeDynSized" % ty, "", "not found")
    # ---- generic DynSizedStructure<H>: one instantiation per header type of the two crates
    n_gen = 0
    for hdr in L.impls_of(F, "multiboot2_common::Header"):
        if hdr["crate"] == "multiboot2_common":
            continue
        hty = hdr["self"]
        sty = "multiboot2_common::DynSizedStructure<%s>" % hty
        a = F.adts.get(sty)
        if a is None:
            ctx.fail("ANCHOR", sty, "layout of %s" % sty, hdr["span"], "missing")
            continue
        n_gen += 1
        hs = F.size_of(hty)
        tail = a.get("tail") or {}
        good = tail.get("off") == hs and tail.get("elem_size") == 1 and a["align"] == 8 and "C" in a["repr"]
        ctx.check(good, "L1", "DynSizedStructure<%s>:layout" % hdr["self_name"],
                  "DynSizedStructure<%s>: repr(C, align 8), [u8] payload at offset size_of(header) = %s" % (hdr["self_name"], hs),
                  a.get("span", ""), how="tail offset %s, align %s" % (tail.get("off"), a["align"]),
                  why="tail %s align %s repr %s" % (tail, a["align"], a["repr"]))
        # dst_len of the generic structure forwards to the header's payload_len (checked once on the
        # polymorphic body below); analyse that function for this header type
        dl = F.find(impl_trait="multiboot2_common::Header", impl_self=hty, name="payload_len")
        if len(dl) != 1:
            ctx.fail("ANCHOR", sty + ":payload_len", "payload_len of %s has MIR" % hty, hdr["span"], "%d instances" % len(dl))
            continue
        size_off = {"multiboot2::boot_information::BootInformationHeader": 0,
                    "multiboot2_header::header::Multiboot2BasicHeader": 8}.get(hty, 4)
        hg = header_guarantee_wrapsafe(ctx, F, hty)
        analyse_dst_len(ctx, F, dl[0], hty, hs, 1, "DynSizedStructure<%s>" % hdr["self_name"], size_off=size_off, allow_header_fact=hg)
    ctx.floor("L1", "header types instantiating DynSizedStructure", n_gen, 4)
    gd = [f for k, f in F.fns.items() if f.get("impl_self_name") == "DynSizedStructure" and f.get("name") == "dst_len"
          and f.get("impl_trait") == "multiboot2_common::tag::MaybeDynSized"]
    if len(gd) != 1:
        ctx.fail("ANCHOR", "DynSizedStructure::dst_len", "generic dst_len exists", "", "%d found" % len(gd))
    else:
        A = an.of(F, gd[0])
        rt, _ = A.ret()
        good = rt is not None and rt[0] == "call" and str(rt[1]).endswith("multiboot2_common::Header>::payload_len") and len(rt[2]) == 1 and rt[2][0][0] == "arg"
        ctx.check(good, "L2", "DynSizedStructure<H>::dst_len", "dst_len of the generic structure is payload_len() of the same header (polymorphic in H)",
                  A.site(), how=G.show(rt), why=G.show(rt))
    # payload() accessor of the generic structure (polymorphic body)
    pf = [f for k, f in F.fns.items() if f.get("impl_self_name") == "DynSizedStructure" and f.get("name") == "payload" and not f.get("impl_trait")]
    if len(pf) != 1:
        ctx.fail("ANCHOR", "DynSizedStructure::payload", "inherent payload() exists", "", "%d found" % len(pf))
    else:
        A = an.of(F, pf[0])
        rt, _ = A.ret()
        good = rt is not None and rt[0] == "ref" and rt[1][0] == "fld" and rt[1][2] == 1 and rt[1][1][0] == "deref" and rt[1][1][1][0] == "arg"
        ctx.check(good, "L4", "DynSizedStructure::payload", "DynSizedStructure::payload() exposes exactly the tail field (field 1)",
                  A.site(), how=G.show(rt), why=G.show(rt))
    palette_extent(ctx, F)
    # two kinds expose their variable-length part element by element through an iterator rather than as a slice (EFI memory
    # descriptors, ELF section headers): that every element handed out lies inside the part is the cursor lemma of C18 / C19
    # (including "no other Iterator method is overridden").  Not when this run is itself an import (C18 / C19 import C05's
    # premises for their own kind).
    if not getattr(ctx, "_imported", False):
        ctx.import_prop("C18")
        ctx.import_prop("C19")
        # L5 bounds the palette by "the bytes that remain of the reader's buffer": that this buffer is the tag's own `buffer`
        # field (whose extent is L2) and not, say, the padded trait payload, is premise G6 `buffer_type:reader` of C04
        ctx.import_prop("C04", only=lambda o: o.key == "buffer_type:reader", label="colour information is read from the buffer field")
    return ctx.finish(
        "other",
        "For every dynamically sized kind of both crates (and every header instantiation of the generic structure): the "
        "compiler's layout offset of the unsized tail equals BASE_SIZE and the specification's fixed part; dst_len's return "
        "term is (size - BASE_SIZE)/elem with the divisibility and lower-bound facts established on every normal return by "
        "guards whose failing edge diverges; the accessor exposes exactly the tail field. With Rust's DST semantics (n "
        "elements placed at the tail offset) the exposed part is [BASE, size) for all 2^32 sizes.",
        ["rustc layout of unsized structs", "mb2facts/mb2rules TERMS+GUARD", "oracle tables spec.py",
         "Rust DST semantics: a `&T` with metadata n covers the tail offset plus n elements"],
        "one obligation per (kind, clause L1..L4); non-trivial = needs a dominating-edge fact or a layout equality",
    )


_HDR_KINDS = ("InformationRequestHeaderTag", "HeaderTagHeader", "Multiboot2BasicHeader")
_GENERIC = ("DynSizedStructure<H>", "DynSizedStructure::payload")
_STRING_KINDS = ("CommandLineTag", "BootLoaderNameTag", "ModuleTag")


def only_header_kinds(o):
    """premise instances of C05 that concern the header crate (plus the generic structure)"""
    return any(k in o.key for k in _HDR_KINDS + _GENERIC)


def only_mbi_kinds(o):
    return not any(k in o.key for k in _HDR_KINDS)


def only_string_kinds(o):
    return any(k in o.key for k in _STRING_KINDS)


def stride_agreement(ctx, F):
    """L6: the memory map stores its own entry stride (`entry_size`, offset 8); the areas are exposed as a slice of the crate's
    24-byte `MemoryArea`, so element i of the slice is the entry at 16 + i * entry_size - and the element count of L2 is the
    specified (size - 16) / entry_size - only if entry_size == size_of::<MemoryArea>().  That equality must be a fact wherever
    the accessor returns (another stride is rejected by a controlled panic)."""
    ty = "multiboot2::memory_map::MemoryMapTag"
    a = F.adts.get(ty)
    fn = F.find(impl_self=ty, name="memory_areas", impl_trait=None)
    if a is None or len(fn) != 1:
        ctx.fail("ANCHOR", "MemoryMapTag::memory_areas", "accessor MemoryMapTag::memory_areas exists", "", "missing")
        return
    fld = [f for f in a["fields"] if f["off"] == 8 and f["size"] == 4]
    tail = a.get("tail") or {}
    A = an.of(F, fn[0])
    if len(fld) != 1 or not tail.get("elem_size"):
        ctx.fail("L6", "MemoryMapTag:stride", "MemoryMapTag has a u32 at offset 8 (entry_size) and a sized tail element", A.site(), "layout %s" % a["fields"])
        return
    f = fld[0]
    want = tail["elem_size"]
    rt, facts = A.ret()
    if facts is None:
        ctx.fail("L6", "MemoryMapTag:stride", "memory_areas() has a single normal return", A.site(), "UNRECOGNISED: several returns")
        return
    at = ("zext", ("fld", ("deref", ("arg", 1, "&" + ty)), f["i"], f["name"], "u32"), "u32", "usize")
    j = G.entails(facts, ("cmp", "Eq", at, ("c", want))) or G.entails(facts, ("cmp", "Eq", at[1], ("c", want)))
    ctx.check(j is not None, "L6", "MemoryMapTag:stride",
              "memory_areas() returns only under the fact entry_size == size_of::<MemoryArea>() = %d (the stored stride is the slice's stride)" % want,
              A.site(), how="dominating edge fact: %s" % "; ".join(G.show(facts[i]) for i in (j[1] if j else [])),
              why="no guard with a diverging failing edge establishes entry_size == %d at the return (facts: %s): with another stored stride "
                  "element i of the slice is not the i-th entry" % (want, [G.show(x) for x in facts]))


def palette_extent(ctx, F):
    """L5: the one variable part that is not a DST tail - the indexed-colour palette carved out of FramebufferTag's buffer:
    it starts where the reader stands (after the u16 count) and n * 3 bytes are bounded by the bytes that remain of that
    same buffer (whose own extent is L2 of FramebufferTag), so it cannot reach padding or the next tag."""
    from . import memsafe
    from .. import unsafe as U
    from .. import an
    insts = [i for i in F.insts.values() if cn(i["key"]).endswith("FramebufferTag::buffer_type") and not i.get("closure")]
    if len(insts) != 1:
        ctx.fail("ANCHOR", "FramebufferTag::buffer_type", "FramebufferTag::buffer_type has MIR", "", "%d instances" % len(insts))
        return
    inst = insts[0]
    A = an.of(F, inst)
    sites = [s for s in U.sites_of(F, inst) if s.kind == "unsafecall" and s.what == "core::slice::raw::from_raw_parts"]
    ctx.check(len(sites) == 1, "L5", "FramebufferTag:palette:site", "the palette slice is created at exactly one site of buffer_type", A.site(),
              how="1 from_raw_parts site", why="%d from_raw_parts sites" % len(sites))
    for s in sites:
        ok, how = memsafe.check_palette(F, s, A)
        src_ok = False
        if ok:
            # the bounding slice must be the reader's remaining bytes of self.buffer, not some other slice
            v = G.strip(A.tb.call_value(A.body.term(s.bb), s.bb))
            src = G.strip(v[1])[1]
            txt = G.show(N(src))
            src_ok = "remaining" in txt or ("index" in txt and "buffer" in txt)
            # or the rest a cursor-style reader holds: a slice-typed field of a local whose type is the private Reader
            rs = G.strip(src)
            if not src_ok and rs[0] == "fld" and len(rs) > 4 and str(rs[4]).startswith("&") and str(rs[4]).endswith("[u8]"):
                base = rs[1]
                if base[0] == "opq" and len(base) > 2 and base[1] == "phi" and isinstance(base[2], int):
                    src_ok = "framebuffer::Reader" in str(A.body.local_ty(base[2]))
            how += "; source slice = %s" % txt[:100]
        ctx.check(ok and src_ok, "L5", "FramebufferTag:palette", "palette = n colours starting at the reader position with n * 3 <= bytes remaining in the tag's buffer "
                  "(never past the declared size)", s.span, how=how, why=how)


def header_guarantee_wrapsafe(ctx, F, hty):
    """For the generic structure the lower bound may also come from the only constructor (ref_from_bytes)
    rejecting a wrapped subtraction; that premise is decided by C14 (B3w) and imported here."""
    hg = header_guarantee(ctx, F, hty)
    if hg[0]:
        return hg
    from . import c14
    ok, how = c14.wrap_rejecting_guard(ctx, F, hty)
    if ok:
        return (True, how)
    return (False, hg[1] + "; " + how)
