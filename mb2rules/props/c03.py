"""C03 — tag iteration reproduces the specification's tag walk, zero-copy.

T1  tags() hands TagIter::new the inherent payload() of the loaded structure (exactly the declared region minus the
    8-byte header); the iterator starts at offset 0 over that slice
T2  next(): the header is read at buffer.as_ptr() + offset; the new offset is
    round8(offset + size_of Header + payload_len(header)) = round8(offset + size)   (KERNEL form)
T3  the item is ref_from_slice(&buffer[offset .. new offset]).unwrap()  (C14.B4: same address, payload = size - 8 bytes)
T4  offset == len -> None is the first test; assert!(offset < len) dominates the raw read; slicing is bounds-checked
T5  ITER: next() writes only the offset, nothing on the None path; Clone is derived; the buffer is never written
T6  ModuleIter::next = find(typ == TagType::Module) on the inner TagIter, then cast::<ModuleTag>; module_tags() wraps tags()
"""
from .. import an
from .. import select as SEL
from .. import chain as CH
from .. import guard as G
from .. import mir as M
from .. import spec as S
from ..guard import N, arg, fld, deref, cn


def next_inst(F, hty):
    k = "<multiboot2_common::iter::TagIter<'_, %s> as core::iter::traits::iterator::Iterator>::next" % hty
    return F.insts.get(k)


def tagiter_fresh(n, payload, canon=lambda x: x):
    """n (N-form) is a freshly constructed TagIter over `payload`: the (buffer, next_tag_offset = 0) representation, or the
    cursor representation whose slice fields all start as the whole payload"""
    if not (isinstance(n, tuple) and n and n[0] == "aggr" and n[1][0] == "adt" and n[1][1] == "multiboot2_common::iter::TagIter"):
        return False
    vals = dict(zip(n[1][3], n[2]))
    if "next_tag_offset" in vals:
        return vals.get("next_tag_offset") == ("c", 0) and canon(vals.get("buffer")) == canon(payload)
    slices = [v for k, v in vals.items() if not (isinstance(v, tuple) and v and v[0] == "aggr")]      # PhantomData is an aggregate
    return len(slices) >= 1 and all(canon(v) == canon(payload) for v in slices)


def check_next_cursor(ctx, F, hty, size_off, label, rule_prefix, inst, it_adt):
    """the cursor representation of TagIter: `remaining` is the not yet walked rest of the buffer.
       next(): if remaining.is_empty() {None} else { hdr = *(remaining.as_ptr() as *const H); R = round8(size_of H + hdr.payload_len());
       (item, rest) = remaining.split_at(R); remaining = rest; Some(ref_from_slice(item).unwrap()) }
    Same premises as the index form, with `offset` = buffer.len() - remaining.len() (never stored)."""
    A = an.of(F, inst)
    b = A.body
    selfv = deref(arg(1))
    writes = [(bb, name, val) for (bb, si, name, val) in an.writes_through(A, 1)]
    names = {w[1] for w in writes}
    if len(names) != 1:
        ctx.fail(rule_prefix + "5", label + ":writes", "next() writes exactly one field (the rest of the buffer)", A.site(), "writes %s" % sorted(map(str, names)))
        return A
    rname = next(iter(names))
    fr = [f for f in it_adt["fields"] if f["name"] == rname][0]
    rest = fld(selfv, fr["i"])
    hs = F.size_of(hty)
    ex = CH.exits(A)
    nones = [e for e in ex if e.kind == "None"]
    somes = [e for e in ex if e.kind == "Some"]
    g = len(nones) == 1 and len(somes) == 1 and [N(f) for f in nones[0].own] == [("cmp", "Eq", ("len", rest), ("c", 0))] and len(nones[0].facts) == 1
    ctx.check(g, rule_prefix + "4", label + ":end", "next() returns None exactly when the rest is empty (offset == buffer.len()), as its first test", A.site(), how=str(nones)[:200], why=str(ex)[:400])
    # the header read: *(rest.as_ptr() as *const H)
    from .. import unsafe as U
    derefs = [s_ for s_ in U.sites_of(F, inst) if s_.kind == "rawderef"]
    ptr = ("asptr", rest)
    g2 = len(derefs) == 1
    facts = A.g.facts_at(derefs[0].bb) if derefs else []
    nonempty = any(N(f) in (("cmp", "Ne", ("len", rest), ("c", 0)), ("cmp", "Gt", ("len", rest), ("c", 0))) for f in facts)
    hdr_a = F.adts.get(hty)
    sidx = [f["i"] for f in hdr_a["fields"] if f["off"] == size_off and f["size"] == 4][0]
    size_n = fld(deref(ptr), sidx)
    ctx.check(g2 and any(x == size_n for x in _sub(N(writes[0][2]))), rule_prefix + "2", label + ":header-address",
              "the tag header is read at the start of the rest: buffer.as_ptr() + offset (bytes)", A.site(derefs[0].bb) if derefs else A.site(),
              how="*(rest.as_ptr() as *const H)", why="%d raw dereferences; stored value %s" % (len(derefs), G.show(writes[0][2])[:200]))
    ctx.check(nonempty, rule_prefix + "4", label + ":assert", "the rest is non-empty where the raw header pointer is formed (offset < buffer.len())", A.site(derefs[0].bb) if derefs else A.site(),
              how="negated emptiness test dominates the unsafe block", why="facts %s" % [G.show(f)[:80] for f in facts])
    g5 = len(writes) == 1 and bool(somes) and b.dominates(writes[0][0], somes[0].bb) and bool(nones) and not b.dominates(writes[0][0], nones[0].bb)
    ctx.check(g5, rule_prefix + "5", label + ":writes", "next() writes only the rest, once, on the path that yields an item; the None path writes nothing",
              A.site(), how=str([(w[0], w[1]) for w in writes]), why=str([(w[0], w[1]) for w in writes]))
    # step: rest' = rest[R..] with R = round8(size)
    wv = N(writes[0][2])
    R = wv[2] if wv[0] == "sub" and wv[1] == rest and wv[3] == ("len", rest) else None
    gstep = False
    if R is not None:
        raw_w = G.strip(writes[0][2])
        raw_R = raw_w[2]
        try:
            lf = G.lin(raw_R)
            size_atoms = [a for a in lf.m if isinstance(a, tuple) and a[0] == "fld" and N(a) == size_n]
            atoms2 = [a for a in lf.m if isinstance(a, tuple) and a[0] == "rem"]
            if len(size_atoms) == 1:
                X = ("zext", size_atoms[0], "u32", "usize")
                want = G.lin(("bin", "Add", X, ("c", 7), "usize")).add(G.Lin(0, {("rem", G.canon(("bin", "Add", X, ("c", 7), "usize")), 8): 1}), -1)
                gstep = lf.key() == want.key()
        except Exception:
            gstep = False
    ctx.check(gstep, rule_prefix + "2", label + ":step",
              "the rest shrinks by round8(size_of Header + payload_len) = (size + 7) - ((size + 7) mod 8), size being the u32 at header offset %d: new offset = round8(offset + size)" % size_off,
              A.site(writes[0][0]), how="rest = rest.split_at(R).1 with R in linear/remainder normal form", why="stored value %s" % G.show(writes[0][2])[:300])
    g3 = False
    why3 = ""
    if somes and R is not None:
        pl = N(somes[0].payload)
        why3 = G.show(somes[0].payload)[:300]
        rfs_key = "multiboot2_common::DynSizedStructure::<%s>::ref_from_slice" % hty
        rfs_call = None
        if pl[0] == "unwrap" and pl[1][0] == "call" and pl[1][1] == rfs_key:
            rfs_call = pl[1]
        elif pl[0] == "fld" and pl[2] == 0 and pl[1][0] == "dc" and pl[1][2] == 0 and pl[1][1][0] == "call" and pl[1][1][1] == rfs_key and \
                CH.guarded_by_variant(somes[0].facts, pl[1][1], 0):
            rfs_call = pl[1][1]
        if rfs_call is not None:
            sl = rfs_call[2][0]
            g3 = sl == ("sub", rest, ("c", 0), R)
    ctx.check(g3, rule_prefix + "3", label + ":item", "the yielded item is ref_from_slice(&buffer[offset .. new offset]).unwrap(): the first R bytes of the rest (bounds-checked split)", A.site(),
              how="Some(ref_from_slice(rest.split_at(R).0).unwrap())", why=why3)
    return A


def _sub(t, acc=None):
    acc = acc if acc is not None else []
    if isinstance(t, tuple):
        acc.append(t)
        for x in t:
            if isinstance(x, tuple):
                _sub(x, acc)
    return acc


def check_next(ctx, F, hty, size_off, label, rule_prefix="T"):
    inst = next_inst(F, hty)
    if inst is None:
        return ctx.fail("ANCHOR", "TagIter<%s>::next" % label, "instantiated", "", "missing")
    A = an.of(F, inst)
    b = A.body
    it = [a for k, a in F.adts.items() if a.get("name") == "TagIter" and k.startswith("multiboot2_common::iter::TagIter<") and hty in k]
    if not it:
        return ctx.fail("ANCHOR", "TagIter<%s>" % label, "layout available", "", "missing")
    itf = {f["name"]: f["i"] for f in it[0]["fields"]}
    if "next_tag_offset" not in itf or "buffer" not in itf:
        return check_next_cursor(ctx, F, hty, size_off, label, rule_prefix, inst, it[0])
    selfv = deref(arg(1))
    off = fld(selfv, itf["next_tag_offset"])
    buf = fld(selfv, itf["buffer"])
    hs = F.size_of(hty)
    ex = CH.exits(A)
    nones = [e for e in ex if e.kind == "None"]
    somes = [e for e in ex if e.kind == "Some"]
    # T4 first test
    def is_end_test(f):
        # `offset == buffer.len()`, or the same test on the rest of the buffer: `buffer[offset..].is_empty()` (len - offset == 0)
        f = N(f)
        if f == ("cmp", "Eq", off, ("len", buf)):
            return True
        try:
            return f[0] == "cmp" and f[1] == "Eq" and G.lin(f[2]).add(G.lin(f[3]), -1).key() in (
                G.lin(("len", buf)).add(G.lin(off), -1).key(), G.lin(off).add(G.lin(("len", buf)), -1).key())
        except Exception:
            return False
    def is_rest_exists(f):
        # the one thing that may precede the end test: `buffer.get(offset..)` answered Some (it diverges otherwise: an offset
        # beyond the buffer is the controlled panic of a walk that left the region)
        f = N(f)
        if f == ("cmp", "Le", off, ("len", buf)):
            return True         # (what that answer means)
        return f[0] == "is_some" and f[1][0] == "call" and cn(f[1][1]) == "core::slice::get" and len(f[1][2]) == 2 and f[1][2][0] == buf and \
            f[1][2][1][0] == "aggr" and f[1][2][1][1][1] == "core::ops::range::RangeFrom" and f[1][2][1][2] == (off,)
    def is_end_test_under(f, facts_):
        # `assert!(offset <= len); if offset >= len { return None }`: under offset <= len the test offset >= len is offset == len
        return N(f) in (("cmp", "Ge", off, ("len", buf)), ("cmp", "Le", ("len", buf), off)) and \
            any(N(x) in (("cmp", "Le", off, ("len", buf)), ("cmp", "Ge", ("len", buf), off)) for x in facts_ if x is not f)
    g = len(nones) == 1 and len(somes) == 1 and any(is_end_test(f) or is_end_test_under(f, nones[0].facts) for f in nones[0].own) and \
        all(is_rest_exists(f) for f in nones[0].facts if f not in nones[0].own)
    ctx.check(g, rule_prefix + "4", label + ":end", "next() returns None exactly when offset == buffer.len(), as its first test", A.site(), how=str(nones)[:200], why=str(ex)[:400])
    # raw header read
    adds = [(bb, t) for bb, t in b.calls() if M.callee_path(t).endswith("<impl *const T>::add")]
    if not adds:
        # `self.buffer[offset..].as_ptr()`: the same address through a bounds-checked sub-slice (TERMS: as_ptr of `&s[lo..]` is s.as_ptr() + lo)
        adds = [(bb, t) for bb, t in b.calls() if M.callee_path(t) == "core::slice::<impl [T]>::as_ptr" and N(A.tb.call_value(t, bb))[0] == "ptrop"]
    ptr = None
    if len(adds) == 1:
        bb, t = adds[0]
        ptr = N(A.tb.call_value(t, bb))
        g = ptr == ("ptrop", "add", ("asptr", buf), off, 1)
        facts = A.g.facts_at(bb)
        g2 = any(N(f) == ("cmp", "Lt", off, ("len", buf)) for f in facts)
        if not g2:
            # e.g. `if off == len { return None }  if off > len { panic!() }`: entailed, not literally present
            raw_off = raw_field(A, "next_tag_offset", itf, it[0])
            raw_buf = raw_field(A, "buffer", itf, it[0])
            # `buffer.get(offset..)` answered Some: offset <= len (std contract of get with a RangeFrom)
            facts = list(facts) + [("cmp", "Le", raw_off, ("len", raw_buf)) for f in facts if is_rest_exists(f)]
            g2 = G.entails(facts, ("cmp", "Lt", raw_off, ("len", raw_buf))) is not None
        ctx.check(g, rule_prefix + "2", label + ":header-address", "the tag header is read at buffer.as_ptr() + offset (bytes)", A.site(bb), how=G.show(ptr), why=G.show(ptr))
        ctx.check(g2, rule_prefix + "4", label + ":assert", "offset < buffer.len() is a fact where the raw header pointer is formed (the failing edge panics)", A.site(bb),
                  how="assert dominates the unsafe block", why="facts %s" % [G.show(f)[:80] for f in facts])
    else:
        ctx.fail(rule_prefix + "2", label + ":header-address", "exactly one raw pointer addition in next()", A.site(), "%d" % len(adds))
    # T4x: next() has no rejection of its own beyond "the offset has left the buffer": every explicit panic edge lies under
    # offset >= buffer.len() (the other controlled panics of the walk are the bounds-checked slicing, the header's own size test and
    # the unwrap of ref_from_slice - may-panic calls, not tests of next()).  An extra assertion on a conformant tag (say on the
    # size being a multiple of 8) is a walk that stops where the specification's walk continues
    from .. import panic as P_
    raw_off_ = raw_field(A, "next_tag_offset", itf, it[0])
    raw_buf_ = raw_field(A, "buffer", itf, it[0])
    bad_x, n_x = [], 0
    for s_ in P_.sites_of(F, inst):
        if s_.kind != "explicit" or s_.status == "discharged":
            continue
        n_x += 1
        fs_ = list(A.g.facts_at(s_.bb))

        def unwrap_spelt_out(f):
            # `match ref_from_slice(..) { Ok(t) => t, Err(e) => panic!(..) }`: the unwrap of T3, written as a match
            f = N(f)
            return f[0] == "cmp" and f[1] in ("Eq", "Ne") and f[2][0] == "discr" and f[2][1][0] == "call" and G.cn(f[2][1][1]).endswith("DynSizedStructure::ref_from_slice")
        def bounds_spelt_out(f):
            # `let Some(s) = buffer.get(from..to) else { panic!(..) }`: the bounds check of T3's slicing, written as a test
            f = N(f)
            return f[0] == "cmp" and f[2][0] == "discr" and f[2][1][0] == "call" and G.cn(f[2][1][1]) == "core::slice::get" and f[2][1][2] and f[2][1][2][0] == buf
        if any(unwrap_spelt_out(f) or bounds_spelt_out(f) for f in fs_):
            continue
        from .. import exact as EX
        if any(EX.opaque_discr(f) for f in fs_):
            ctx.note("T4x: a panic edge of next() is reached under the discriminant of a joined value only - not decided")
            continue
        if G.entails(fs_, ("cmp", "Ge", raw_off_, ("len", raw_buf_))) is None and not any(N(f) == ("cmp", "Ge", off, ("len", buf)) or N(f) == ("cmp", "Gt", off, ("len", buf)) for f in fs_):
            bad_x.append("%s under %s" % (s_.what, [G.show(f)[:70] for f in fs_][:4]))
    ctx.check(not bad_x, rule_prefix + "4x", label + ":exact-rejection", "next() itself diverges only when the offset has left the buffer (offset >= buffer.len())",
              A.site(), how="%d explicit panic edge(s), each under offset >= len" % n_x, why="; ".join(bad_x)[:400])
    # write
    writes = [(bb, name, val) for (bb, si, name, val) in an.writes_through(A, 1)]
    g5 = len(writes) == 1 and writes[0][1] == "next_tag_offset" and bool(somes) and b.dominates(writes[0][0], somes[0].bb) and \
        bool(nones) and not b.dominates(writes[0][0], nones[0].bb)
    ctx.check(g5, rule_prefix + "5", label + ":writes", "next() writes only next_tag_offset, once, on the path that yields an item; the None path writes nothing",
              A.site(), how=str([(w[0], w[1]) for w in writes]), why=str([(w[0], w[1]) for w in writes]))
    NEW = None
    if len(writes) == 1 and ptr is not None:
        raw_off = raw_field(A, "next_tag_offset", itf, it[0])
        hdr_a = F.adts.get(hty)
        sidx = [f["i"] for f in hdr_a["fields"] if f["off"] == size_off and f["size"] == 4][0]
        # size atom as it appears (raw): field sidx of deref(ptr)
        try:
            lf = G.lin(writes[0][2])
        except Exception:
            lf = None
        # expected: X + 7 - rem(X + 7, 8) with X = off + size   (payload_len = size - hs, + hs)
        size_atoms = [a for a in (lf.m if lf else {}) if isinstance(a, tuple) and a[0] == "fld" and N(a) == fld(deref(ptr), sidx)]
        g2 = False
        if lf is not None and len(size_atoms) == 1:
            X = ("bin", "Add", raw_off, ("zext", size_atoms[0], "u32", "usize"), "usize")
            want = G.lin(("bin", "Add", X, ("c", 7), "usize")).add(G.Lin(0, {("rem", G.canon(("bin", "Add", X, ("c", 7), "usize")), 8): 1}), -1)
            g2 = lf.key() == want.key()
            NEW = writes[0][2]
        ctx.check(g2, rule_prefix + "2", label + ":step",
                  "new offset = round8(offset + size_of Header + payload_len) = (offset + size + 7) - ((offset + size + 7) mod 8), size being the u32 at header offset %d" % size_off,
                  A.site(writes[0][0]), how="linear/remainder normal form of the stored value", why="stored value %s" % G.show(writes[0][2])[:300])
    # T3 item
    g3 = False
    why3 = ""
    if somes:
        pl = N(somes[0].payload)
        why3 = G.show(somes[0].payload)[:300]
        rfs_key = "multiboot2_common::DynSizedStructure::<%s>::ref_from_slice" % hty
        # ref_from_slice(..).unwrap() / .expect(..) / `match .. { Ok(t) => t, Err(e) => panic!(..) }`: the Ok payload, the Err path diverging
        rfs_call = None
        if pl[0] == "unwrap" and pl[1][0] == "call" and pl[1][1] == rfs_key:
            rfs_call = pl[1]
        elif pl[0] == "fld" and pl[2] == 0 and pl[1][0] == "dc" and pl[1][2] == 0 and pl[1][1][0] == "call" and pl[1][1][1] == rfs_key and \
                CH.guarded_by_variant(somes[0].facts, pl[1][1], 0):
            rfs_call = pl[1][1]
        if rfs_call is not None:
            pl = ("unwrap", rfs_call)
            sl = pl[1][2][0]
            if sl[0] == "call" and cn(sl[1]) == "core::slice::index::index" and sl[2][0] == buf:
                rg = sl[2][1]
                if rg[0] == "aggr" and rg[1][1] == "core::ops::range::Range":
                    start, end = rg[2]
                    # end must be `from + (to' - from)`-free: the rounded value R, and new offset == R
                    try:
                        g3 = start == off and NEW is not None and G.lin(raw_term_of_range_end(A, somes[0])).key() == G.lin(NEW).key()
                    except Exception:
                        g3 = False
    ctx.check(g3, rule_prefix + "3", label + ":item", "the yielded item is ref_from_slice(&buffer[offset .. new offset]).unwrap() (bounds-checked slicing)", A.site(),
              how="Some(ref_from_slice(index(buffer, offset..new_offset)).unwrap())", why=why3)
    return A


def raw_field(A, name, itf, it_adt):
    f = [x for x in it_adt["fields"] if x["name"] == name][0]
    return ("fld", ("deref", ("arg", 1, A.body.local_ty(1))), f["i"], name, f["ty"])


def raw_term_of_range_end(A, some_exit):
    """raw (un-normalised) term of the range end inside the Some payload"""
    t = G.strip(some_exit.payload)          # unwrap(call ref_from_slice(index(buf, Range(a,b))))  or  (call .. as Ok).0
    call = t[1]
    if t[0] == "fld":
        call = G.strip(t[1][1])
    idx = G.strip(call[2][0])
    rg = G.strip(idx[2][1])
    return rg[2][1]


def run(ctx):
    F = ctx.F()
    TH = "multiboot2::tag::TagHeader"
    BI = "multiboot2::boot_information::BootInformation::<'_>::"
    check_next(ctx, F, TH, 4, "TagHeader")
    # polymorphic next: same structure for every header type (used by C11 for the header crate)
    # ---- T1
    tags = F.insts.get(BI + "tags")
    if tags is None:
        ctx.fail("ANCHOR", "tags", "BootInformation::tags exists", "", "missing")
    else:
        A = an.of(F, tags)
        rt, facts = A.ret()
        n = N(rt) if rt is not None else None
        inner = fld(deref(arg(1)), 0)
        payload = ("ref", fld(deref(inner), 1))
        g = n is not None and tagiter_fresh(n, payload)
        ctx.check(g, "T1", "tags", "tags() = TagIter{offset 0, buffer = the loaded structure's payload field} (inherent payload(): the declared region after the header)",
                  A.site(), how=G.show(rt)[:200], why=G.show(rt)[:300])
        ds = F.adts.get("multiboot2_common::DynSizedStructure<multiboot2::boot_information::BootInformationHeader>")
        ctx.check(bool(ds) and ds["tail"]["off"] == 8 and ds["tail"]["field"] == "payload", "T1", "payload-offset", "that payload starts at byte 8 of the region (first tag at offset 8)",
                  (ds or {}).get("span", ""), how="layout: payload at 8", why=str(ds and ds["tail"]))
    # TagIter::new: private fields, constructor sets offset 0
    gen = [a for k, a in F.adts.items() if k.startswith("generic ") and a.get("name") == "TagIter"]
    ctx.check(len(gen) == 1 and all(not f["pub"] for f in gen[0]["fields"]), "T5", "private-fields", "TagIter's fields are private (state changes only through next())",
              "", how="private", why=str(gen))
    cl = [f for k, f in F.fns.items() if f.get("impl_self_name") == "TagIter" and f.get("impl_trait") == "core::clone::Clone" and f.get("name") == "clone"]
    ctx.check(len(cl) == 1 and cl[0].get("derived"), "T5", "clone", "TagIter: Clone is derived (a clone continues from the same offset over the same buffer)", cl[0].get("span", "") if cl else "",
              how="derived", why=str(len(cl)))
    ctors = []
    for k, f in F.fns.items():
        for bb in f["body"]["blocks"]:
            if bb.get("cleanup"):
                continue
            for st in bb["s"]:
                if st["k"] == "assign" and st["rv"]["k"] == "aggr" and st["rv"].get("adt") == "multiboot2_common::iter::TagIter":
                    ctors.append(f)
    bad = [f["path"] for f in ctors if not f.get("derived") and not (f.get("name") == "new" and f.get("impl_self_name") == "TagIter")]
    ctx.check(bool(ctors) and not bad, "T5", "who-constructs", "TagIter values are constructed only by TagIter::new (and derived Clone)", "", how=str(sorted({f.get("name") for f in ctors})), why=str(bad))
    from . import iters
    iters.check_overrides(ctx, F, "T5", "TagIter")
    iters.check_overrides(ctx, F, "T6", "ModuleIter")
    # ---- T6
    MI = "multiboot2::module::ModuleIter"
    mn = F.find(impl_self_name="ModuleIter", name="next", impl_trait="core::iter::traits::iterator::Iterator")
    if len(mn) != 1:
        ctx.fail("ANCHOR", "ModuleIter::next", "exists", "", "%d" % len(mn))
    else:
        B = an.of(F, mn[0])
        sel, why = SEL.analyse(F, mn[0])
        g = False
        if sel is not None:
            inner = fld(deref(arg(1)), 0)
            it_ok = SEL.canon_place(SEL.unref(sel["iter"])) == SEL.canon_place(inner) or SEL.unref(sel["iter"]) == inner
            from . import tagtables as TT_
            t2 = TT_.conv_key(F, "t2")
            sides = SEL.eq_sides(sel["pred"])
            pred_ok = False
            if sides is not None and sides[2] is None:
                c = [x for x in sides[:2] if x[0] == "call" and x[1] == t2 and SEL.unref(x[2][0])[0] == "cs" and SEL.unref(x[2][0])[2] == "Module"]
                tf = [x for x in sides[:2] if SEL.canon_place(x) == fld(fld(fld(deref(SEL.ELEM), 0), 0), 0)]
                pred_ok = len(c) == 1 and len(tf) == 1
            map_ok = SEL.is_cast_of_elem(sel["map"], ty_suffix="ModuleTag", via_cast=SEL.calls_cast_only(F, mn[0]))
            g = it_ok and pred_ok and map_ok
            why = "form %s: iter ok=%s predicate ok=%s map ok=%s" % (sel["form"], it_ok, pred_ok, map_ok)
        ctx.check(g, "T6", "ModuleIter::next", "ModuleIter::next() = inner TagIter .find(|t| u32 image of t.typ == u32 image of TagType::Module) .map(|t| t.cast::<ModuleTag>())",
                  B.site(), how=why, why=why)
    mt = F.insts.get(BI + "module_tags")
    if mt is None:
        ctx.fail("ANCHOR", "module_tags", "exists", "", "missing")
    else:
        rt, _ = an.of(F, mt).ret()
        n = N(rt) if rt is not None else None
        rt2, _ = an.of(F, tags).ret() if tags else (None, None)
        g = n is not None and n[0] == "aggr" and n[1][1] == MI and rt2 is not None and n[2] == (N(rt2),)
        ctx.check(g, "T6", "module_tags", "module_tags() wraps a fresh tags() iterator", mt.get("span", ""), how=G.show(rt)[:200], why=G.show(rt)[:300])
    mid = [i for i in F.impls if i.get("self") == "multiboot2::module::ModuleTag" and i.get("trait", "").endswith("::Tag")]
    idv = [x for x in (mid[0]["items"] if mid else []) if x["name"] == "ID"]
    ctx.check(bool(idv) and idv[0].get("variant") == "Module" and S.MBI_TAGS["Module"]["num"] == 3, "T6", "ModuleTag::ID", "ModuleTag::ID is the Module variant (number 3)",
              mid[0]["span"] if mid else "", how=str(idv and idv[0].get("variant")), why=str(idv))
    from . import c14
    c14.rounding_kernel(ctx, F, rule="T2")
    ctx.note("offsets stay multiples of 8 (initial 0, every stored value is a round8 result), so round8(offset + size) = offset + round8(size): the spec's step (hand step)")
    return ctx.finish(
        "other",
        "The iterator's transition function decided on MIR: initial state, header address, stored next offset in linear/remainder normal form "
        "(= round8(offset + size)), the bounds-checked slice handed to ref_from_slice, the end test and the guarding assertion, the write-set of "
        "next() per exit, derived Clone, who-may-construct; the module iterator's find/cast composition. By induction over the walk this is the "
        "specification's walk for every tag sequence.",
        ["rustc MIR", "mb2rules TERMS/GUARD/CHAIN/KERNEL", "std: Iterator::find, Option::map, slice indexing panics out of range", "C14 (ref_from_slice), C15 (cast), C20 (type id equality)"],
        "one obligation per premise T1..T6",
    )


def closure_ret(F, clo):
    if clo[0] != "aggr" or clo[1][0] != "closure":
        return None
    cf = [c for k, c in F.insts.items() if c.get("path") == clo[1][1]]
    if not cf:
        cf = [c for k, c in F.fns.items() if c.get("path") == clo[1][1]]
    if len(cf) < 1:
        return None
    rt, _ = an.of(F, cf[0]).ret()
    return N(rt) if rt is not None else None
