"""C19 — ELF-section iteration decodes 32/64-bit entries in order, inside the tag.

E1  sections(): facts n * entry_size <= len(sections) (computed without overflow) and shndx == 0 || shndx < n hold
    when the iterator is built (failing edges diverge); cursor = sections.as_ptr(), string section = base + shndx*es
E2  next(): one loop; per iteration exactly one `current += entry_size` and one `remaining -= 1`; the section is built
    from the pre-increment cursor; exhausted exactly when remaining == 0; yields iff section_type() != Unused
E3  get()/string_table(): entry_size 40 -> read as the 40-byte ELF32 header, 64 -> as the 64-byte ELF64 header, else diverge
E4  layouts of both header structs == ELF32/ELF64 Shdr; each decoding method reads the specified field
E5  section_type classification == SHT_* table (shared with C20) and the public accessors go through get()
Hand step: cursor = base + (n - remaining) * es, so every dereferenced entry lies in [0, n*es) inside the tag.
"""
from .. import an
from .. import chain as CH
from .. import classify as CL
from .. import guard as G
from .. import mir as M
from .. import spec as S
from ..guard import N, arg, fld, deref, cn
from . import c20

TAG = "multiboot2::elf_sections::ElfSectionsTag"
ITER = "multiboot2::elf_sections::ElfSectionIter"
SEC = "multiboot2::elf_sections::ElfSection"
I32 = "multiboot2::elf_sections::ElfSectionInner32"
I64 = "multiboot2::elf_sections::ElfSectionInner64"
U32 = ((0, 2**32 - 1),)

# decoding method -> ELF field (API table of the private decoding trait, found by role through get())
METHODS = {"name_index": "sh_name", "typ": "sh_type", "flags": "sh_flags", "addr": "sh_addr", "size": "sh_size", "addralign": "sh_addralign"}


def run(ctx):
    F = ctx.F()
    tag, it, sec = F.adts.get(TAG), F.adts.get(ITER + "<'_>"), F.adts.get(SEC + "<'_>")
    i32, i64 = F.adts.get(I32), F.adts.get(I64)
    if not all((tag, it, sec, i32, i64)):
        ctx.fail("ANCHOR", "types", "ElfSectionsTag, ElfSectionIter, ElfSection and the two header structs exist", "", str([bool(x) for x in (tag, it, sec, i32, i64)]))
        return ctx.finish("other", "anchor missing", [], "")
    tf = {f["name"]: f for f in tag["fields"]}
    itf = {f["name"]: f for f in it["fields"]}
    sf = {f["name"]: f for f in sec["fields"]}
    # ---- how the two layouts are dispatched: a private trait object (`&dyn ElfSectionInner`, the reference form) or a private
    # enum of two references; the obligations are the same (which bytes each decoding step reads, per layout), stated on whichever
    # form is there
    from .. import roles
    en = roles.elf_enum(F)
    enum_rep = None
    if en is not None:
        vs = en["variants"]
        enum_rep = {"adt": en, "name": en.get("name") or en["path"].split("::")[-1],
                    "by_layout": {I32: [v for v in vs if v["fields"][0] == "&" + I32][0], I64: [v for v in vs if v["fields"][0] == "&" + I64][0]}}
    # the decoder (`get` in the reference form) is found by its role: the one `&self` method of ElfSection answering that view
    get_key = roles.elf_decoder(F)
    get_name = F.insts[get_key]["name"] if get_key else "get"
    if enum_rep is not None:
        enum_rep["get_key"] = get_key or (SEC + "::<'_>::get")
    # ---- E4 layouts
    for (a, spec, nm) in ((i32, S.ELF32_SHDR, "ELF32"), (i64, S.ELF64_SHDR, "ELF64")):
        got = [(f["off"], f["size"]) for f in a["fields"]]
        want = [(o, w) for (_, o, w) in spec["fields"]]
        ctx.check(a["size"] == spec["size"] and got == want and a["align"] == 1 and a.get("niche") is None, "E4", "layout:" + nm,
                  "%s section header struct: %d bytes, packed (align 1), fields at the gABI offsets, no niche" % (nm, spec["size"]), a.get("span", ""),
                  how="compiler layout %s" % got, why="size %s align %s fields %s" % (a["size"], a["align"], got))
        ty = a["path"]
        for meth, fname in METHODS.items():
            if enum_rep is not None:
                enum_method(ctx, F, enum_rep, a, spec, nm, meth, fname)
                continue
            ins = F.find(impl_self=ty, name=meth, impl_trait="multiboot2::elf_sections::ElfSectionInner")
            if len(ins) != 1:
                ctx.fail("ANCHOR", "%s::%s" % (nm, meth), "decoding method exists", "", "%d" % len(ins))
                continue
            rt, _ = an.of(F, ins[0]).ret()
            n = N(rt) if rt is not None else None
            o, w = [(o, w) for (f, o, w) in spec["fields"] if f == fname][0]
            ok = n is not None and n[0] == "fld" and n[1] == deref(arg(1)) and a["fields"][n[2]]["off"] == o and a["fields"][n[2]]["size"] == w
            ctx.check(ok, "E4", "%s::%s" % (nm, meth), "%s::%s() returns %s (offset %d, %d bytes), zero-extended" % (nm, meth, fname, o, w), ins[0].get("span", ""),
                      how=G.show(rt), why=G.show(rt))
    row = S.MBI_TAGS["ElfSections"]
    ctx.check([(tf[n]["off"], tf[n]["size"]) for n in ("number_of_sections", "entry_size", "shndx")] == [(8, 4), (12, 4), (16, 4)] and tag["tail"]["off"] == row["fixed"],
              "E4", "layout:tag", "num u32@8, entsize u32@12, shndx u32@16, section headers from offset 20", tag.get("span", ""), how="compiler layout", why=str(tag["fields"]))
    # ---- E1
    ss = F.find(impl_self=TAG, name="sections", impl_trait=None)
    if len(ss) != 1:
        ctx.fail("ANCHOR", "sections", "ElfSectionsTag::sections exists", "", "%d" % len(ss))
        return ctx.finish("other", "anchor missing", [], "")
    A = an.of(F, ss[0])
    rt, facts = A.ret()
    me = deref(arg(1))
    n_t, es_t, sh_t = fld(me, tf["number_of_sections"]["i"]), fld(me, tf["entry_size"]["i"]), fld(me, tf["shndx"]["i"])
    secs = ("ref", fld(me, tf["sections"]["i"]))
    base = ("asptr", secs)
    agg = N(rt) if rt is not None else None
    ok_shape = agg is not None and agg[0] == "aggr" and agg[1][0] == "adt" and agg[1][1] == ITER
    vals = dict(zip(agg[1][3], agg[2])) if ok_shape else {}
    # the cursor is a raw pointer that starts at sections.as_ptr(), or a slice that starts as the section bytes themselves
    cursor_name = "current_section" if "current_section" in vals else next((k_ for k_, v_ in vals.items() if v_ == secs), None)
    cursor_is_slice = cursor_name is not None and cursor_name != "current_section"
    g = ok_shape and (vals.get("current_section") == base or cursor_is_slice) and vals.get("remaining_sections") == n_t and vals.get("entry_size") == es_t
    ctx.check(g, "E1", "iterator-fields", "the iterator starts at sections.as_ptr() with remaining = number_of_sections and the tag's entry_size", A.site(),
              how="cursor=base, remaining=n, entry_size=es", why=str(vals)[:500])
    sp = vals.get("string_section")
    g = sp is not None and sp[0] == "ptrop" and sp[1] in ("add", "offset") and sp[2] == base and sp[4] == 1 and sp[3] in (("bin", "Mul", sh_t, es_t), ("bin", "Mul", es_t, sh_t))
    ctx.check(g, "E1", "string-section", "the string-table header is at base + shndx * entry_size (bytes)", A.site(), how=G.show(sp)[:200], why=G.show(sp)[:300])
    nf = [N(f) for f in (facts or [])]
    prod = [("bin", "Mul", n_t, es_t), ("bin", "Mul", es_t, n_t)]
    fit = any(f[0] == "cmp" and ((f[1] == "Le" and f[2] in prod and f[3] == ("len", secs)) or (f[1] == "Ge" and f[3] in prod and f[2] == ("len", secs))) for f in nf)
    # the product must be computed in a type where it cannot overflow (u32 x u32 in u64/usize) - see the raw fact's type
    wide = False
    for f in (facts or []):
        if f[0] == "cmp" and N(f)[2] in prod or (f[0] == "cmp" and N(f)[3] in prod):
            for side in (f[2], f[3]):
                s0 = G.strip(side)
                if s0[0] == "bin" and s0[1] == "Mul":
                    wide = (s0[4] in ("u64", "usize", "u128")) and G.strip(s0[2])[0] == "fld" and G.strip(s0[3])[0] == "fld"
    ctx.check(fit and wide, "E1", "headers-fit", "n * entry_size <= sections.len() is a fact when the iterator is returned, the product being computed "
              "from the zero-extended u32 fields in a 64-bit type (cannot overflow)", A.site(), how="dominating-edge fact", why="facts: %s" % [G.show(f)[:120] for f in (facts or [])])
    shok = False
    for f in nf:
        if f[0] == "or":
            alts = f[1]
            a0 = any(c == (("cmp", "Eq", sh_t, ("c", 0)),) or ("cmp", "Eq", sh_t, ("c", 0)) in c and len(c) == 1 for c in alts)
            a1 = any(("cmp", "Lt", sh_t, n_t) in c or ("cmp", "Gt", n_t, sh_t) in c for c in alts)
            shok = shok or (a0 and a1 and len(alts) == 2)
        if f in (("cmp", "Lt", sh_t, n_t), ("cmp", "Gt", n_t, sh_t)):
            shok = True
    ctx.check(shok, "E1", "shndx", "shndx == 0 || shndx < number_of_sections is a fact when the iterator is returned (the string-table header is one of the n entries)",
              A.site(), how="disjunctive dominating fact", why="facts: %s" % [G.show(f)[:160] for f in (facts or [])])
    # E1x: the rejection is exact - "a tag whose entry count, entry size or string-table index would reach outside the tag is
    # rejected" has the converse "a tag whose n entries fit (and whose string-table index designates one of them, or none) is
    # iterated".  Every panic edge of sections() that no fact rules out lies under `n * entry_size > len` or under
    # `shndx != 0 && shndx >= n`; an extra test (`assert!(shndx != 0)`, a lower bound on n) keeps E1's facts and is reported here
    from .. import panic as P_
    bad_, ne_ = [], 0
    for s_ in P_.sites_of(F, ss[0]):
        if s_.status == "discharged" or s_.kind in ("overflow", "unchecked"):
            continue
        ne_ += 1
        jb_ = s_.bb
        for _ in range(4):
            pp_ = A.body.pred[jb_]
            if len(pp_) == 1 and A.body.term(pp_[0][0])["k"] in ("goto", "call"):
                jb_ = pp_[0][0]
            else:
                break
        preds_ = A.body.pred[jb_]
        sets_ = [[N(f) for f in A.g.facts_at(s_.bb)]]
        if len(preds_) > 1:
            sets_ = [[N(f) for f in list(A.g.facts_at(p_)) + list(A.g.edge_facts(p_, jb_, lab_))] for (p_, lab_) in preds_]
        for fs_ in sets_:
            if ("const", False) in fs_:
                continue
            if s_.kind == "maypanic" and "split_at" in str(s_.what) and len(s_.terms) >= 2 and N(s_.terms[0]) == secs and \
                    N(s_.terms[1]) in (("bin", "Mul", sh_t, es_t), ("bin", "Mul", es_t, sh_t)):
                # `sections.split_at(shndx * entry_size)`: in bounds under the two admission facts (shndx <= n, so
                # shndx * entry_size <= n * entry_size <= len - monotonicity of the product, a hand step)
                fit_here = any(f[0] == "cmp" and ((f[1] == "Le" and f[2] in prod and f[3] == ("len", secs)) or (f[1] == "Ge" and f[3] in prod and f[2] == ("len", secs))) for f in fs_)
                sh_here = any(f[0] == "or" or f in (("cmp", "Lt", sh_t, n_t), ("cmp", "Gt", n_t, sh_t)) for f in fs_)
                if fit_here and sh_here:
                    continue
            from .. import exact as EX

            def allowed_(fx_):
                fx_ = [N(f) if not (isinstance(f, tuple) and f and f[0] == "or") else f for f in fx_]
                fx_ = [f for f in fx_ if f[0] != "or"]
                too_big = any(f[0] == "cmp" and ((f[1] == "Gt" and f[2] in prod and f[3] == ("len", secs)) or (f[1] == "Lt" and f[3] in prod and f[2] == ("len", secs))) for f in fx_)
                far = (("cmp", "Ne", sh_t, ("c", 0)) in fx_ or G.entails(fx_, ("cmp", "Ge", sh_t, ("c", 1))) is not None) and \
                    (("cmp", "Ge", sh_t, n_t) in fx_ or ("cmp", "Le", n_t, sh_t) in fx_ or G.entails(fx_, ("cmp", "Ge", sh_t, n_t)) is not None)
                return too_big or far
            v_ = EX.judge(fs_, allowed_)
            if v_ == "undecided":
                ctx.note("E1x: a panic edge of sections() is reached under the discriminant of a joined value only - not decided")
                continue
            if v_ == "bad":
                bad_.append("%s %s under %s" % (s_.kind, s_.what, [G.show(f)[:70] for f in fs_][:4]))
    ctx.check(not bad_, "E1x", "exact-rejection", "sections() diverges only when the n entries do not fit (n * entry_size > len) or the string-table index is "
              "neither 0 nor one of them (shndx != 0 && shndx >= n)", A.site(), how="%d panic edge(s), each under one of the two rejecting conditions" % ne_,
              why="; ".join(bad_)[:500])
    # who constructs the iterator / sections
    for (adt, allowed, what) in ((ITER, ("sections",), "ElfSectionIter"), (SEC, ("next",), "ElfSection")):
        from .. import inline as INL
        # a helper that is not a unit of its own belongs to the functions it is spliced into; a closure to its enclosing function
        ctors, bad = INL.constructors_of(F, adt, allowed)
        ctx.check(bool(ctors) and not bad, "E1", "who-constructs:" + what, "%s values are constructed only in %s (and derived Clone/Copy)" % (what, "/".join(allowed)), "",
                  how=str(sorted({str(f.get("name")) for f in ctors})), why=str(bad))
        a = F.adts.get(adt + "<'_>")
        ctx.check(all(not f["pub"] for f in a["fields"]), "E1", "private-fields:" + what, "all fields of %s are private" % what, a.get("span", ""), how="private", why=str(a["fields"]))
    # ---- E2 next()
    nx = F.find(impl_self_name="ElfSectionIter", name="next", impl_trait="core::iter::traits::iterator::Iterator")
    if len(nx) != 1:
        ctx.fail("ANCHOR", "next", "Iterator::next for ElfSectionIter exists", "", "%d" % len(nx))
    else:
        B = an.of(F, nx[0])
        b = B.body
        be = b.back_edges()
        writes = [(bb, name, N(v)) for (bb, _si, name, v) in an.writes_through(B, 1)]
        selfv = deref(arg(1))
        es_i = fld(selfv, itf["entry_size"]["i"])
        ok = len(be) == 1 and len(writes) == 2
        why = "back edges %s writes %s" % (be, [(w[0], w[1]) for w in writes])
        sec_ok = skip_ok = none_ok = False
        if ok:
            tail, head = be[0]
            lb = b.loop_blocks(head, tail)
            w = {x[1]: x for x in writes}
            cname = cursor_name or "current_section"
            cur, rem = w.get(cname), w.get("remaining_sections")
            ok = cur is not None and rem is not None
            if ok:
                def is_phi(t, fname):
                    return t[0] == "opq" and t[1] == "phi" and t[2] == 1 and len(t[3]) == 2 and t[3][1][2] == fname
                c_ok = cur[2][0] == "ptrop" and cur[2][1] in ("offset", "add") and is_phi(cur[2][2], "current_section") and cur[2][3] == es_i and cur[2][4] == 1
                if cursor_is_slice:
                    # slice cursor: rest = rest.split_at(entry_size).1
                    c_ok = cur[2][0] == "sub" and is_phi(cur[2][1], cname) and cur[2][2] == es_i and cur[2][3] == ("len", cur[2][1])
                r_ok = rem[2][0] == "bin" and rem[2][1] == "Sub" and is_phi(rem[2][2], "remaining_sections") and rem[2][3] == ("c", 1)
                once = all(x[0] in lb and b.dominates(x[0], tail) for x in (cur, rem))
                ok = c_ok and r_ok and once
                why = "cursor update ok=%s, counter update ok=%s, once per iteration=%s" % (c_ok, r_ok, once)
                ex = CH.exits(B)
                somes = [e for e in ex if e.kind == "Some"]
                nones = [e for e in ex if e.kind == "None"]
                if len(somes) == 1 and len(nones) == 1:
                    pl = N(somes[0].payload)
                    if pl[0] == "aggr" and pl[1][1] == SEC:
                        v = dict(zip(pl[1][3], pl[2]))
                        inner_v = v.get("inner", ("x",))
                        if cursor_is_slice and inner_v[0] == "asptr":
                            inner_v = inner_v[1]        # the start of the rest (= of its first entry_size bytes)
                        sec_ok = is_phi(inner_v, cname) and v.get("entry_size") == es_i and \
                            v.get("string_section") == fld(selfv, itf["string_section"]["i"])
                        # yields iff section_type(section) != Unused
                        own = [N(f) for f in somes[0].own]
                        st_key = SEC + "::<'_>::section_type"
                        for f in own:
                            # derived PartialEq on the fieldless ElfSectionType, spliced in: discriminant(section_type(&section)) != discriminant(Unused)
                            if f[0] == "cmp" and f[1] == "Ne":
                                for (p_, q_) in ((f[2], f[3]), (f[3], f[2])):
                                    if p_ == ("discr", ("call", st_key, (("ref", pl),))) and q_[0] == "discr" and q_[1][0] == "cs" and q_[1][2] == "Unused":
                                        skip_ok = True
                                    # `!matches!(section_type(), Unused)`: the discriminant compared with Unused's number (compiler's table)
                                    ua = F.adts.get("multiboot2::elf_sections::ElfSectionType") or {}
                                    ud = [v_.get("discr") for v_ in ua.get("variants", []) if v_.get("name") == "Unused"]
                                    if p_ == ("discr", ("call", st_key, (("ref", pl),))) and len(ud) == 1 and q_ == ("c", ud[0]):
                                        skip_ok = True
                            x = f
                            if x[0] == "istrue" and x[1][0] == "call" and "PartialEq>::ne" in str(x[1][1]):
                                a0, a1 = x[1][2]
                                c_unused = ("ref", ("cs", "multiboot2::elf_sections::ElfSectionType::Unused", "Unused", ()))
                                if a1 == c_unused and a0[0] == "ref" and a0[1][0] == "call" and a0[1][1] == st_key and a0[1][2] == (("ref", pl),):
                                    skip_ok = True
                    def is_zero_test(f):
                        # remaining == 0, however spelt: == 0, < 1, <= 0, or `remaining.checked_sub(1)` answering None
                        f = N(f)
                        if f[0] != "cmp":
                            return False
                        if is_phi(f[2], "remaining_sections"):
                            return (f[1], f[3]) in (("Eq", ("c", 0)), ("Lt", ("c", 1)), ("Le", ("c", 0)))
                        return f[1] == "Eq" and f[3] == ("c", 0) and f[2][0] == "discr" and f[2][1][0] == "checked" and f[2][1][1] == "Sub" and \
                            is_phi(f[2][1][2][0], "remaining_sections") and f[2][1][2][1] == ("c", 1)
                    none_ok = 1 <= len(nones[0].own) <= 2 and all(is_zero_test(f) for f in nones[0].own)
        ctx.check(ok, "E2", "loop", "next() has one loop; per iteration exactly one `current_section += entry_size` (bytes) and one `remaining_sections -= 1`",
                  B.site(), how=why, why=why)
        ctx.check(sec_ok, "E2", "section", "the section handed out is built from the pre-increment cursor, the iterator's entry_size and string-section pointer", B.site(),
                  how="ElfSection{inner: cursor at loop head, ..}", why="payload does not match")
        ctx.check(skip_ok, "E2", "skip-unused", "a section is yielded exactly when its section_type() != ElfSectionType::Unused; otherwise the loop continues", B.site(),
                  how="own guard of the Some exit", why="guard not recognised")
        ctx.check(none_ok, "E2", "exhausted", "None is returned exactly when remaining_sections == 0 at the loop head", B.site(), how="loop guard", why="guard not recognised")
    # ---- E3 get() / string_table()
    for (fname, ptr_field) in (("get", "inner"), ("string_table", "string_section")):
        ins = F.find(impl_self_name="ElfSection", name=(get_name if fname == "get" else fname), impl_trait=None)
        if len(ins) != 1:
            ctx.fail("ANCHOR", fname, "ElfSection::%s exists" % fname, "", "%d" % len(ins))
            continue
        inst = ins[0]
        body = M.Body(inst)
        from .. import terms as T
        tb = T.TB(F, body)
        # the decision is read off as an interval table of the returned value over entry_size (CLASSIFY: `match`, if / else-if
        # chains, early returns and a choice joined before the return all give the same table)
        es_s = fld(deref(arg(1)), sf["entry_size"]["i"])
        pfield = fld(deref(arg(1)), sf[ptr_field]["i"])
        it_term = None
        arms, raw_arms = {}, {}
        rest = []
        try:
            it_, pieces, _ = CL.classify(F, inst, domain=U32, target=0, expand=True)
            it_term = it_ if N(it_) == es_s else None
            raw_arms = {CL.fmt(iv): v for (iv, v, bb) in pieces if v[0] != "diverge"}
            arms = {k_: N(v) for k_, v in raw_arms.items()}
            rest = [iv for (iv, v, bb) in pieces if v[0] == "diverge"]
            if len(rest) > 1:
                u = ()
                for r_ in rest:
                    u = CL.union(u, r_)
                rest = [u]
        except CL.Unrecognised as e:
            arms = {"UNRECOGNISED": ("opq", str(e))}
        ok_in = it_term is not None
        want_rest = CL.minus(U32, ((40, 40), (64, 64)))
        ok_rest = len(rest) == 1 and rest[0] == want_rest
        tys = {}
        shapes = {}

        def arm_ok(key, ty, a):
            # get: &*(inner as *const Ty) as &dyn ElfSectionInner: the unsizing coercion names the type the pointer is read as;
            # string_table: the address is computed from (*(ptr as *const Ty)).addr: the field projection (index, type) names it,
            # and nothing else in the returned expression may differ between the two arms
            v = arms[key]
            if fname == "get" and enum_rep is not None:
                want_v = enum_rep["by_layout"][ty]
                if v[0] == "aggr" and v[1][0] == "adt" and v[1][2] == want_v["name"] and len(v[2]) == 1:
                    x_ = v[2][0]
                    for _ in range(4):
                        if x_[0] == "ref" and x_[1][0] == "deref":
                            x_ = x_[1][1]
                        else:
                            break
                    tys[key] = want_v["fields"][0][1:]       # the variant's field type fixes what the pointer is read as
                    return x_ == pfield
                return False
            if fname == "get":
                src_ty = None
                for _ in range(6):
                    if v[0] == "unsize":     # &T -> &dyn ElfSectionInner (possibly coerced twice)
                        src_ty = v[3] if len(v) > 3 and str(v[3]).startswith("&") and "dyn " not in str(v[3]) else src_ty
                        v = v[1]
                    elif v[0] == "ref" and v[1][0] == "deref":
                        v = v[1][1]
                    else:
                        break
                if src_ty:
                    tys[key] = src_ty[1:].strip()
                return v == pfield and tys.get(key) == ty
            af = [f for f in a["fields"] if f["name"] == "addr"][0]
            reads = {x for x in CL._subterms(raw_arms[key]) if isinstance(x, tuple) and len(x) > 4 and x[0] == "fld" and N(x[1]) == ("deref", pfield)}
            if len(reads) != 1:
                return False
            rd = next(iter(reads))
            if rd[2] == af["i"] and rd[4] == af["ty"]:
                tys[key] = ty
            shapes[key] = N(CL._replace(raw_arms[key], rd, ("opq", "the addr field")))
            while shapes[key][0] == "cast" and shapes[key][1] == "IntToInt" or shapes[key][0] == "zext":
                break
            return tys.get(key) == ty
        ok40 = "40" in arms and arm_ok("40", I32, i32)
        ok64 = "64" in arms and arm_ok("64", I64, i64)
        if fname == "string_table" and ok40 and ok64:
            # same expression around the field read (a widening of the 32-bit field is the only difference allowed)
            def unwiden(t_):
                if isinstance(t_, tuple):
                    if t_ and t_[0] == "zext" and t_[1] == ("opq", "the addr field"):
                        return t_[1]
                    if t_ and t_[0] == "cast" and t_[1] == "IntToInt" and t_[2] == ("opq", "the addr field") and t_[3] == "usize":
                        return t_[2]
                    return tuple(unwiden(x) if isinstance(x, tuple) else x for x in t_)
                return t_
            ok40 = unwiden(shapes["40"]) == unwiden(shapes["64"])
        ctx.check(ok_in and ok_rest and ok40 and ok64, "E3", fname,
                  "%s(): entry_size 40 -> the pointer is read as the 40-byte ELF32 header, 64 -> as the 64-byte ELF64 header, every other size diverges (panic)" % fname,
                  inst.get("span", ""), how="arms %s; pointee types %s; rest diverges" % (sorted(arms), tys),
                  why="input ok=%s rest=%s arms=%s pointee types=%s" % (ok_in, [CL.fmt(r) for r in rest], {k: G.show(v)[:80] for k, v in arms.items()}, tys))
    ctx.check(i32["size"] == 40 and i64["size"] == 64, "E3", "arm-constants", "the arm constants equal the sizes of the structs read (40 / 64) = the stride", "",
              how="size_of Inner32 = 40, Inner64 = 64", why="%s %s" % (i32["size"], i64["size"]))
    # ---- E5 public accessors go through get() and the named decoding method
    acc = {"start_address": "addr", "size": "size", "addralign": "addralign", "section_type_raw": "typ"}
    for a_name, meth in acc.items():
        ins = F.find(impl_self_name="ElfSection", name=a_name, impl_trait=None)
        if len(ins) != 1:
            ctx.fail("ANCHOR", "ElfSection::" + a_name, "accessor exists", "", "%d" % len(ins))
            continue
        if enum_rep is not None:
            enum_accessor(ctx, F, enum_rep, ins[0], a_name, meth, {I32: (i32, S.ELF32_SHDR), I64: (i64, S.ELF64_SHDR)})
            continue
        rt, _ = an.of(F, ins[0]).ret()
        n = N(rt) if rt is not None else None
        ok = n is not None and n[0] == "call" and str(n[1]).startswith("virtual ") and str(n[1]).endswith("ElfSectionInner>::" + meth) and \
            len(n[2]) == 1 and n[2][0][0] == "call" and n[2][0][1] == SEC + "::<'_>::get" and n[2][0][2] == (arg(1),)
        ctx.check(ok, "E5", "ElfSection::" + a_name, "%s() = get().%s()" % (a_name, meth), ins[0].get("span", ""), how=G.show(rt)[:160], why=G.show(rt)[:300])
    fl = F.find(impl_self_name="ElfSection", name="flags", impl_trait=None)
    if len(fl) == 1 and enum_rep is not None:
        enum_accessor(ctx, F, enum_rep, fl[0], "flags", "flags", {I32: (i32, S.ELF32_SHDR), I64: (i64, S.ELF64_SHDR)}, wrapper="from_bits_truncate")
    elif len(fl) == 1:
        rt, _ = an.of(F, fl[0]).ret()
        n = N(rt) if rt is not None else None
        ok = n is not None and n[0] == "call" and "from_bits_truncate" in str(n[1]) and n[2][0][0] == "call" and str(n[2][0][1]).endswith("ElfSectionInner>::flags")
        ctx.check(ok, "E5", "ElfSection::flags", "flags() = ElfSectionFlags::from_bits_truncate(get().flags())", fl[0].get("span", ""), how=G.show(rt)[:160], why=G.show(rt)[:300])
    st = F.find1(impl_self_name="ElfSection", name="section_type", impl_trait=None)
    if not st:
        ctx.fail("ANCHOR", "ElfSection::section_type", "ElfSection::section_type exists", "", "missing")
    if st:
        c20.table_check(ctx, "E5", "section_type", st, S.ELF_SECTION_TYPES, "ElfSectionType", domain=U32, other=(S.ELF_SECTION_RANGES, S.ELF_SECTION_OTHER))
    from . import tagtables as TT_
    TT_.flag_constants(ctx, F, S.ELF_FLAG_CONSTANTS, "E6", "ELF gABI sh_flags bit")
    ctx.note("ElfSection::name()/string_table() dereference an address stored in the tag (external memory): the documented exception of C01; not part of this property's bounds")
    from . import iters
    rem_ = fld(deref(arg(1)), itf["remaining_sections"]["i"])
    cands = (rem_, ("cast", "IntToInt", rem_, "usize"))
    # size_hint/len report the entries still to be *looked at* (an upper bound of the items to come; not claimed exact: unused
    # entries are skipped) - checked only for being that counter, so that an override cannot silently change iteration
    iters.check_overrides(ctx, F, "E2", "ElfSectionIter", verified={"size_hint": iters.size_hint_is(F, cands)})
    # the extent of the section bytes themselves (sections = [20, size)) is C05's premise for this kind
    ctx.import_prop("C05", only=lambda o: "ElfSectionsTag" in o.key, label="ElfSectionsTag")
    return ctx.finish(
        "other",
        "Premises of the cursor lemma decided on MIR: the two facts established by sections() (headers fit, string-table index in range) with "
        "diverging failing edges; the loop of next() (single back edge, one cursor advance by entry_size and one counter decrement per "
        "iteration, section built from the loop-head cursor, skip rule); the entry-size classifier of get()/string_table() with pointee types; "
        "layouts of both header structs against the ELF gABI and the field each decoding method reads; the SHT classification table.",
        ["rustc MIR/layout", "mb2rules TERMS/GUARD/CLASSIFY/loop pairing", "hand proof of the cursor lemma (DESIGN.md §4 C19)", "ELF gABI tables in spec.py"],
        "one obligation per premise E1..E5 (per method / per struct where applicable)",
    )


def _field_read(v, base_pred):
    """v (raw term) is a plain or widened read of one field through a reference satisfying base_pred -> (index, declared type)"""
    x = v
    for _ in range(4):
        if x[0] == "zext":
            x = x[1]
        elif x[0] == "cast" and x[1] == "IntToInt":
            x = x[2]
        else:
            break
    if x[0] == "fld" and len(x) > 4 and x[1][0] == "deref" and base_pred(N(x[1][1])):
        return x[2], x[4]
    return None


def _spec_field(a, spec, fname):
    o, w = [(o, w) for (f, o, w) in spec["fields"] if f == fname][0]
    return [f for f in a["fields"] if f["off"] == o and f["size"] == w]


def enum_method(ctx, F, enum_rep, a, spec, nm, meth, fname):
    """E4 for the enum form: the enum's decoding method `meth`, on the variant holding this layout, reads this layout's field"""
    hs = [h for k, h in list(F.helper_insts.items()) + list(F.insts.items())
          if h.get("impl_self_name") == enum_rep["name"] and not h.get("impl_trait") and h.get("name") == meth]
    if len(hs) != 1:
        ctx.fail("ANCHOR", "%s::%s" % (nm, meth), "decoding method exists", "", "%d" % len(hs))
        return
    var = enum_rep["by_layout"][a["path"]]
    want = _spec_field(a, spec, fname)
    ok = False
    why = ""
    try:
        it_, pieces, _ = CL.classify(F, hs[0], domain=((0, 1),))
        subj = N(it_)
        ok_in = subj in (("discr", deref(arg(1))), ("discr", arg(1)))
        for (iv, val, bb) in pieces:
            if (var["idx"], var["idx"]) in iv or any(lo <= var["idx"] <= hi for (lo, hi) in iv):
                payload = ("fld", ("dc", subj[1], var["idx"]), 0)
                r = _field_read(val, lambda b_: b_ == payload)
                why = G.show(val)[:200]
                ok = ok_in and r is not None and len(want) == 1 and r[0] == want[0]["i"] and r[1] == want[0]["ty"]
    except CL.Unrecognised as e:
        why = "UNRECOGNISED %s" % e
    o, w = [(o, w) for (f, o, w) in spec["fields"] if f == fname][0]
    ctx.check(ok, "E4", "%s::%s" % (nm, meth), "%s::%s() returns %s (offset %d, %d bytes), zero-extended" % (nm, meth, fname, o, w), hs[0].get("span", ""),
              how="variant %s: %s" % (var["name"], why), why=why)


def enum_accessor(ctx, F, enum_rep, inst, a_name, meth, layouts, wrapper=None):
    """E5 for the enum form: the public accessor decides on the variant get() answers and reads that layout's field"""
    fname = METHODS[meth]
    ok = True
    why = []
    try:
        it_, pieces, _ = CL.classify(F, inst, domain=((0, 1),))
        subj = N(it_)
        getc = ("call", enum_rep["get_key"], (arg(1),))
        ok = subj == ("discr", getc)
        seen = set()
        for (iv, val, bb) in pieces:
            for ty, (a, spec) in layouts.items():
                var = enum_rep["by_layout"][ty]
                if not any(lo <= var["idx"] <= hi for (lo, hi) in iv):
                    continue
                seen.add(ty)
                v = val
                if wrapper is not None:
                    g_ = G.strip(v)
                    v = g_[2][0] if g_[0] == "call" and wrapper in str(g_[1]) and len(g_[2]) == 1 else ("opq", "not wrapped")
                payload = ("fld", ("dc", getc, var["idx"]), 0)
                r = _field_read(v, lambda b_: b_ == payload)
                want = _spec_field(a, spec, fname)
                good = r is not None and len(want) == 1 and r[0] == want[0]["i"] and r[1] == want[0]["ty"]
                ok = ok and good
                why.append("%s: %s" % (var["name"], G.show(val)[:120]))
        ok = ok and len(seen) == 2
    except CL.Unrecognised as e:
        ok = False
        why.append("UNRECOGNISED %s" % e)
    ctx.check(ok, "E5", "ElfSection::" + a_name, "%s() = %sget().%s(): per layout the %s field of the header get() selected" %
              (a_name, (wrapper + " of ") if wrapper else "", meth, fname), inst.get("span", ""), how="; ".join(why)[:300], why="; ".join(why)[:400])


def arm_pointee_types(body):
    """{arm value: pointee adt path} from `switchInt(entry_size) -> [40: bbA, 64: bbB]` and the PtrToPtr casts in bbA/bbB"""
    out = {}
    for b in sorted(body.reachable):
        t = body.term(b)
        if t["k"] != "switch":
            continue
        for v, tg in zip(t["vals"], t["ts"]):
            for st in body.stmts(tg):
                if st["k"] == "assign" and st["rv"]["k"] == "cast" and st["rv"]["ck"] == "PtrToPtr":
                    ty = st["rv"]["ty"]
                    if ty.startswith("*const "):
                        out[v] = ty[len("*const "):]
    return out
