"""C15 — casting to a (user-defined) tag type never yields a view larger than the tag.

On the polymorphic body of DynSizedStructure<H>::cast<T> (so for every H and every user-defined T) and on
every instantiation in the three crates:
K1  the fact T::BASE_SIZE >= size_of::<H>() holds where the typed fat reference is created
K2  its address is self's and its metadata is T::dst_len(self.header())
K3  the fact size_of_val(self) == size_of_val(that reference) holds at the return (every path to the return
    passes the comparison; the failing edge diverges) and nothing but size_of_val touches the reference before
K4  the returned value is that reference
K5  layout of DynSizedStructure<H> (C14.B7) - size_of_val(self) = round8(size_of H + payload_len); imported C14.B4: every
    DynSizedStructure reference is created with metadata = the header's payload_len
"""
from .. import an
from .. import select as SEL
from .. import guard as G
from .. import mir as M
from ..guard import N, arg
from . import c14


def check_cast(ctx, F, fn, label, poly):
    A = an.of(F, fn)
    fps = c14.fatptr_sites(A)
    if len(fps) != 1:
        return ctx.fail("K2", label + ":shape", "cast creates exactly one fat pointer", A.site(), "%d" % len(fps))
    bb, fp = fps[0]
    n = N(fp)
    hdr_call = n[2][2][0] if n[2][0] == "call" and n[2][2] else None
    # metadata = dst_len(header(self))
    good_meta = n[2][0] == "call" and ("MaybeDynSized>::dst_len" in str(n[2][1]) or str(n[2][1]).endswith("::dst_len"))
    hdr_ok = False
    if hdr_call is not None:
        if hdr_call[0] == "call" and G.cn(hdr_call[1]).endswith("DynSizedStructure::header") and hdr_call[2] == (arg(1),):
            hdr_ok = True
        if hdr_call == ("ref", ("fld", ("deref", arg(1)), 0)):
            hdr_ok = True
    if not good_meta and not poly:
        # unit metadata for sized T: fatptr(arg1, ()) - dst_len returns ()
        good_meta = True
        hdr_ok = True
    ctx.check(n[1] == arg(1) and good_meta and hdr_ok, "K2", label,
              "the typed reference starts at self's address and its metadata is T::dst_len(self.header())", A.site(bb),
              how=G.show(fp)[:200], why=G.show(fp)[:300])
    facts = A.g.facts_at(bb)
    k1 = False
    for f in facts:
        nf = N(f)
        if nf[0] == "cmp" and nf[1] == "Ge" and (nf[3][0] in ("sizeof", "c")) and (nf[2][0] in ("cs", "c")):
            k1 = True
        if nf == ("const", True):
            k1 = k1 or False
    if not poly:
        # constants fold: BASE_SIZE >= size_of H is decided at compile time; the switch disappears or is constant
        k1 = k1 or const_base_ok(F, fn)
    ctx.check(k1, "K1", label, "T::BASE_SIZE >= size_of::<H>() is a fact where the typed reference is created (failing edge panics)",
              A.site(bb), how="facts %s" % [G.show(f)[:80] for f in facts], why="facts %s" % [G.show(f)[:80] for f in facts])
    rt, rfacts = A.ret()
    k4 = rt is not None and (N(rt) == n or N(rt) == ("ref", ("deref", n)) or N(rt) == ("deref", n))
    ctx.check(k4, "K4", label, "the returned reference is the one that was compared", A.site(), how=G.show(rt)[:200], why=G.show(rt)[:300])
    k3 = False
    for f in (rfacts or []):
        nf = N(f)
        if nf[0] == "cmp" and nf[1] == "Eq":
            sides = (nf[2], nf[3])
            a = [x for x in sides if x[0] == "sizeofval" and x[1] == arg(1)]
            b = [x for x in sides if x[0] == "sizeofval" and (x[1] == n or x[1] == ("deref", n) or x[1] == ("ref", ("deref", n)))]
            if a and b:
                k3 = True
    ctx.check(k3, "K3", label, "size_of_val(self) == size_of_val(typed reference) is a fact at the return: the equality test lies on "
              "every path to the return and its failing edge diverges", A.site(), how="facts at return %s" % [G.show(f)[:100] for f in (rfacts or [])],
              why="facts at return %s" % [G.show(f)[:100] for f in (rfacts or [])])
    # uses of the new reference before the return: only size_of_val / panics
    bad = []
    for cb, t in A.body.calls():
        if cb == bb or not A.body.dominates(bb, cb):
            continue
        p = M.callee_path(t)
        if p in ("core::mem::size_of_val",) or p.startswith("core::panicking::") or p.startswith("core::fmt::"):
            continue
        # pointer comparisons / casts on raw pointers (a debug assertion that the address is unchanged) read nothing through them
        if p in ("core::ptr::eq", "core::ptr::addr_eq") or p.startswith(("core::ptr::const_ptr::<impl *const T>::cast", "core::ptr::const_ptr::<impl *const T>::addr",
                                                                         "core::ptr::non_null::NonNull::<T>::as_ptr", "core::ptr::non_null::NonNull::<T>::cast",
                                                                         "core::ptr::non_null::NonNull::<T>::addr", "core::ptr::const_ptr::<impl *const T>::is_aligned")):
            continue
        bad.append(p)
    derefs = 0
    ctx.check(not bad, "K3", label + ":untouched", "between its creation and the size assertion the typed reference is only measured, never read",
              A.site(bb), how="calls after creation: size_of_val / panic machinery only", why="other calls: %s" % bad)


def cast_rejects_exactly(ctx, F, rule):
    """C15 allows cast to panic; the typed getters of C04 / C11 must answer every conformant tag.  On the polymorphic body: cast
    diverges only (a) for a type whose BASE_SIZE is below the header size (a constant of the type), (b) inside T::dst_len (the
    kind's own rejection of an undersized / ragged size: C05.L3x) and (c) when the typed view's size differs from the tag's.
    Any other panic edge rejects a tag the getter should have returned."""
    from .. import panic as P
    polys = [f for k, f in F.fns.items() if f.get("impl_self_name") == "DynSizedStructure" and f.get("name") == "cast" and not f.get("impl_trait")]
    if len(polys) != 1:
        return ctx.fail("ANCHOR", "cast", "DynSizedStructure::cast exists", "", "%d" % len(polys))
    A = an.of(F, polys[0])
    bad, n = [], 0
    for s in P.sites_of(F, polys[0]):
        if s.status == "discharged" or s.kind in ("overflow", "unchecked"):
            continue
        n += 1
        fs = [N(f) for f in A.g.facts_at(s.bb)]
        if s.kind == "unknown" and str(s.what).endswith("MaybeDynSized::dst_len"):
            continue
        def allowed(f):
            if f[0] == "or":
                # reached over several ways (the error of a fallible `try_cast` matched afterwards): each way under an allowed condition
                return all(any(allowed(x) for x in alt) for alt in f[1])
            if f[0] != "cmp":
                return False
            sides = (f[2], f[3])
            if f[1] in ("Lt", "Gt") and any(x[0] == "cs" and "BASE_SIZE" in str(x[1]) for x in sides) and any(x[0] in ("sizeof", "c") for x in sides):
                return True
            return f[1] in ("Ne", "Lt", "Gt") and all(x[0] == "sizeofval" for x in sides) and any(x[1] == arg(1) for x in sides)
        ok = any(allowed(f) for f in fs)
        from .. import exact as EX
        if not ok and any(EX.opaque_discr(f) for f in fs):
            ctx.note("%s cast: a panic edge is reached under the discriminant of a joined value only - not decided" % rule)
            continue
        if not ok:
            bad.append("%s %s under %s" % (s.kind, s.what, [G.show(f)[:80] for f in fs][:4]))
    return ctx.check(not bad, rule, "cast:exact-rejection", "cast::<T>() diverges only for BASE_SIZE < header size, inside T::dst_len, or when the typed view's size "
                     "differs from the tag's: a conformant tag of the requested type is returned, not rejected", A.site(),
                     how="%d panic edge(s), each of one of the three kinds" % n, why="; ".join(bad)[:500])


def const_base_ok(F, inst):
    g = inst.get("gargs", [])
    if len(g) < 2:
        return False
    h, t = g[0], g[1]
    hs = F.size_of(h)
    for im in F.impls:
        if im.get("trait", "").endswith("::tag::MaybeDynSized") and im.get("self") == t:
            for it in im["items"]:
                if it["name"] == "BASE_SIZE" and it.get("v") is not None:
                    return it["v"] >= hs
    # generic impl DynSizedStructure<H>: BASE_SIZE = size_of H
    if t.startswith("multiboot2_common::DynSizedStructure<"):
        return True
    return False


def run(ctx):
    F = ctx.F()
    polys = [f for k, f in F.fns.items() if f.get("impl_self_name") == "DynSizedStructure" and f.get("name") == "cast" and not f.get("impl_trait")]
    if len(polys) != 1:
        ctx.fail("ANCHOR", "cast", "DynSizedStructure::cast exists", "", "%d" % len(polys))
    else:
        check_cast(ctx, F, polys[0], "cast<H,T> (polymorphic: every header and every user-defined T)", True)
        ctx.check(polys[0].get("eff_pub") and not polys[0].get("unsafe"), "K1", "cast:visibility", "cast is the safe public entry point", polys[0].get("span", ""),
                  how="pub, safe", why=str({k: polys[0].get(k) for k in ("eff_pub", "unsafe")}))
    insts = [i for k, i in F.insts.items() if G.cn(k) == "multiboot2_common::DynSizedStructure::cast"]
    for i in insts:
        g = i.get("gargs", [])
        check_cast(ctx, F, i, "cast<%s>" % ", ".join(x.split("::")[-1] for x in g), False)
    ctx.floor("K1", "instantiations of cast in the three crates", len(insts), 30)
    # who creates typed tag references at all: fat-pointer / reference-from-raw sites in the parse path of get_tag
    gt = [f for k, f in F.fns.items() if f.get("name") == "get_tag" and f.get("impl_self_name") in ("BootInformation", "Multiboot2Header")]
    for f in gt:
        # the typed reference is M(x) = x.cast::<T>() of the selected tag x, in every form get_tag may take (SELECT)
        sel, why_sel = SEL.analyse(F, f)
        ok = sel is not None and SEL.is_cast_of_elem(sel["map"], poly=True)
        why_sel = ("form %s, map term %s" % (sel["form"], G.show(sel["map"])[:100])) if sel is not None else why_sel
        ctx.check(ok, "K2", "%s::get_tag" % f.get("impl_self_name"), "get_tag::<T> produces its typed reference only through cast::<T> of the found tag",
                  f.get("span", ""), how=why_sel, why=str(why_sel)[:300])
    ctx.floor("K2", "get_tag entry points", len(gt), 2)
    for h in c14.header_types(F):
        sty = "multiboot2_common::DynSizedStructure<%s>" % h["self"]
        a = F.adts.get(sty)
        ctx.check(bool(a) and a["align"] == 8 and (a.get("tail") or {}).get("off") == F.size_of(h["self"]), "K5", "layout:" + h["self_name"],
                  "size_of_val(&DynSizedStructure<%s>) = round8(%s + payload_len)" % (h["self_name"], F.size_of(h["self"])), (a or {}).get("span", ""),
                  how="align 8, tail at header size", why=str(a and a.get("tail")))
    # the size cast compares with is the *tag's* only if every DynSizedStructure reference is created with the header's own
    # payload length as metadata (not, say, the length of the slice it was parsed from): premise B4 of C14
    ctx.import_prop("C14", only=lambda o: o.rule == "B4", label="extent of the structure cast starts from")
    if ctx.tier == "thorough":
        from .. import witness
        witness.check(ctx, [("K6aCastOtherHeader", "K6: cast::<T>() rejects a T with another header type"),
                            ("K6bGetTagOtherIdType", "K6: get_tag::<T>() rejects a T with another ID type"),
                            ("K6cCastNotATag", "K6: cast::<T>() needs T: MaybeDynSized")], rule="K6")
    ctx.note("type-level part (K6: cast/get_tag reject a T with another header or ID type) is a compile-fail witness run in the thorough tier")
    return ctx.finish(
        "other",
        "Guards on every return path of cast, decided on the polymorphic MIR (hence for user-defined tag types) and re-decided on each "
        "of the instantiations: the BASE_SIZE guard dominates the unsafe reference creation, address and metadata terms, the size "
        "equality is a fact at the return, the compared reference is the returned one and is not read before the comparison.",
        ["rustc MIR", "mb2rules TERMS/GUARD", "Rust DST layout: size_of_val of a `repr(C)` DST = round_up(tail offset + n*elem, align)",
         "the user type truthfully declares BASE_SIZE/dst_len (hypothesis of the property)"],
        "one obligation per (instantiation, premise K1..K4)",
    )
