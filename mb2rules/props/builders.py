"""BUILDER: slot coverage in build() and setter semantics, shared by C06 (boot information) and C12 (header)."""
from .. import an
from .. import chain as CH
from .. import guard as G
from .. import layout as L
from .. import mir as M
from ..guard import N, arg, fld, deref, cn


def subterms(t, acc=None):
    acc = acc if acc is not None else []
    if isinstance(t, tuple):
        acc.append(t)
        for x in t:
            if isinstance(x, tuple):
                subterms(x, acc)
    return acc


def is_adt_aggr(s, path):
    return len(s) >= 3 and s[0] == "aggr" and isinstance(s[1], tuple) and len(s[1]) >= 2 and s[1][0] == "adt" and s[1][1] == path


def analyse_build(ctx, F, crate, builder_adt, end_adt_path, end_kind, header_check, non_tag_fields=()):
    """build() hands new_boxed a list of slices; SEQ (seq.py) evaluates that list to one description whichever way the code
    assembles it (pushes under `if let`, loops, extend over Option/slice iterators, helper structs, array + flatten + collect):
        [ if slot_i is Some { view(payload) } | for e in slot_j { view(e) } | view(end tag) ]
    and the obligations are stated on that description."""
    from .. import seq as SQ
    inst = F.find(impl_self_path=builder_adt["path"], name="build", impl_trait=None)
    if len(inst) != 1:
        ctx.fail("ANCHOR", "Builder::build", "Builder::build exists", "", "%d" % len(inst))
        return None
    inst = inst[0]
    A = an.of(F, inst)
    b = A.body
    fields = {f["i"]: f for f in builder_adt["fields"]}
    tag_fields = {i: f for i, f in fields.items() if f["name"] not in non_tag_fields}
    rt, _ = A.ret()
    n = N(rt) if rt is not None else None
    nb = [(bb, t) for bb, t in b.calls() if cn(M.callee_path(t) or "") == "multiboot2_common::boxed::new_boxed"]
    ok_nb = n is not None and n[0] == "call" and cn(n[1]) == "multiboot2_common::boxed::new_boxed" and len(nb) == 1 and header_check(n[2][0])
    ctx.check(ok_nb, "BUILDER", "new_boxed", "build() returns new_boxed(fresh header, the assembled list of slices) - one call, its result is the return value",
              A.site(), how=G.show(rt)[:160], why="%d new_boxed calls; return term %s" % (len(nb), G.show(rt)[:300]))
    if len(nb) != 1:
        return None
    cbb, ct = nb[0]
    E = SQ.Env(F, inst)
    try:
        segs, how_form = SQ.seq_of_operand(E, A, ct["args"][1], cbb)
    except SQ.Unrec as e:
        ctx.fail("BUILDER", "build:form", "the list of slices handed to new_boxed evaluates to a sequence description (SEQ)", A.site(), "UNRECOGNISED: %s" % e)
        return None
    ctx.ok("BUILDER", "build:form", "the list of slices handed to new_boxed evaluates to a sequence description (SEQ): %d segments" % len(segs), A.site(),
           how="%s; nothing but push / extend / read-only views touches the vector (any other call taking it is UNRECOGNISED)" % how_form)
    per_field = {}
    end_at = []
    foreign = []

    def slot_of_terms(ts):
        ks = set()
        for t_ in ts:
            ks |= {s_[2] for s_ in subterms(t_) if len(s_) == 3 and s_[0] == "fld" and s_[1] == arg(1) and isinstance(s_[2], int)}
        return ks
    for k, seg in enumerate(segs):
        if seg[0] == "opt" and len(seg[1]) == 1:
            c = seg[1][0]
            fi = c[2][1][2] if c[0] == "cmp" and c[2][0] == "discr" and c[2][1][0] == "fld" and c[2][1][1] == arg(1) and len(c[2][1]) == 3 else None
            if fi is not None:
                slot = fld(arg(1), fi)
                inner = seg[2]
                good = CH.is_discr_fact(c, slot, 1) and len(inner) == 1 and inner[0][0] == "one" and _view_shape(inner[0][1]) and \
                    _both_mention(inner[0][1], lambda s_: s_ == CH.payload_of(slot, 1) or s_ == ("dc", slot, 1))
                per_field.setdefault(fi, []).append((k, "Option", good, SQ.show([seg])[:200]))
                continue
        if seg[0] == "each":
            src = SQ.unref(SQ.strip_view(SQ.unref(seg[1])))
            if src[0] == "fld" and src[1] == arg(1) and len(src) == 3:
                fi = src[2]
                inner = seg[2]
                good = len(inner) == 1 and inner[0][0] == "one" and _view_shape(inner[0][1]) and \
                    _both_mention(inner[0][1], lambda s_: s_ == SQ.ELEM)
                per_field.setdefault(fi, []).append((k, "Vec", good, SQ.show([seg])[:200]))
                continue
        if seg[0] == "one" and any(is_adt_aggr(s_, end_adt_path) for s_ in subterms(seg[1])) and not slot_of_terms([seg[1]]):
            end_at.append((k, _view_shape(seg[1])))
            continue
        ks = slot_of_terms([seg])
        if len(ks) == 1:
            per_field.setdefault(next(iter(ks)), []).append((k, "?", False, SQ.show([seg])[:200]))
        else:
            foreign.append(SQ.show([seg])[:160])
    ctx.check(not foreign, "BUILDER", "build:foreign-push", "every element of the list is the byte view of one builder slot's tag or of the end tag", A.site(),
              how="%d segments, all attributed" % len(segs), why="unattributed: %s" % foreign)
    for i, f in sorted(tag_fields.items()):
        ps = per_field.get(i, [])
        kind = (F.ty(f["ty"]) or {}).get("adt_name")
        ok = len(ps) == 1 and ps[0][2] and ps[0][1] == kind
        ctx.check(ok, "BUILDER", "slot:" + f["name"], "slot `%s` contributes exactly one segment: the tag's as_bytes() view - %s" %
                  (f["name"], "once per element, front to back (= call order)" if kind == "Vec" else "iff it is set"), A.site(),
                  how=ps[0][3] if ps else "", why="%d segments for this slot (slot kind %s): %s" % (len(ps), kind, [(p_[1], p_[2], p_[3][:120]) for p_ in ps]))
    extra = set(per_field) - set(tag_fields)
    ctx.check(not extra, "BUILDER", "build:non-slot", "no non-tag field contributes an element", A.site(), how="none", why=str(extra))
    ok_end = len(end_at) == 1 and end_at[0][1] and end_at[0][0] == len(segs) - 1
    ctx.check(ok_end, "BUILDER", "end-tag", "the end tag (%s) is one unconditional element, exactly once, and the last of the list" % end_kind, A.site(),
              how="last segment is the end tag view", why="end-tag segments at %s of %d" % ([e[0] for e in end_at], len(segs)))
    return dict(inst=inst, pushes=[], per_field=per_field)


def _ok_call(x):
    """x is the success value of a fallible call however it is taken out: `call.unwrap()` / `.expect(..)`, or the Ok payload
    reached through a `match` whose other arm diverges -> the call term, else None"""
    if x[0] in ("unwrap", "expect") and x[1][0] == "call":
        return x[1]
    if x[0] == "fld" and x[2] == 0 and x[1][0] == "dc" and x[1][2] == 0 and x[1][1][0] == "call":
        return x[1][1]
    if x[0] == "try_ok" and x[1][0] == "call":
        return x[1]
    return None


def _view_call(v):
    if v[0] == "deref":
        v = v[1]          # `*tag.as_bytes()` (Deref of BytesRef) is the same slice as `.as_ref()`: both return the field
    if not (v[0] == "fld" and v[2] == 0):
        return None
    return _ok_call(v[1])


def _view_shape(v):
    c = _view_call(v)
    # the validating constructor of BytesRef under either of its names (TryFrom::try_from / the inherent one it may forward to:
    # roles.bytesref_ctors; what it checks is C14.B1)
    return c is not None and "bytes_ref::BytesRef" in str(c[1]) and ("try_from" in str(c[1]) or str(c[1]).endswith("::new")) and \
        c[2][0][0] == "rawslice" and c[2][0][2][0] == "sizeofval"


def _view_ptr(v):
    """(pointer the view starts at, the value whose size_of_val is its length): both must be the slot's tag"""
    rs = _view_call(v)[2][0]
    return (rs[1], rs[2][1])


def _both_mention(v, pred):
    p_, s_ = _view_ptr(v)
    return any(pred(x) for x in subterms(p_)) and any(pred(x) for x in subterms(s_))


def reachable_from(b, start):
    seen = set()
    st = [t for (t, _) in b.succ[start]]
    while st:
        x = st.pop()
        if x in seen:
            continue
        seen.add(x)
        for (t, _) in b.succ[x]:
            st.append(t)
    return seen


def N_nearest(A, bb):
    from .. import chain as CH
    own, d = CH.nearest_branch_facts(A, bb)
    return [N(f) for f in own]


def analyse_setters(ctx, F, builder_adt, non_tag_fields=(), special=None):
    """every public `fn x(mut self, v) -> Self` writes exactly one slot with Some(v) / push(v); setter -> slot is a bijection"""
    fields = {f["i"]: f for f in builder_adt["fields"]}
    tag_fields = {i: f for i, f in fields.items() if f["name"] not in non_tag_fields}
    seen = {}
    n = 0
    for k, inst in sorted(F.insts.items()):
        if inst.get("impl_self_path") != builder_adt["path"] or inst.get("impl_trait") or inst.get("closure") or not inst.get("eff_pub"):
            continue
        body = inst["body"]
        if body["argc"] != 2 or body["locals"][1]["ty"] != builder_adt["path"] or body["locals"][0]["ty"] != builder_adt["path"]:
            continue
        n += 1
        A = an.of(F, inst)
        b = A.body
        writes = []
        for bb in sorted(b.reachable):
            for si, st in enumerate(b.stmts(bb)):
                if st["k"] == "assign" and st["lhs"]["l"] == 1 and st["lhs"].get("p"):
                    p0 = st["lhs"]["p"][0]
                    writes.append(("assign", p0.get("f"), N(A.tb.rvalue(st["rv"], (bb, si), st)), bb))
            t = b.term(bb)
            if t["k"] == "call" and (M.callee_path(t) or "").endswith("Vec::<T, A>::push"):
                a0 = N(A.tb.operand(t["args"][0], (bb, len(b.stmts(bb)))))
                a1 = N(A.tb.operand(t["args"][1], (bb, len(b.stmts(bb)))))
                fi = a0[1][2] if a0[0] == "ref" and a0[1][0] == "fld" else None
                writes.append(("push", fi, a1, bb))
            if t["k"] == "drop" and False:
                pass
        name = inst["name"]
        ok = len(writes) == 1 and writes[0][1] in tag_fields
        why = "writes %s" % [(w[0], w[1], G.show(w[2])[:50]) for w in writes]
        if ok:
            kind, fi, val, wbb = writes[0]
            f = tag_fields[fi]
            fty = F.ty(f["ty"]) or {}
            if kind == "assign":
                ok = val == ("aggr", ("adt", "core::option::Option", "Some", ("0",)), (arg(2),)) and fty.get("adt_name") == "Option" and fty["args"][0] == body["locals"][2]["ty"]
            else:
                ok = val == arg(2) and fty.get("adt_name") == "Vec" and fty["args"][0] == body["locals"][2]["ty"]
            # on every path to the return (special: add_custom_tag may panic first)
            uncond = all(b.dominates(wbb, r) for r in b.return_blocks)
            ok = ok and uncond
            why += " unconditional=%s" % uncond
            if ok:
                if fi in seen:
                    ok = False
                    why = "slot %s also written by %s" % (f["name"], seen[fi])
                seen[fi] = name
        # returns self
        rt, _ = A.ret()
        ctx.check(ok, "SETTER", name, "setter %s(v) stores v in exactly one slot (%s), replacing (Option: last call wins) or appending (Vec: call order), with the slot's tag type" %
                  (name, fields[writes[0][1]]["name"] if len(writes) == 1 and writes[0][1] in fields else "?"), inst.get("span", ""), how=why, why=why)
    missing = [f["name"] for i, f in tag_fields.items() if i not in seen]
    ctx.check(not missing, "SETTER", "bijection", "every slot has exactly one setter (setter -> slot is a bijection onto the %d tag slots)" % len(tag_fields), builder_adt.get("span", ""),
              how="%d setters" % n, why="slots without setter: %s" % missing)
    return n
