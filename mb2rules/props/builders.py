"""BUILDER: slot coverage in build() and setter semantics, shared by C06 (boot information) and C12 (header)."""
from .. import an
from .. import chain as CH
from .. import guard as G
from .. import layout as L
from .. import mir as M
from ..guard import N, arg, fld, deref, cn


def subterms(t, acc=None):
    acc = acc if acc is not None else []
    if isinstance(t, tuple):
        acc.append(t)
        for x in t:
            if isinstance(x, tuple):
                subterms(x, acc)
    return acc


def is_adt_aggr(s, path):
    return len(s) >= 3 and s[0] == "aggr" and isinstance(s[1], tuple) and len(s[1]) >= 2 and s[1][0] == "adt" and s[1][1] == path


def analyse_build(ctx, F, crate, builder_adt, end_adt_path, end_kind, header_check, non_tag_fields=()):
    """returns dict of results; emits obligations under rule BUILDER"""
    inst = F.find(impl_self_path=builder_adt["path"], name="build", impl_trait=None)
    if len(inst) != 1:
        ctx.fail("ANCHOR", "Builder::build", "Builder::build exists", "", "%d" % len(inst))
        return None
    inst = inst[0]
    A = an.of(F, inst)
    b = A.body
    fields = {f["i"]: f for f in builder_adt["fields"]}
    tag_fields = {i: f for i, f in fields.items() if f["name"] not in non_tag_fields}
    # ---- the whole list written as one array literal: `[slot.as_ref().map(view), .., Some(end view)].into_iter().flatten().collect()`
    arr_form = array_form(ctx, F, A, tag_fields, end_adt_path, end_kind, header_check)
    if arr_form is not None:
        return dict(inst=inst, pushes=[], per_field={})
    pushes = []
    push_vecs = []
    for bb, t in b.calls():
        if (M.callee_path(t) or "").endswith("Vec::<T, A>::push"):
            v = N(A.tb.operand(t["args"][1], (bb, len(b.stmts(bb)))))
            pushes.append((bb, v))
            push_vecs.append(A.tb.operand(t["args"][0], (bb, len(b.stmts(bb)))))
    per_field = {}
    end_pushes = []
    other = []
    loops = b.back_edges()
    # ---- slot appended as `vec.extend(self.slot.iter().map(|tag| tag.as_bytes().as_ref()))`: Option::iter yields the payload
    # iff the slot is set, slice iteration yields the elements in order, Vec::extend appends in iteration order (std contracts)
    extends = {}
    for bb, t in b.calls():
        p = M.callee_path(t) or ""
        if not (p.endswith("::extend") and ("Extend<" in p or "alloc::vec::Vec" in p)):
            continue
        at = (bb, len(b.stmts(bb)))
        vecarg = A.tb.operand(t["args"][0], at)
        itv = N(A.tb.operand(t["args"][1], at))
        fi = None
        shape = False
        if itv[0] == "call" and ("Iterator>::map" in str(itv[1]) or cn(itv[1]).endswith("Iterator::map")) and len(itv[2]) == 2:
            src_it, clo = itv[2]
            base = src_it
            kind_ = None
            if base[0] == "call" and cn(base[1]) == "core::option::Option::iter" and len(base[2]) == 1:
                kind_, base = "Option", base[2][0]
            elif base[0] == "call" and cn(base[1]) == "core::slice::iter" and len(base[2]) == 1:
                kind_, base = "Vec", base[2][0]
                if base[0] == "call" and len(base[2]) == 1 and "alloc::vec::Vec<" in str(base[1]) and str(base[1]).endswith("Deref>::deref"):
                    base = base[2][0]
            if kind_ and base[0] == "ref" and base[1][0] == "fld" and base[1][1] == arg(1):
                fi = base[1][2]
                from .. import select as SEL
                cf = SEL.closure_fn(F, clo, inst)
                if cf is not None:
                    rt_c, _ = an.of(F, cf).ret()
                    if rt_c is not None:
                        cv = N(rt_c)
                        shape = cv[0] == "fld" and cv[2] == 0 and cv[1][0] == "unwrap" and cv[1][1][0] == "call" and "BytesRef" in str(cv[1][1][1]) and "try_from" in str(cv[1][1][1]) \
                            and cv[1][1][2][0][0] == "rawslice" and cv[1][1][2][0][2][0] == "sizeofval" and any(x == arg(2) or x == ("deref", arg(2)) for x in subterms(cv[1][1][2][0][1]))
                extends.setdefault(fi, []).append((bb, kind_, shape, vecarg))
        if fi is None:
            other.append((bb, itv))
        else:
            push_vecs.append(vecarg)
    for (bb, v) in pushes:
        subs = subterms(v)
        ks = {s[2] for s in subs if len(s) == 3 and s[0] == "fld" and s[1] == arg(1)}
        is_end = any(is_adt_aggr(s, end_adt_path) for s in subs)
        # the pushed slice must be the byte view of the whole tag: as_bytes() = BytesRef over (ptr(tag), size_of_val(tag))
        shape_ok = v[0] == "fld" and v[2] == 0 and v[1][0] == "unwrap" and v[1][1][0] == "call" and "BytesRef" in str(v[1][1][1]) and "try_from" in str(v[1][1][1]) \
            and v[1][1][2][0][0] == "rawslice" and v[1][1][2][0][2][0] == "sizeofval"
        if is_end and not ks:
            end_pushes.append((bb, v, shape_ok))
        elif len(ks) == 1:
            per_field.setdefault(next(iter(ks)), []).append((bb, v, shape_ok))
        else:
            other.append((bb, v))
    # ---- nothing else may touch the vector between the appends and new_boxed (sort, reverse, dedup, retain, swap, truncate...)
    def root_local(op):
        """local a reference operand ultimately points into (through moves and reborrows), or None"""
        pl = op.get("m") or op.get("c")
        if pl is None:
            return None
        L = pl["l"]
        for _ in range(12):
            ds = [d for d in A.tb.defs.get(L, []) if not (d[3] and d[3][0] == "*")]
            if len(ds) > 1 and all(d[0] == "stmt" for d in ds):
                # copies of one statement (THREAD duplicates straight-line blocks): same right-hand side everywhere
                rvs = [b.stmts(d[1])[d[2]].get("rv") for d in ds]
                if all(r == rvs[0] for r in rvs):
                    ds = ds[:1]
            if len(ds) != 1 or ds[0][0] != "stmt":
                return L
            st = b.stmts(ds[0][1])[ds[0][2]]
            if st["k"] != "assign":
                return L
            rv = st["rv"]
            if rv["k"] in ("ref", "rawptr"):
                L = rv["pl"]["l"]
                if rv["pl"].get("p") and rv["pl"]["p"][0] == "*":
                    continue
                return L
            if rv["k"] == "use":
                p2 = rv["op"].get("m") or rv["op"].get("c")
                if p2 is None:
                    return L
                L = p2["l"]
                continue
            return L
        return L
    vec_locals = set()
    for bb, t in b.calls():
        p = M.callee_path(t) or ""
        if p.endswith("Vec::<T, A>::push") or (p.endswith("::extend") and ("Extend<" in p or "alloc::vec::Vec" in p)):
            vec_locals.add(root_local(t["args"][0]))
    vec_locals.discard(None)
    if vec_locals:
        allowed = ("::push", "::extend", "::as_slice", "Deref>::deref", "::len", "::capacity", "::is_empty")
        touching = []
        for bb, t in b.calls():
            p = M.callee_path(t) or ""
            if p.endswith(allowed) or "drop_in_place" in p:
                continue
            if any(root_local(a) in vec_locals for a in t["args"]):
                touching.append((bb, p))
        ctx.check(not touching and len(vec_locals) == 1, "BUILDER", "build:vec-untouched", "all slices are appended to one vector, and between the appends and new_boxed "
                  "nothing reorders, removes or rewrites them (the vector is only pushed/extended and finally viewed)", A.site(touching[0][0]) if touching else A.site(),
                  how="every call taking the vector is push / extend / as_slice", why="vectors %s; other uses: %s" % (sorted(vec_locals), [x[1][:80] for x in touching]))
    ctx.check(not other, "BUILDER", "build:foreign-push", "every push in build() is the byte view of one builder slot or of the end tag", A.site(),
              how="%d pushes" % len(pushes), why="unattributed pushes: %s" % [G.show(o[1])[:80] for o in other])
    # coverage: set of pushed fields == set of tag-carrying fields, one site each
    for i, f in sorted(tag_fields.items()):
        ps = per_field.get(i, [])
        ok = len(ps) == 1 and ps[0][2]
        why = "%d push sites" % len(ps)
        how = ""
        if not ps and len(extends.get(i, [])) == 1:
            ebb, kind_, shape, _v = extends[i][0]
            fty = F.ty(f["ty"]) or {}
            uncond = all(b.dominates(ebb, r) for r in b.return_blocks) and not any(ebb in b.loop_blocks(h, t) for (t, h) in loops)
            ok = shape and uncond and fty.get("adt_name") == kind_
            how = "extend(self.%s.iter().map(as_bytes view)), executed exactly once" % f["name"]
            why = "closure yields the as_bytes view=%s unconditional=%s slot kind %s/%s" % (shape, uncond, fty.get("adt_name"), kind_)
            ps = [(ebb, None, shape)]
        elif ok:
            bb, v, _ = ps[0]
            fty = F.ty(f["ty"]) or {}
            facts = [N(x) for x in A.g.facts_at(bb)]
            is_vec = fty.get("adt_name") == "Vec"
            src = ("ref", fld(arg(1), i))
            if is_vec:
                # forward loop over &self.field: item = payload of Iterator::next(&mut into_iter(&self.field)), push inside that loop, once per iteration
                nexts = [s for s in subterms(v) if len(s) >= 3 and s[0] == "call" and "core::slice::iter::Iter<" in str(s[1]) and "Iterator>::next" in str(s[1])]
                def forward_iter_over(t):
                    """forward iteration over the whole Vec slot: into_iter / iter of &self.slot or of its slice view"""
                    t = t[1] if t[0] == "ref" else t
                    seen_iter = False
                    for _ in range(6):
                        if t[0] == "call" and len(t[2]) == 1 and ("IntoIterator" in str(t[1]) and "into_iter" in str(t[1]) or cn(t[1]) == "core::slice::iter"):
                            seen_iter = True
                            t = t[2][0]
                        elif t[0] == "call" and len(t[2]) == 1 and (cn(t[1]) in ("alloc::vec::Vec::as_slice",) or "alloc::vec::Vec<" in str(t[1]) and str(t[1]).endswith(("Deref>::deref", "AsRef<[T]>>::as_ref"))):
                            t = t[2][0]
                        else:
                            break
                    return seen_iter and t == src
                it_ok = bool(nexts) and all(forward_iter_over(n_[2][0]) for n_ in nexts)
                inloop = [(t, h) for (t, h) in loops if bb in b.loop_blocks(h, t)]
                once = len(inloop) == 1 and b.dominates(bb, inloop[0][0])
                guard = any(x[0] == "cmp" and x[1] == "Eq" and x[2][0] == "discr" and x[2][1] in nexts and x[3] == ("c", 1) for x in facts)
                ok = it_ok and once and guard
                how = "loop over &self.%s, one push per element in iteration (= insertion) order" % f["name"]
                why = "iterator ok=%s once per iteration=%s guard=%s" % (it_ok, once, guard)
            else:
                # `if let Some(tag) = self.slot.as_ref()` / `= &self.slot` / match: after INLINE all are a test of the slot's discriminant
                slot = fld(arg(1), i)
                guard = CH.guarded_by_variant(facts, slot, 1)
                nearest = N_nearest(A, bb)
                own_ok = len(nearest) == 1 and CH.is_discr_fact(nearest[0], slot, 1)
                # and the pushed bytes are those of the slot's payload
                guard = guard and any(s == CH.payload_of(slot, 1) or s == ("dc", slot, 1) for s in subterms(v))
                not_in_loop = not any(bb in b.loop_blocks(h, t) for (t, h) in loops)
                ok = guard and own_ok and not_in_loop
                how = "pushed exactly when self.%s is Some (own guard = Some-test of the same slot)" % f["name"]
                why = "some-guard=%s nearest-guard-is-it=%s outside loops=%s" % (guard, own_ok, not_in_loop)
        ctx.check(ok, "BUILDER", "slot:" + f["name"], "slot `%s` is appended by exactly one push of the tag's as_bytes() view - %s" %
                  (f["name"], "once per element in order" if (F.ty(f["ty"]) or {}).get("adt_name") == "Vec" else "iff it is set"), A.site(ps[0][0]) if ps else A.site(), how=how, why=why)
    extra = set(per_field) - set(tag_fields)
    ctx.check(not extra, "BUILDER", "build:non-slot", "no non-tag field is pushed", A.site(), how="none", why=str(extra))
    # end tag
    ok_end = len(end_pushes) == 1 and end_pushes[0][2]
    why = "%d end-tag pushes" % len(end_pushes)
    if ok_end:
        ebb = end_pushes[0][0]
        rets = b.return_blocks
        dom = all(b.dominates(ebb, r) for r in rets)
        after = [bb for (bb, _) in pushes if bb != ebb and b.dominates(ebb, bb)]
        inloop = any(ebb in b.loop_blocks(h, t) for (t, h) in loops)
        # all other pushes come before: end push is not dominated by... every other push block must not be reachable after ebb
        reach_after = reachable_from(b, ebb)
        later = [bb for (bb, _) in pushes if bb != ebb and bb in reach_after] + [x[0] for v in extends.values() for x in v if x[0] in reach_after]
        ok_end = dom and not later and not inloop
        why = "dominates return=%s pushes reachable after it=%s in loop=%s" % (dom, later, inloop)
    ctx.check(ok_end, "BUILDER", "end-tag", "the end tag (%s) is pushed exactly once, on every path to the return, and no push can follow it" % end_kind, A.site(),
              how="single push dominating the return, nothing pushed afterwards", why=why)
    # new_boxed(header, byte_refs.as_slice())
    rt, _ = A.ret()
    n = N(rt) if rt is not None else None
    ok_nb = False
    if n is not None and n[0] == "call" and cn(n[1]) == "multiboot2_common::boxed::new_boxed":
        hdr, sl = n[2]
        vec_ok = sl[0] == "call" and cn(sl[1]) in ("alloc::vec::Vec::as_slice",) and sl[2][0][0] == "ref" and sl[2][0][1][0] == "opq"
        if not vec_ok and sl[0] == "call" and cn(sl[1]) in ("alloc::vec::Vec::as_slice",) and push_vecs:
            # the vector lives inside a wrapper (newtype): it must be the very vector every push went to - compared as raw terms,
            # which carry the creation site of `Vec::new()`
            raw_ret = A.ret()[0]
            rs = [x for x in subterms(raw_ret) if len(x) >= 3 and x[0] == "call" and cn(x[1]) == "alloc::vec::Vec::as_slice"]
            vec_ok = len(rs) == 1 and all(pv == rs[0][2][0] or (pv[0] == "ref" and rs[0][2][0][0] == "ref" and pv[1] == rs[0][2][0][1]) for pv in push_vecs)
        ok_nb = vec_ok and header_check(hdr)
    ctx.check(ok_nb, "BUILDER", "new_boxed", "build() returns new_boxed(fresh header, the pushed slices in push order)", A.site(), how=G.show(rt)[:160], why=G.show(rt)[:300])
    return dict(inst=inst, pushes=pushes, per_field=per_field)


def _view_shape(v):
    return v[0] == "fld" and v[2] == 0 and v[1][0] == "unwrap" and v[1][1][0] == "call" and "BytesRef" in str(v[1][1][1]) and "try_from" in str(v[1][1][1]) \
        and v[1][1][2][0][0] == "rawslice" and v[1][1][2][0][2][0] == "sizeofval"


def array_form(ctx, F, A, tag_fields, end_adt_path, end_kind, header_check):
    """build() = new_boxed(header, [e_1, .., e_n, Some(end)].into_iter().flatten().collect::<Vec<_>>().as_slice()) with
    e_k = `if self.slot_k is Some(t) { Some(view(t)) } else { None }`.  Std contracts: array IntoIter yields the elements in
    order, Flatten over Options yields exactly the Some payloads in that order, collect into a Vec keeps the order.
    Returns None if build() is not of this form (the push/extend analysis applies), True after emitting the obligations."""
    rt, _ = A.ret()
    n = N(rt) if rt is not None else None
    if not (n is not None and n[0] == "call" and cn(n[1]) == "multiboot2_common::boxed::new_boxed"):
        return None
    hdr, sl = n[2]
    if not (sl[0] == "call" and cn(sl[1]) == "alloc::vec::Vec::as_slice" and sl[2][0][0] == "ref"):
        return None
    x = sl[2][0][1]
    chain = []
    while x[0] == "call" and len(x[2]) == 1:
        chain.append(str(x[1]))
        x = x[2][0]
    if not (x[0] == "aggr" and x[1] == ("array",) and len(chain) == 3 and "Iterator>::collect" in chain[0] and "Iterator>::flatten" in chain[1]
            and "IntoIterator for [" in chain[2] and "into_iter" in chain[2]):
        return None
    elems = list(x[2])
    seen = {}
    bad = []
    for k, e in enumerate(elems[:-1]):
        ok = False
        if e[0] == "ite" and e[2][0] == "aggr" and e[2][1][:3] == ("adt", "core::option::Option", "Some") and e[3][0] == "aggr" and e[3][1][:3] == ("adt", "core::option::Option", "None"):
            c = N(e[1])
            view = e[2][2][0]
            if c[0] == "cmp" and c[1] == "Eq" and c[3] == ("c", 1) and c[2][0] == "discr" and c[2][1][0] == "fld" and c[2][1][1] == arg(1):
                fi = c[2][1][2]
                slot = fld(arg(1), fi)
                ok = fi in tag_fields and _view_shape(view) and any(s_ == CH.payload_of(slot, 1) or s_ == ("dc", slot, 1) for s_ in subterms(view))
                if ok:
                    seen.setdefault(fi, []).append(k)
        if not ok:
            bad.append((k, G.show(e)[:100]))
    ctx.check(not bad, "BUILDER", "build:array-elements", "every element of the slice list is `Some(as_bytes view of the slot's tag)` iff that slot is set", A.site(),
              how="%d conditional elements" % (len(elems) - 1), why="unrecognised elements: %s" % bad)
    for i, f in sorted(tag_fields.items()):
        ks = seen.get(i, [])
        fty = F.ty(f["ty"]) or {}
        ctx.check(len(ks) == 1 and fty.get("adt_name") == "Option", "BUILDER", "slot:" + f["name"],
                  "slot `%s` is appended by exactly one element of the slice list - iff it is set" % f["name"], A.site(),
                  how="array element #%s" % ks, why="%d elements for this slot (kind %s)" % (len(ks), fty.get("adt_name")))
    last = elems[-1]
    ok_end = last[0] == "aggr" and last[1][:3] == ("adt", "core::option::Option", "Some") and _view_shape(last[2][0]) and \
        any(is_adt_aggr(s_, end_adt_path) for s_ in subterms(last[2][0]))
    ctx.check(ok_end, "BUILDER", "end-tag", "the end tag (%s) is the last element of the slice list, unconditionally, exactly once" % end_kind, A.site(),
              how="last array element is Some(end tag view)", why=G.show(last)[:200])
    ctx.check(header_check(hdr), "BUILDER", "new_boxed", "build() returns new_boxed(fresh header, the collected slices in list order)", A.site(),
              how=G.show(rt)[:160], why=G.show(rt)[:300])
    return True


def reachable_from(b, start):
    seen = set()
    st = [t for (t, _) in b.succ[start]]
    while st:
        x = st.pop()
        if x in seen:
            continue
        seen.add(x)
        for (t, _) in b.succ[x]:
            st.append(t)
    return seen


def N_nearest(A, bb):
    from .. import chain as CH
    own, d = CH.nearest_branch_facts(A, bb)
    return [N(f) for f in own]


def analyse_setters(ctx, F, builder_adt, non_tag_fields=(), special=None):
    """every public `fn x(mut self, v) -> Self` writes exactly one slot with Some(v) / push(v); setter -> slot is a bijection"""
    fields = {f["i"]: f for f in builder_adt["fields"]}
    tag_fields = {i: f for i, f in fields.items() if f["name"] not in non_tag_fields}
    seen = {}
    n = 0
    for k, inst in sorted(F.insts.items()):
        if inst.get("impl_self_path") != builder_adt["path"] or inst.get("impl_trait") or inst.get("closure") or not inst.get("eff_pub"):
            continue
        body = inst["body"]
        if body["argc"] != 2 or body["locals"][1]["ty"] != builder_adt["path"] or body["locals"][0]["ty"] != builder_adt["path"]:
            continue
        n += 1
        A = an.of(F, inst)
        b = A.body
        writes = []
        for bb in sorted(b.reachable):
            for si, st in enumerate(b.stmts(bb)):
                if st["k"] == "assign" and st["lhs"]["l"] == 1 and st["lhs"].get("p"):
                    p0 = st["lhs"]["p"][0]
                    writes.append(("assign", p0.get("f"), N(A.tb.rvalue(st["rv"], (bb, si), st)), bb))
            t = b.term(bb)
            if t["k"] == "call" and (M.callee_path(t) or "").endswith("Vec::<T, A>::push"):
                a0 = N(A.tb.operand(t["args"][0], (bb, len(b.stmts(bb)))))
                a1 = N(A.tb.operand(t["args"][1], (bb, len(b.stmts(bb)))))
                fi = a0[1][2] if a0[0] == "ref" and a0[1][0] == "fld" else None
                writes.append(("push", fi, a1, bb))
            if t["k"] == "drop" and False:
                pass
        name = inst["name"]
        ok = len(writes) == 1 and writes[0][1] in tag_fields
        why = "writes %s" % [(w[0], w[1], G.show(w[2])[:50]) for w in writes]
        if ok:
            kind, fi, val, wbb = writes[0]
            f = tag_fields[fi]
            fty = F.ty(f["ty"]) or {}
            if kind == "assign":
                ok = val == ("aggr", ("adt", "core::option::Option", "Some", ("0",)), (arg(2),)) and fty.get("adt_name") == "Option" and fty["args"][0] == body["locals"][2]["ty"]
            else:
                ok = val == arg(2) and fty.get("adt_name") == "Vec" and fty["args"][0] == body["locals"][2]["ty"]
            # on every path to the return (special: add_custom_tag may panic first)
            uncond = all(b.dominates(wbb, r) for r in b.return_blocks)
            ok = ok and uncond
            why += " unconditional=%s" % uncond
            if ok:
                if fi in seen:
                    ok = False
                    why = "slot %s also written by %s" % (f["name"], seen[fi])
                seen[fi] = name
        # returns self
        rt, _ = A.ret()
        ctx.check(ok, "SETTER", name, "setter %s(v) stores v in exactly one slot (%s), replacing (Option: last call wins) or appending (Vec: call order), with the slot's tag type" %
                  (name, fields[writes[0][1]]["name"] if len(writes) == 1 and writes[0][1] in fields else "?"), inst.get("span", ""), how=why, why=why)
    missing = [f["name"] for i, f in tag_fields.items() if i not in seen]
    ctx.check(not missing, "SETTER", "bijection", "every slot has exactly one setter (setter -> slot is a bijection onto the %d tag slots)" % len(tag_fields), builder_adt.get("span", ""),
              how="%d setters" % n, why="slots without setter: %s" % missing)
    return n
