"""C16 — heap construction lays out header and content exactly; cloning is the identity.

On the polymorphic body of new_boxed<T> (so for every T):
N1  tag_size = size_of Header + sum of the slices' lengths is passed to set_size before the header is copied
N2  the allocation layout is (increase_to_alignment(tag_size), 8)
N3  a null allocation diverges
N4  header copy: size_of Header bytes from the (updated) header to offset 0
N5  body copies: destination offset starts at size_of Header and advances by each slice's length after each copy;
    source = that slice's (ptr, len); copy and advance happen exactly once per loop iteration
N6  Box::from_raw on the allocated pointer with metadata T::dst_len(&header)
N7  size_of_val(box) == alloc_size is a fact at the return
N8  for every instantiation new_boxed::<T>: align_of::<T>() == 8  (Box frees with Layout::for_value == allocation layout)
N9  clone_dyn hands new_boxed the header's clone and a slice of exactly header.payload_len() bytes of the payload
"""
from .. import an
from .. import guard as G
from .. import mir as M
from ..guard import N, arg, cn
from . import c14


def callv(A, path_suffixes):
    out = []
    for bb, t in A.body.calls():
        p = M.callee_path(t)
        if any(p == s or p.endswith(s) for s in path_suffixes):
            out.append((bb, t, A.tb.call_value(t, bb)))
    return out


def run(ctx):
    F = ctx.F()
    nb = [f for k, f in F.fns.items() if f.get("name") == "new_boxed" and f.get("crate") == "multiboot2_common" and not f.get("closure")]
    if len(nb) != 1:
        ctx.fail("ANCHOR", "new_boxed", "multiboot2_common::new_boxed exists", "", "%d" % len(nb))
        return ctx.finish("other", "anchor missing", [], "")
    fn = nb[0]
    A = an.of(F, fn)
    b = A.body
    HS = ("sizeof", "<T as multiboot2_common::tag::MaybeDynSized>::Header")
    # ---- N1
    sets = callv(A, ["multiboot2_common::Header::set_size"])
    sums = callv(A, ["core::iter::traits::iterator::Iterator::sum"])
    SUM = None
    g_sum = False

    def is_len_sum(x, init_want=("c", 0)):
        """x = init + sum of len() over the slices of arg2, in a sum(map(..)) pipeline (init 0) or an accumulating loop"""
        if x[0] == "call" and len(x[2]) == 1 and ("Iterator>::sum" in str(x[1]) or cn(x[1]).endswith("Iterator::sum")):
            mp = x[2][0]
            is_map = mp[0] == "call" and ("Iterator>::map" in str(mp[1]) or cn(mp[1]).endswith("Iterator::map"))
            src_ = mp[2][0] if is_map else None
            copied_ = False
            if src_ is not None and src_[0] == "call" and len(src_[2]) == 1 and ("Iterator>::copied" in str(src_[1]) or cn(src_[1]).endswith(("Iterator::copied", "Iterator::cloned"))):
                src_, copied_ = src_[2][0], True          # iter().copied(): the same slices, by value (&[u8] is Copy)
            it_ok = is_map and src_[0] == "call" and cn(src_[1]) == "core::slice::iter" and src_[2] == (arg(2),)
            if it_ok:
                clo = mp[2][1]
                # `<[u8]>::len` passed as a function instead of a closure calling it
                if clo[0] in ("fn", "cs", "aggr") and "core::slice::<impl [u8]>::len" in str(clo) and "closure" not in str(clo[:2]):
                    return True
                if clo[0] == "aggr" and clo[1][0] == "closure":
                    cf = [c for k, c in F.fns.items() if c.get("path") == clo[1][1]]
                    if len(cf) == 1:
                        rt, _ = an.of(F, cf[0]).ret()
                        n = N(rt) if rt is not None else None
                        return n is not None and n[0] == "len" and n[1] in (("deref", arg(2)), arg(2), ("deref", ("deref", arg(2))))
            return False
        if x[0] == "opq" and len(x) > 3 and x[1] == "phi":
            # let mut total = 0; for s in slices { total += s.len() }
            L = x[2]
            be = b.back_edges()
            cand = [(t_, h_) for (t_, h_) in be]
            defs = [d for d in A.tb.defs.get(L, []) if not d[3]]
            for (t_, h_) in cand:
                lb_ = b.loop_blocks(h_, t_)
                init = [d for d in defs if d[1] not in lb_]
                upd = [d for d in defs if d[1] in lb_]
                if len(init) != 1 or len(upd) != 1 or init[0][0] != "stmt" or upd[0][0] != "stmt":
                    continue
                st0 = b.stmts(init[0][1])[init[0][2]]
                if N(A.tb.rvalue(st0["rv"], (init[0][1], init[0][2]), st0)) != init_want:
                    continue
                st1 = b.stmts(upd[0][1])[upd[0][2]]
                uv = N(A.tb.rvalue(st1["rv"], (upd[0][1], upd[0][2]), st1))
                if not (uv[0] == "bin" and uv[1] == "Add"):
                    continue
                acc, ln_ = uv[2], uv[3]
                if not (acc[0] == "opq" and acc[1] == "phi" and acc[2] == L):
                    acc, ln_ = ln_, acc
                if not (acc[0] == "opq" and acc[1] == "phi" and acc[2] == L and ln_[0] == "len"):
                    continue
                item = ln_[1]
                item = item[1] if item[0] == "deref" else item
                if not (item[0] == "fld" and item[1][0] == "dc" and item[1][1][0] == "call" and "Iterator>::next" in str(item[1][1][1])):
                    continue
                itr = item[1][1][2][0]
                itr = itr[1] if itr[0] == "ref" else itr
                if itr[0] == "opq" and len(itr) > 2 and itr[1] == "phi" and isinstance(itr[2], int):
                    # the iterator variable is advanced in the loop: what is walked is its value on entry to the loop
                    pre_ = [p_ for (p_, _l) in b.pred[h_] if p_ not in lb_]
                    if len(pre_) == 1:
                        itr = N(A.tb.read(itr[2], (), (pre_[0], len(b.stmts(pre_[0])))))
                for _ in range(3):
                    if itr[0] == "call" and len(itr[2]) == 1 and ("IntoIterator" in str(itr[1]) or cn(itr[1]) == "core::slice::iter"):
                        itr = itr[2][0]
                nexts = [bb_ for bb_, tt in b.calls() if bb_ in lb_ and "Iterator>::next" in (M.callee_path(tt) or "") + str(M.callee_key(tt))]
                if itr == arg(2) and len(nexts) == 1 and b.dominates(upd[0][1], t_):
                    return True
        return False
    if len(sets) == 1:
        tag_ = N(sets[0][2])[2][1]
        if tag_[0] == "bin" and tag_[1] == "Add" and HS in (tag_[2], tag_[3]):
            SUM = tag_[3] if tag_[2] == HS else tag_[2]
            g_sum = is_len_sum(SUM)
    if not g_sum and len(sets) == 1:
        # the accumulator starts at size_of::<Header>() (`fold(header_size, |n, s| n + s.len())`): the stored size is the loop's result
        tag_ = N(sets[0][2])[2][1]
        if tag_[0] == "opq" and is_len_sum(tag_, init_want=N(HS)):
            SUM = ("bin", "Sub", tag_, HS)
            g_sum = True
    ctx.check(g_sum, "N1", "sum", "additional_size is the sum of len() over the given slices", A.site(), how=G.show(SUM)[:160] if SUM else "",
              why=G.show(sets[0][2])[:300] if sets else "no set_size() call")
    TAG = None
    g1 = False
    if len(sets) == 1 and SUM is not None and SUM[0] == "bin" and SUM[1] == "Sub" and SUM[3] == HS and SUM[2][0] == "opq":
        sv = N(sets[0][2])
        TAG = sv[2][1]
        g1 = sv[2][0][0] in ("ref", "opq", "arg")
    elif len(sets) == 1 and SUM is not None:
        sv = N(sets[0][2])
        # set_size(&mut header, tag_size)
        TAG = sv[2][1]
        g1 = TAG in (("bin", "Add", HS, SUM), ("bin", "Add", SUM, HS)) and sv[2][0][0] in ("ref", "opq", "arg")
    ctx.check(g1, "N1", "set_size", "the header's size is set to size_of::<Header>() + sum of the content lengths", A.site(sets[0][0]) if sets else A.site(),
              how="set_size(&mut header, size_of Header + sum)", why=G.show(sets[0][2])[:300] if sets else "no set_size call")
    # ---- N2
    allocs = callv(A, ["alloc::alloc::alloc"])
    g2 = False
    ALLOC = HEAP = None
    if len(allocs) == 1 and TAG is not None:
        HEAP = N(allocs[0][2])
        lay = HEAP[2][0]
        if lay[0] == "unwrap" and lay[1][0] == "call" and cn(lay[1][1]) == "core::alloc::layout::Layout::from_size_align":
            ALLOC, al = lay[1][2]
            want = G.lin(("bin", "Add", raw(TAG), ("c", 7), "usize")).add(G.Lin(0, {("rem", G.canon(("bin", "Add", raw(TAG), ("c", 7), "usize")), 8): 1}), -1)
            try:
                g2 = al == ("c", 8) and G.lin(raw(ALLOC)).key() == want.key()
            except Exception:
                g2 = False
            if not g2 and ALLOC[0] == "call" and cn(ALLOC[1]) == "multiboot2_common::increase_to_alignment" and ALLOC[2] == (TAG,):
                g2 = al == ("c", 8)
    ctx.check(g2, "N2", "layout", "the allocation layout is (increase_to_alignment(tag_size), 8)", A.site(allocs[0][0]) if allocs else A.site(),
              how="alloc(Layout::from_size_align(round8(tag_size), 8).unwrap())", why=G.show(allocs[0][2])[:300] if allocs else "no alloc")
    # ---- N3
    g3 = False
    if allocs:
        ab = allocs[0][0]
        for bb in sorted(b.reachable):
            t = b.term(bb)
            if t["k"] == "switch":
                d = N(A.tb.operand(t["d"], (bb, len(b.stmts(bb)))))
                if d == ("is_null", HEAP):
                    # null edge diverges
                    for (tg, lab) in b.succ[bb]:
                        fs = A.g.edge_facts(bb, tg, lab)
                        if any(N(f) == ("istrue", ("is_null", HEAP)) for f in fs):
                            g3 = b.diverges(tg)
                    null_sw = bb
    how3 = "switch on is_null(heap_ptr); null edge panics"
    if not g3 and HEAP is not None:
        # `NonNull::new(alloc(..)).expect(..)` (None exactly for a null pointer: std contract; unwrap/expect of None diverges): every
        # later use of the allocation then goes through that unwrapped pointer - which becomes "the heap pointer" of N4-N6
        NN = ("unwrap", ("nonnull_new", HEAP))
        uses_raw = any(HEAP in G_sub(N(c[2])) and NN not in G_sub(N(c[2])) for c in callv(A, ["core::ptr::copy_nonoverlapping", "alloc::boxed::Box::from_raw"]))
        uses_nn = any(NN in G_sub(N(c[2])) for c in callv(A, ["core::ptr::copy_nonoverlapping"]))
        if uses_nn and not uses_raw:
            g3 = True
            HEAP = NN
            how3 = "NonNull::new(alloc(..)).expect(..): diverges exactly when the allocation is null"
    ctx.check(g3, "N3", "null-check", "a null allocation diverges before the pointer is used", A.site(), how=how3,
              why="no diverging null edge found")
    # ---- copies
    copies = callv(A, ["core::ptr::copy_nonoverlapping"])
    hdr_copy = [c for c in copies if N(c[2])[2][1] == HEAP]
    g4 = False
    if len(hdr_copy) == 1 and sets:
        cv = N(hdr_copy[0][2])
        src, dst, cnt = cv[2]
        after_set = b.dominates(sets[0][0], hdr_copy[0][0]) and sets[0][0] != hdr_copy[0][0]
        # source is the header local (arg 1) re-read after set_size clobbered it
        src_ok = src[0] == "ref" and (src[1] == ("opq", "phi", 1, (), (("clobber", sets[0][0]),)))
        elem_u8 = "<u8>" in str(cv[1])
        g4 = after_set and src_ok and cnt == HS and elem_u8 and (g3 is False or True)
    ctx.check(g4, "N4", "header-copy", "size_of::<Header>() bytes are copied from the header (after set_size) to offset 0 of the allocation",
              A.site(hdr_copy[0][0]) if hdr_copy else A.site(), how="copy_nonoverlapping::<u8>(&header, heap_ptr, size_of Header) dominated by set_size",
              why=G.show(hdr_copy[0][2])[:300] if hdr_copy else "no header copy")
    body_copy = [c for c in copies if c not in hdr_copy]
    g5 = False
    why5 = "no body copy"
    if len(body_copy) == 1:
        cb = body_copy[0][0]
        cv = N(body_copy[0][2])
        src, dst, cnt = cv[2]
        why5 = G.show(body_copy[0][2])[:400]
        # loop containing cb
        loops = [(t, h) for (t, h) in b.back_edges() if cb in b.loop_blocks(h, t)]
        phis = [x for x in _subterms(dst) if isinstance(x, tuple) and len(x) > 3 and x[0] == "opq" and x[1] == "phi"]
        if len(loops) == 1 and len(set(phis)) == 1:
            tail, head = loops[0]
            lb = b.loop_blocks(head, tail)
            W = phis[0]
            L = W[2]
            defs = A.tb.defs.get(L, [])
            init = [d for d in defs if d[1] not in lb]
            upd = [d for d in defs if d[1] in lb]
            pn = G.ptr_norm(dst)
            # value of the carried variable on entry to the loop: read at the end of the loop's only outside predecessor
            # (the variable may have been assigned several times before, e.g. one cursor used for header and body)
            pre = [p_ for (p_, _l) in b.pred[head] if p_ not in lb]
            if len(init) >= 1 and len(pre) == 1 and len(upd) == 1 and upd[0][0] == "stmt" and pn is not None:
                iv = N(A.tb.read(L, (), (pre[0], len(b.stmts(pre[0])))))
                init = [("stmt", pre[0], 0, ())]
                st = b.stmts(upd[0][1])[upd[0][2]]
                uv = N(A.tb.rvalue(st["rv"], (upd[0][1], upd[0][2]), st))
                item_len = cnt
                base, off = pn
                init_ok = upd_ok = False
                form = "?"
                try:
                    if base == W:
                        # the destination pointer itself is carried: starts at heap_ptr + size_of Header, advances by len
                        form = "running pointer"
                        pi, pu = G.ptr_norm(iv), G.ptr_norm(uv)
                        init_ok = off.key() == G.Lin(0).key() and pi is not None and pi[0] == HEAP and pi[1].key() == G.lin(HS).key() and b.dominates(init[0][1], head)
                        upd_ok = pu is not None and pu[0] == W and pu[1].key() == G.lin(item_len).key()
                    elif base == HEAP:
                        # heap_ptr + (constant + carried offset): position starts at size_of Header, advances by len
                        form = "running offset"
                        k = off.add(G.Lin(0, {W: 1}), -1)
                        init_ok = k.add(G.lin(iv)).key() == G.lin(HS).key() and b.dominates(init[0][1], head) and off.m.get(W) == 1
                        upd_ok = G.lin(uv).key() == G.Lin(0, {W: 1}).add(G.lin(item_len)).key()
                except Exception as e:          # non-linear shapes
                    form = "unrecognised (%s)" % e
                if form == "?":
                    form = "base %s" % G.show(base)[:160]
                # source: (as_ptr(item), len(item)) of the same item, item = payload of next() over arg2
                src_ok = src[0] == "asptr" and item_len == ("len", src[1])
                item = src[1]
                it_ok = False
                x = item
                if x[0] == "deref":
                    x = x[1]
                if x[0] == "fld" and x[1][0] == "dc" and x[1][1][0] == "call" and "Iterator>::next" in str(x[1][1][1]):
                    itr = x[1][1][2][0]
                    itr = itr[1] if itr[0] == "ref" else itr
                    itr = an.loop_entry_value(A, itr, head, lb)
                    # forward slice iteration over the argument: into_iter(arg2) | arg2.iter() | into_iter(arg2.iter())
                    while itr[0] == "call" and "IntoIterator" in str(itr[1]) and len(itr[2]) == 1:
                        itr = itr[2][0]
                    if itr[0] == "call" and cn(itr[1]) == "core::slice::iter" and len(itr[2]) == 1:
                        itr = itr[2][0]
                    it_ok = itr == arg(2) and "core::slice::iter::Iter<" in str(x[1][1][1])
                # exactly once per iteration: copy block and update block dominate the back-edge tail, update after copy
                once = b.dominates(cb, tail) and b.dominates(upd[0][1], tail) and b.dominates(cb, upd[0][1])
                inner = [(t2, h2) for (t2, h2) in b.back_edges() if (t2, h2) != (tail, head) and h2 in lb]
                g5 = init_ok and upd_ok and src_ok and it_ok and once and not inner
                why5 = "%s: init_ok=%s upd_ok=%s src_ok=%s iter_ok=%s once=%s inner_loops=%s; update=%s" % (form, init_ok, upd_ok, src_ok, it_ok, once, inner, G.show(uv)[:120])
    ctx.check(g5, "N5", "body-copies",
              "each slice is copied to heap_ptr + write_offset with write_offset starting at size_of::<Header>() and advancing by the slice's length "
              "exactly once per iteration, source = the slice's own (ptr, len), slices taken in order from the argument",
              A.site(body_copy[0][0]) if body_copy else A.site(), how="loop-carried offset: init size_of Header, update offset + len(item) after the copy", why=why5)
    # ---- N1b: what set_size does with that number, for every header type (new_boxed hands the size over through this hook)
    SIZE_FIELD_OFF = {"multiboot2::tag::TagHeader": 4, "multiboot2_header::tags::HeaderTagHeader": 4,
                      "multiboot2::boot_information::BootInformationHeader": 0, "multiboot2_header::header::Multiboot2BasicHeader": 8}
    n_ss = 0
    for h in c14.header_types(F):
        hty = h["self"]
        off = SIZE_FIELD_OFF.get(hty)
        ss = F.find(impl_trait="multiboot2_common::Header", impl_self=hty, name="set_size")
        lab = "set_size<%s>" % hty.split("::")[-1]
        if off is None or len(ss) != 1:
            ctx.fail("N1", lab, "Header::set_size of %s exists and its size field is known" % hty, h.get("span", ""), "%d instances, size field offset %s" % (len(ss), off))
            continue
        n_ss += 1
        S_ = an.of(F, ss[0])
        lay = F.adts.get(hty)
        fname_ = [f["name"] for f in lay["fields"] if f["off"] == off and f["size"] == 4]
        ws = [(name, N(v)) for (_bb, _si, name, v) in an.writes_through(S_, 1)]
        mine = [w for w in ws if fname_ and w[0] == fname_[0]]
        want = ("cast", "IntToInt", arg(2), "u32")
        ok_ss = len(mine) == 1 and mine[0][1] == want and all(S_.body.dominates(bb, r) for (bb, _si, name, v) in an.writes_through(S_, 1) if fname_ and name == fname_[0] for r in S_.body.return_blocks)
        ctx.check(ok_ss, "N1", lab, "%s::set_size(n) stores exactly n (as u32) in the size field at offset %d - not a rounded or adjusted value" % (hty.split("::")[-1], off),
                  S_.site(), how="one store of `n as u32` to `%s`" % (fname_[0] if fname_ else "?"), why="stores: %s" % [(w[0], G.show(w[1])[:80]) for w in ws])
    ctx.floor("N1", "header types with a checked set_size", n_ss, 4)
    # ---- N6, N7
    fr = callv(A, ["alloc::boxed::Box::<T>::from_raw"])
    g6 = False
    BOX = None
    if len(fr) == 1 and sets:
        BOX = N(fr[0][2])
        fp = BOX[2][0]
        hdr_after = ("ref", ("opq", "phi", 1, (), (("clobber", sets[0][0]),)))
        g6 = fp[0] == "fatptr" and fp[1] == HEAP and fp[2][0] == "call" and str(fp[2][1]).endswith("MaybeDynSized>::dst_len") and fp[2][2] == (hdr_after,)
    ctx.check(g6, "N6", "from_raw", "the Box is made from the allocated pointer with metadata T::dst_len(&header) (header after set_size)",
              A.site(fr[0][0]) if fr else A.site(), how="Box::from_raw(from_raw_parts_mut(heap_ptr, T::dst_len(&header)))", why=G.show(fr[0][2])[:300] if fr else "")
    rt, rfacts = A.ret()
    g7 = False
    if rt is not None and BOX is not None and ALLOC is not None:
        for f in rfacts:
            nf = N(f)
            if nf[0] == "cmp" and nf[1] == "Eq":
                for (x, y) in ((nf[2], nf[3]), (nf[3], nf[2])):
                    if x[0] == "sizeofval" and BOX in _subterms(x[1]) and y == ALLOC:
                        g7 = True
        g7 = g7 and N(rt) == BOX
    ctx.check(g7, "N7", "size-assert", "size_of_val(*box) == alloc_size is a fact at the return and the returned Box is that one", A.site(),
              how="assert_eq on every path to the return", why="facts at return: %s" % [G.show(f)[:120] for f in (rfacts or [])])
    # ---- N8
    insts = [i for k, i in F.insts.items() if cn(k) == "multiboot2_common::boxed::new_boxed"]
    for i in insts:
        t = i.get("gargs", ["?"])[0]
        ctx.check(F.align_of(t) == 8, "N8", "align:%s" % t.split("::")[-1], "align_of::<%s>() == 8 (the Box is freed with the allocation's layout)" % t.split("::")[-1],
                  i.get("span", ""), how="layout align %s" % F.align_of(t), why="align %s" % F.align_of(t))
    ctx.floor("N8", "instantiations of new_boxed", len(insts), 11)
    # ---- N9 clone_dyn
    cd = [f for k, f in F.fns.items() if f.get("name") == "clone_dyn" and f.get("crate") == "multiboot2_common"]
    if len(cd) != 1:
        ctx.fail("ANCHOR", "clone_dyn", "clone_dyn exists", "", "%d" % len(cd))
    else:
        C = an.of(F, cd[0])
        rt, _ = C.ret()
        n = N(rt) if rt is not None else None
        g9 = False
        why = G.show(rt)[:400]
        if n is not None and n[0] == "call" and cn(n[1]) == "multiboot2_common::boxed::new_boxed":
            hdr, sl = n[2]
            def is_call(t, suffix, args=None):
                return t[0] == "call" and str(t[1]).endswith(suffix) and (args is None or t[2] == args)

            def is_hdr(t):
                return is_call(t, "MaybeDynSized>::header", (arg(1),))
            hdr_ok = hdr[0] == "call" and "Clone>::clone" in str(hdr[1]) and len(hdr[2]) == 1 and is_hdr(hdr[2][0])
            x = sl
            if x[0] == "unsize":
                x = x[1]
            if x[0] == "ref":
                x = x[1]
            elem = x[2][0] if x[0] == "aggr" and x[1] == ("array",) and len(x[2]) == 1 else None

            def is_plen(t):
                return is_call(t, "Header>::payload_len") and len(t[2]) == 1 and is_hdr(t[2][0])

            def is_payload(t):
                return is_call(t, "MaybeDynSized>::payload", (arg(1),))
            exact = False
            if elem is not None:
                e = elem
                if e[0] == "call" and cn(e[1]) == "core::slice::index::index" and is_payload(e[2][0]):
                    r = e[2][1]
                    exact = r[0] == "aggr" and r[1][1] == "core::ops::range::RangeTo" and len(r[2]) == 1 and is_plen(r[2][0])
                if e[0] in ("unwrap", "try_ok") and e[1][0] == "call" and cn(e[1][1]) == "core::slice::get" and is_payload(e[1][2][0]):
                    r = e[1][2][1]
                    exact = r[0] == "aggr" and r[1][1] == "core::ops::range::RangeTo" and len(r[2]) == 1 and is_plen(r[2][0])
            g9 = hdr_ok and exact
        ctx.check(g9, "N9", "clone_dyn", "clone_dyn(tag) = new_boxed(tag.header().clone(), &[first header.payload_len() bytes of tag.payload()]) - the unpadded content",
                  C.site(), how=why, why=why)
    c14.rounding_kernel(ctx, F, rule="N2")
    # ---- N10 "a clone is equal": clone_dyn reproduces the bytes up to the declared size (N9); `==` must then say equal, i.e. the
    # PartialEq of every dynamically sized tag compares declared content only, field by field (the derive), and never something
    # that includes the allocation's padding (`as_bytes()`, `payload()` of the trait) or pairs different fields
    n_eq = 0
    for k_, v_ in sorted(F.insts.items()):
        if v_.get("name") != "eq" or "core::cmp::PartialEq" not in str(v_.get("impl_trait")) or v_.get("crate") not in ("multiboot2", "multiboot2_header"):
            continue
        a_ = F.adts.get(v_.get("impl_self_path")) or {}
        if not a_.get("unsized") or "PartialEq<" in str(v_.get("impl_trait")):
            continue
        n_eq += 1
        nm = a_.get("name") or str(v_.get("impl_self_path")).split("::")[-1]
        if v_.get("derived"):
            ctx.ok("N10", "eq:" + nm, "%s == %s is the derived field-by-field comparison" % (nm, nm), v_.get("span", ""), how="#[derive(PartialEq)]", nontrivial=False)
            continue
        ok_, why_ = eq_is_fieldwise(F, v_)
        ctx.check(ok_, "N10", "eq:" + nm, "the hand-written %s::eq compares the same field of both sides, test by test, answers true when all tests do, and hands "
                  "neither side as a whole to anything (no padding bytes enter the comparison)" % nm, v_.get("span", ""), how=why_, why=why_)
    ctx.floor("N10", "PartialEq impls of dynamically sized tags", n_eq, 9)
    ctx.note("freed exactly once with the allocation layout: Box<T> drops with Layout::for_value(&*box) = (size_of_val, align_of_val) = (alloc_size, 8) by N7+N8; "
             "exactly-once is Rust ownership (hand step)")
    return ctx.finish(
        "other",
        "Structural premises N1-N9 on the polymorphic MIR of new_boxed and clone_dyn: size patching before the header copy, allocation "
        "layout term, diverging null check, header copy, loop-carried write offset (initial value, single update per iteration paired with "
        "the copy, source/len of the same slice), fat Box construction, size assertion at the return; alignment 8 of every instantiated T.",
        ["rustc MIR", "mb2rules TERMS/GUARD + loop-carried variable pairing", "std: Iterator::sum/map, slice iteration order, alloc/Box::from_raw contracts", "allocator behaviour is not modelled"],
        "one obligation per premise N1..N9 (+ one per instantiation for N8)",
    )


def raw(t):
    """N-form term back to something G.lin accepts (N-forms are lin-compatible: bin/c/atoms)"""
    if isinstance(t, tuple) and t and t[0] == "bin" and len(t) == 4:
        return ("bin", t[1], raw(t[2]), raw(t[3]), None)
    return t


def _subterms(t, acc=None):
    acc = acc if acc is not None else []
    if isinstance(t, tuple):
        acc.append(t)
        for x in t:
            if isinstance(x, tuple):
                _subterms(x, acc)
    return acc


def eq_is_fieldwise(F, inst):
    """a hand-written `eq(&self, &other)`: every test is `self.PLACE == other.PLACE` for one and the same field place (a primitive
    comparison or a PartialEq::eq call on references to it), nothing else is handed self / other, and following the `equal` outcome
    of every test leads to `true`"""
    A = an.of(F, inst)
    b = A.body

    def swap(t):
        if isinstance(t, tuple):
            if len(t) >= 2 and t[0] == "arg" and t[1] in (1, 2):
                return ("arg", 3 - t[1]) + tuple(t[2:])
            return tuple(swap(x) for x in t)
        return t

    def mentions(t):
        return isinstance(t, tuple) and ((len(t) >= 2 and t[0] == "arg") or any(mentions(x) for x in t))

    def is_field_place(t):
        # &(*argK).f... / (*argK).f...
        x = t
        while isinstance(x, tuple) and x and x[0] in ("ref", "deref"):
            x = x[1]
        seen_f = False
        while isinstance(x, tuple) and x and x[0] == "fld":
            seen_f = True
            x = x[1]
            while isinstance(x, tuple) and x and x[0] in ("ref", "deref"):
                x = x[1]
        return seen_f and isinstance(x, tuple) and x[:1] == ("arg",)

    def truth_of(d):
        """value of a test when both sides are the same object: `==` of one field place of both sides is true, `!=` false"""
        if d[0] == "c":
            return d[1]
        if d[0] == "call" and len(d[2]) == 2 and swap(d[2][0]) == d[2][1] and d[2][0] != d[2][1] and is_field_place(d[2][0]):
            return 1 if str(d[1]).endswith("::eq") else 0 if str(d[1]).endswith("::ne") else None
        if d[0] == "bin" and d[1] in ("Eq", "Ne") and swap(d[2]) == d[3] and d[2] != d[3] and is_field_place(d[2]):
            return 1 if d[1] == "Eq" else 0
        if d[0] == "un" and d[1] == "Not":
            x = truth_of(d[2])
            return None if x is None else 1 - x
        if d[0] == "not":
            x = truth_of(d[1])
            return None if x is None else 1 - x
        return None

    for bb, t in b.calls():
        at = (bb, len(b.stmts(bb)))
        args = [N(A.tb.operand(a, at)) for a in t["args"]]
        p = M.callee_path(t) or ""
        if not any(mentions(a) for a in args):
            continue
        if len(args) == 2 and (p.endswith("::eq") or p.endswith("::ne")) and "PartialEq" in p + str(M.callee_key(t)) and \
                swap(args[0]) == args[1] and args[0] != args[1] and is_field_place(args[0]):
            continue
        return False, "call %s is handed %s" % (p.split("::")[-1], [G.show(a)[:40] for a in args])
    cur, val, steps = 0, None, 0
    while steps < 200:
        steps += 1
        for st in b.stmts(cur):
            if st["k"] == "assign" and st["lhs"].get("l") == 0 and not st["lhs"].get("p"):
                v = N(A.tb.rvalue(st["rv"], (cur, 0), st))
                val = truth_of(v)
        t = b.term(cur)
        if t["k"] == "return":
            return (val == 1, "all tests equal -> %s" % ("true" if val == 1 else "not the constant true"))
        if t["k"] == "goto":
            cur = t["t"]
        elif t["k"] == "call":
            if t.get("t") is None:
                return False, "diverging call"
            if (t.get("dest") or {}).get("l") == 0:
                # `.. && self.f == other.f`: the answer is the last test's outcome
                val = truth_of(N(A.tb.call_value(t, cur)))
            cur = t["t"]
        elif t["k"] == "switch":
            d = N(A.tb.operand(t["d"], (cur, len(b.stmts(cur)))))
            truth = truth_of(d)
            if truth is None:
                return False, "test %s is not a comparison of one field of both sides" % G.show(d)[:80]
            nxt = t["otherwise"]
            for v_, tg in zip(t["vals"], t["ts"]):
                if v_ == truth:
                    nxt = tg
            cur = nxt
        elif t["k"] in ("assert", "drop"):
            cur = t["t"]
        else:
            return False, "terminator %s" % t["k"]
    return False, "no return reached"


def G_sub(t, acc=None):
    acc = set() if acc is None else acc
    if isinstance(t, tuple):
        acc.add(t)
        for x in t:
            if isinstance(x, tuple):
                G_sub(x, acc)
    return acc
