"""Provided Iterator methods: the properties argue about `next()`; every other Iterator method an iterator type does not
define itself is std's default, built on `next()`.  A type that overrides one (nth, count, fold, size_hint, ...) replaces
that derivation by code of its own, which must then be looked at: overrides are enumerated from the impl table, the ones
whose meaning is checked are listed per iterator, anything else is reported."""
from .. import an
from .. import guard as G
from ..guard import N


def check_overrides(ctx, F, rule, self_name, verified=None):
    """verified: {method name: callable(inst) -> (ok, how)} for overrides that are checked; `next` is checked by the caller"""
    verified = verified or {}
    ims = [im for im in F.impls if im.get("trait") == "core::iter::traits::iterator::Iterator" and im.get("self_name") == self_name]
    if len(ims) != 1:
        ctx.fail("ANCHOR", "%s:Iterator" % self_name, "exactly one Iterator impl for %s" % self_name, "", "%d" % len(ims))
        return
    im = ims[0]
    fns = [i["name"] for i in im["items"] if i["kind"] == "Fn"]
    for m in fns:
        if m == "next":
            continue
        if m in verified:
            insts = F.find(impl_self_name=self_name, name=m, impl_trait="core::iter::traits::iterator::Iterator")
            ok, how = (False, "no instance") if len(insts) != 1 else verified[m](insts[0])
            ctx.check(ok, rule, "%s::%s" % (self_name, m), "%s overrides Iterator::%s consistently with next()" % (self_name, m), im.get("span", ""), how=how, why=how)
        else:
            ctx.fail(rule, "%s::%s" % (self_name, m), "%s does not replace the provided Iterator method `%s` (std derives it from next())" % (self_name, m),
                     im.get("span", ""), "override of Iterator::%s is not one of the checked ones" % m)
    ctx.ok(rule, "%s:provided" % self_name, "%s defines of Iterator only %s; all other methods are std's defaults over next()" % (self_name, sorted(fns)), im.get("span", ""),
           how="impl table", nontrivial=False)


def size_hint_is(F, want_term):
    """verifier: size_hint() returns (n, Some(n)) with n == want_term (N-form over arg1)"""
    def v(inst):
        rt, _ = an.of(F, inst).ret()
        if rt is None:
            return False, "several returns"
        n = N(rt)
        ok = n[0] == "aggr" and n[1] == ("tuple",) and len(n[2]) == 2 and n[2][0] in want_term and \
            n[2][1][0] == "aggr" and n[2][1][1][2] == "Some" and n[2][1][2][0] in want_term
        return ok, G.show(rt)[:160]
    return v
