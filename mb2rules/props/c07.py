"""C07 — every tag constructor emits the spec-exact binary image.

PIECES: for each public constructor of both crates
  sized kinds    the struct-literal aggregate: header = (Self::ID = the kind's number, size = the oracle's exact size),
                 every other field receives its own parameter (by name / alias table), reserved fields explicit zeros
  DST kinds      the slice list handed to new_boxed (which sets the size, C16): piece k covers exactly field k's
                 [offset, offset+width) starting at size_of Header, the dynamic piece starts at the tail offset;
                 provenance = to_ne_bytes(parameter) / parameter bytes / literal zeros
AL  align_of::<T>() == 8 for every MaybeDynSized implementor (as_bytes() works wherever the tag is placed)
EN  wire enums' discriminants == specified encodings
RB  read-back: the accessor that reads field f is named like the parameter that the constructor stores in f
Endianness: decided for the little-endian target the checks compile for (to_ne_bytes).
"""
import os
import re
from .. import an
from .. import chain as CH
from .. import guard as G
from .. import layout as L
from .. import mir as M
from .. import spec as S
from ..guard import N, arg, fld, deref, cn
from . import tagtables as TT

T2 = "multiboot2::tag_type::primitive_conversion_impls::<impl core::convert::From<multiboot2::tag_type::TagType> for u32>::from"

# parameter name -> field name where they differ (API table from the constructors' documentation)
PARAM_ALIAS = {
    "ApmTag": {"dset": "dseg"}, "ModuleTag": {"start": "mod_start", "end": "mod_end"},
    "EFIMemoryMapTag": {"efi_mmap": "memory_map"}, "NetworkTag": {"dhcp_pack": "dhcpack"}, "CommandLineTag": {"command_line": "cmdline"},
    "FramebufferTag": {"buffer_type": "framebuffer_type"},
}
# accessor name -> parameter name where they differ
READBACK_ALIAS = {
    "ApmTag": {"dseg": "dset"}, "EFISdt32Tag": {"sdt_address": "pointer"}, "EFISdt64Tag": {"sdt_address": "pointer"},
    "EFIImageHandle32Tag": {"image_handle": "pointer"}, "EFIImageHandle64Tag": {"image_handle": "pointer"},
    "ModuleTag": {"start_address": "start", "end_address": "end"},
}
CTOR_NAMES = ("new", "default", "new_from_map")


def param_name(inst, i):
    return inst["body"]["locals"][i].get("n")


def header_ok(F, crate, hdr, kind, row, sized):
    """hdr: N-form aggregate of TagHeader / HeaderTagHeader.  Returns (ok, description)"""
    if hdr[0] != "aggr" or hdr[1][0] != "adt":
        return False, "header operand %s" % str(hdr)[:120]
    vals = dict(zip(hdr[1][3], hdr[2]))
    if crate == "multiboot2":
        typ = vals.get("typ")
        # TagTypeId is a transparent newtype over u32: transmute(n) and TagTypeId(n) / TagTypeId::new(n) are the same value
        num = None
        if typ is not None and typ[0] == "cast" and typ[1] == "Transmute":
            num = typ[2]
        elif typ is not None and typ[0] == "aggr" and typ[1][:2] == ("adt", "multiboot2::tag_type::TagTypeId") and len(typ[2]) == 1:
            num = typ[2][0]
        t_ok = num is not None and num[0] == "call" and num[1] == T2 and num[2][0][0] == "cs" and num[2][0][2] == kind
    else:
        typ = vals.get("typ")
        # the variant written as a literal or taken from a constant (`Self::ID`) the compiler evaluated to that variant
        t_ok = typ == ("aggr", ("adt", "multiboot2_header::tags::HeaderTagType", kind, ()), ()) or \
            (typ is not None and typ[0] == "cs" and len(typ) > 3 and typ[1] == "multiboot2_header::tags::HeaderTagType::" + kind and typ[2] == kind and not typ[3])
    sz = vals.get("size")
    if sz is not None and sz[0] == "unwrap" and sz[1][0] == "call" and "TryFrom<usize> for u32" in str(sz[1][1]):
        sz = sz[1][2][0]
    want = row["fixed"] if sized else 0
    s_ok = sz == ("c", want)
    return t_ok and s_ok, "type operand = %s, size operand = %s (want kind %s / size %d)" % (G.show(typ)[:60], G.show(sz), kind, want)


def piece_width(p):
    """static byte width of a slice piece, or None for a dynamic one"""
    if p[0] == "unsize" and p[3].startswith("&[u8; "):
        return int(p[3][len("&[u8; "):-1])
    return None


def run(ctx):
    F = ctx.F()
    global T2
    from . import tagtables as _TTk
    T2 = _TTk.conv_key(F, "t2")
    kinds = {}
    for crate, tab, hdrf in (("multiboot2", S.MBI_TAGS, S.MBI_TAG_HEADER), ("multiboot2_header", S.HEADER_TAGS, S.HEADER_TAG_HEADER)):
        for kind, row in tab.items():
            a = L.adt(F, crate, row["ty"])
            if a is None:
                ctx.fail("ANCHOR", row["ty"], "type exists", "", "missing")
                continue
            kinds[(crate, kind)] = (a, row, hdrf)
    n_ctor = 0
    for (crate, kind), (a, row, hdrf) in sorted(kinds.items()):
        name = a["name"]
        ctors = [i for k, i in F.insts.items() if i.get("impl_self_path") == a["path"] and i.get("name") in CTOR_NAMES and i.get("eff_pub") and not i.get("closure")
                 and (i.get("impl_trait") in (None, "core::default::Default"))]
        if not ctors:
            ctx.fail("ANCHOR", name + "::new", "%s has a public constructor" % name, a.get("span", ""), "none found")
            continue
        hs = 8
        for inst in ctors:
            A = an.of(F, inst)
            rt, _ = A.ret()
            label = "%s::%s" % (name, inst["name"])
            vals = []
            if rt is not None and not (rt[0] == "opq"):
                vals = [N(rt)]
            else:
                vals = [N(e.val) for e in CH.exits(A)]
            if not vals:
                ctx.fail("PIECES", label, "constructor has a recognisable result", inst.get("span", ""), "UNRECOGNISED")
                continue
            n_ctor += 1
            for vi, v in enumerate(vals):
                lab = label if len(vals) == 1 else "%s#%d" % (label, vi)
                # forwarding constructors: new() -> default(), new_from_descs -> new_from_map
                if v[0] == "call" and any(v[1] == c["key"] for c in ctors if c is not inst):
                    ctx.ok("PIECES", lab, "%s forwards to %s" % (label, v[1].split("::")[-1]), inst.get("span", ""), how=G.show(v)[:100], nontrivial=False)
                    continue
                if v[0] == "aggr" and v[1][0] == "adt" and v[1][1] == a["path"]:
                    check_sized(ctx, F, crate, kind, a, row, inst, v, lab)
                elif v[0] == "call" and cn(v[1]) == "multiboot2_common::boxed::new_boxed" and a["path"] in v[1]:
                    check_dst(ctx, F, crate, kind, a, row, inst, v, lab)
                else:
                    ctx.fail("PIECES", lab, "constructor result is a struct literal of %s or new_boxed::<%s>" % (name, name), inst.get("span", ""), "result %s" % G.show(v)[:200])
        # RB read-back names
        readback(ctx, F, crate, a, ctors)
    ctx.floor("PIECES", "constructors analysed", n_ctor, 35)
    # the images above are decided on the default build; a constructor that also exists without the default features must be the
    # same code there (an associated constant or helper gated on a feature can make `Self::X` resolve differently: the
    # constructor then emits another image in the minimal build although its text is unchanged)
    from .. import cfgdiff as CD_
    FB_ = ctx.F("B")
    differing_ = []
    n_common_ = 0
    for (crate, kind), (a, row, hdrf) in sorted(kinds.items()):
        for k_, i_ in F.insts.items():
            if i_.get("impl_self_path") == a["path"] and i_.get("name") in CTOR_NAMES and i_.get("eff_pub") and not i_.get("closure") and k_ in FB_.insts:
                n_common_ += 1
                if CD_.body_hash(i_) != CD_.body_hash(FB_.insts[k_]):
                    differing_.append("%s::%s" % (a["name"], i_["name"]))
    ctx.check(not differing_, "PIECES", "feature-independent", "every constructor that exists with and without the default features is the same code in both "
              "builds (after INLINE, constants evaluated)", "", how="%d constructors present in both builds, hash-equal" % n_common_, why="differ: %s" % differing_[:6])
    # ---- AL
    n_al = 0
    for im in F.impls:
        if im.get("trait", "").endswith("::tag::MaybeDynSized") and not im["generic"] and im["crate"] != "multiboot2_common":
            a = F.adts.get(im["self"])
            n_al += 1
            ctx.check(bool(a) and a["align"] == 8, "AL", a["name"] if a else im["self"], "align_of::<%s>() == 8: a value can only live at an 8-aligned address, so as_bytes() cannot fail on alignment" % im["self"].split("::")[-1],
                      im["span"], how="compiler layout align %s" % (a and a["align"]), why="align %s (repr %s)" % (a and a["align"], a and a["repr"]))
    ctx.floor("AL", "MaybeDynSized implementors", n_al, 33)
    # ---- EN
    for (crate, tyname, table, what) in (("multiboot2_header", "HeaderTagType", S.HEADER_TAG_TYPES, "header tag types"), ("multiboot2_header", "HeaderTagFlag", S.HEADER_TAG_FLAGS, "flag bit 0"),
                                         ("multiboot2_header", "HeaderTagISA", S.HEADER_ARCH, "architectures"), ("multiboot2_header", "RelocatableHeaderTagPreference", S.RELOCATABLE_PREFERENCE, "preferences"),
                                         ("multiboot2_header", "ConsoleHeaderTagFlags", S.CONSOLE_FLAGS, "console flag bits (bit 0 = 1: console required, bit 1 = 2: EGA text supported)"),
                                         ("multiboot2", "FramebufferTypeId", S.FRAMEBUFFER_TYPES, "framebuffer types")):
        e = L.adt(F, crate, tyname)
        got = {v["discr"]: v["name"] for v in (e or {}).get("variants", [])}
        # (a failing table is keyed by the table that is there, so that a recorded finding names *these* wrong values and any other
        # wrong table of the same enum is a new violation)
        ctx.check(got == table, "EN", tyname if got == table else "%s[%s]" % (tyname, ",".join("%s=%s" % kv for kv in sorted(got.items()))), "%s discriminants are the specified encodings of %s" % (tyname, what), (e or {}).get("span", ""), how=str(got), why="have %s, specified %s" % (got, table))
    # ---- MemoryArea::new and FramebufferType::serialize
    ma = L.adt(F, "multiboot2", "MemoryArea")
    mn = F.find(impl_self_path=ma["path"], name="new", impl_trait=None) if ma else []
    if not mn and ma:
        # generic in its third parameter (`impl Into<MemoryAreaTypeId>`) and not instantiated inside the crates: the polymorphic body
        mn = [f for k, f in F.fns.items() if f.get("impl_self_path") == ma["path"] and f.get("name") == "new" and not f.get("impl_trait") and not f.get("closure")]
    if len(mn) != 1:
        ctx.fail("ANCHOR", "MemoryArea::new", "the constructor MemoryArea::new exists (one body)", (ma or {}).get("span", ""), "%d found" % len(mn))
    if len(mn) == 1:
        rt, _ = an.of(F, mn[0]).ret()
        v = N(rt) if rt is not None else None
        ok = False
        if v is not None and v[0] == "aggr":
            d = dict(zip(v[1][3], v[2]))
            ok = d.get("base_addr") == arg(1) and d.get("length") == arg(2) and d.get("_reserved") == ("c", 0) and d.get("typ") is not None and arg(3) in G_sub(d["typ"])
        ctx.check(ok, "PIECES", "MemoryArea::new", "MemoryArea::new(base, len, typ) stores base, len, typ.into() and a zero reserved word", mn[0].get("span", ""), how=G.show(rt)[:160], why=G.show(rt)[:300])
    serialize(ctx, F)
    ctx.import_prop("C16")
    ctx.note("big-endian targets are not decided (to_ne_bytes); string constructors' NUL rule is C17")
    return ctx.finish(
        "other",
        "Constructor images: struct-literal aggregates and new_boxed slice lists of every public tag constructor laid against the compiler's "
        "layout and the specification's number/size tables; parameter provenance per field; reserved fields zero; alignment 8 of every tag "
        "type; discriminants of the wire enums; read-back naming between constructor parameters and accessors.",
        ["rustc MIR/layout", "mb2rules PIECES/LAYOUT", "spec.py tables", "C16 (new_boxed sets the size and concatenates)", "little-endian target"],
        "one obligation per constructor (per branch), per implementor alignment, per enum",
    )


def G_sub(t, acc=None):
    acc = acc if acc is not None else []
    if isinstance(t, tuple):
        acc.append(t)
        for x in t:
            if isinstance(x, tuple):
                G_sub(x, acc)
    return acc


def check_sized(ctx, F, crate, kind, a, row, inst, v, lab):
    names, ops = v[1][3], v[2]
    d = dict(zip(names, ops))
    hdr = d.get(names[0])
    ok_h, how_h = header_ok(F, crate, hdr, kind, row, True)
    ctx.check(ok_h and a["fields"][0]["off"] == 0, "PIECES", lab + ":header", "%s writes type = %s (%d) and size = %d (exact unpadded size) into the header at offset 0" % (lab, kind, row["num"], row["fixed"]),
              inst.get("span", ""), how=how_h, why=how_h)
    alias = PARAM_ALIAS.get(a["name"], {})
    used = []
    bad = []
    first_param = 1
    for fname, op in list(zip(names, ops))[1:]:
        if fname.startswith("_"):
            z = op == ("c", 0) or (op[0] == "aggr" and all(x == ("c", 0) for x in op[2]))
            if not z:
                bad.append("%s is not zero: %s" % (fname, G.show(op)[:40]))
            continue
        if fname == "signature" and op[0] == "cs" and "RSD PTR " in op[1]:
            continue
        if crate == "multiboot2_header" and fname == "flags":
            pass
        if op[0] != "arg":
            bad.append("%s <- %s" % (fname, G.show(op)[:40]))
            continue
        pn = param_name(inst, op[1])
        if alias.get(pn, pn) != fname:
            bad.append("field %s <- parameter %s" % (fname, pn))
        used.append(op[1])
    # header tags: flags parameter goes into the header
    if crate == "multiboot2_header" and hdr[0] == "aggr":
        hv = dict(zip(hdr[1][3], hdr[2]))
        fl = hv.get("flags")
        if inst["body"]["argc"] >= 1 and param_name(inst, 1) == "flags":
            if fl != arg(1):
                bad.append("header.flags <- %s" % G.show(fl)[:40])
            used.append(1)
        elif inst["body"]["argc"] == 0:
            if fl != ("aggr", ("adt", "multiboot2_header::tags::HeaderTagFlag", "Required", ()), ()):
                bad.append("header.flags <- %s" % G.show(fl)[:40])
    argc = inst["body"]["argc"]
    if sorted(used) != list(range(1, argc + 1)):
        bad.append("parameters used %s of %d" % (sorted(used), argc))
    ctx.check(not bad, "PIECES", lab + ":fields", "%s stores each parameter in the field it is named after (declaration order = specified offsets, C04/C11 layout rows), reserved fields are zero" % lab,
              inst.get("span", ""), how="%d fields" % (len(names) - 1), why="; ".join(bad))


def check_dst(ctx, F, crate, kind, a, row, inst, v, lab):
    hdr, slices = v[2]
    ok_h, how_h = header_ok(F, crate, hdr, kind, row, False)
    ctx.check(ok_h, "PIECES", lab + ":header", "%s passes a header of type %s (%d) to new_boxed, which sets the size (C16.N1)" % (lab, kind, row["num"]), inst.get("span", ""), how=how_h, why=how_h)
    x = slices
    if x[0] == "unsize":
        x = x[1]
    if x[0] == "ref":
        x = x[1]
    pieces = None
    if x[0] == "aggr" and x[1] == ("array",):
        pieces = list(x[2])
    if pieces is None:
        ctx.fail("PIECES", lab + ":pieces", "the content is a literal list of slices", inst.get("span", ""), "content %s" % G.show(slices)[:200])
        return
    hs = F.size_of(a["fields"][0]["ty"]) if a["fields"][0]["off"] == 0 and a["fields"][0]["size"] == 8 else 8
    off = 8
    alias = PARAM_ALIAS.get(a["name"], {})
    bad = []
    tail = a["tail"]
    flds = [f for f in a["fields"] if f["off"] >= 8]
    fi = 0
    for pi, p in enumerate(pieces):
        w = piece_width(p)
        if w is None:
            # dynamic piece: must be at the tail offset (an optional trailing NUL piece follows only for strings: C17)
            if off != tail["off"]:
                bad.append("dynamic piece at offset %d, tail at %d" % (off, tail["off"]))
            src = p
            if src[0] == "rawslice":
                src = src[1][1] if src[1][0] == "asptr" else src[1]
            if src[0] == "call" and cn(src[1]).replace("Vec<u8>", "Vec") in ("alloc::vec::Vec::as_slice", "<alloc::vec::Vec as core::ops::deref::Deref>::deref",
                                                                       "<alloc::vec::Vec as core::convert::AsRef<[u8]>>::as_ref", "<alloc::vec::Vec as core::borrow::Borrow<[u8]>>::borrow"):
                src = ("vec",)
            # provenance of the variable part: the bytes of one parameter (the parameter slice itself, or the raw byte view
            # `from_raw_parts(p.as_ptr(), size_of_val(p))` of that same parameter), or - for the framebuffer's colour information - the
            # vector `serialize()` answers for the buffer_type parameter (whose contents are the serialize:* premises).  Anything else
            # (a conditional choice between buffers, a scratch buffer filled elsewhere, a sub-slice) is not read as "the argument's bytes"
            def _arg_of(t):
                t = G.strip(t)
                for _ in range(3):
                    if t[0] in ("ref", "deref"):
                        t = G.strip(t[1])
                return t[1] if t[0] == "arg" else None
            srcarg = None
            if src == ("vec",):
                inner_ = G.strip(p[1][1] if p[0] == "rawslice" and p[1][0] == "asptr" else p)
                v_ = inner_[2][0] if inner_[0] == "call" and inner_[2] else None
                if v_ is not None and G.strip(v_)[0] == "ref":
                    v_ = G.strip(v_)[1]
                v_ = G.strip(v_) if v_ is not None else None
                if not (a["name"] == "FramebufferTag" and v_ is not None and v_[0] == "call" and cn(v_[1]).endswith("FramebufferType::serialize")
                        and len(v_[2]) == 1 and _arg_of(v_[2][0]) is not None and param_name(inst, _arg_of(v_[2][0])) == "buffer_type"):
                    bad.append("variable part <- %s (not the parameter's bytes) [%s]" % (G.show(p)[:80], v_))
            elif src[0] == "arg":
                srcarg = src[1]
                if p[0] == "rawslice":
                    ln = G.strip(p[2])
                    if not (ln[0] == "sizeofval" and _arg_of(ln[1]) == srcarg):
                        bad.append("variable part: byte view of parameter %s with length %s" % (param_name(inst, srcarg), G.show(p[2])[:60]))
            else:
                bad.append("variable part <- %s (not the parameter's bytes)" % G.show(p)[:80])
            if srcarg is not None:
                pn = param_name(inst, srcarg)
                if alias.get(pn, pn) != tail["field"] and not (a["name"] in ("BootLoaderNameTag", "CommandLineTag", "ModuleTag")):
                    bad.append("tail <- parameter %s" % pn)
            rest = pieces[pi + 1:]
            nul_ = ("unsize", ("ref", ("aggr", ("array",), (("c", 0),))), "&[u8]", "&[u8; 1]")

            def term_piece(r):
                # the optional terminator: a NUL byte, nothing, or a choice between the two (which one: C17.S1)
                if r == nul_ or (r[0] == "unsize" and r[3] == "&[u8; 0]"):
                    return True
                return r[0] == "ite" and term_piece(r[2]) and term_piece(r[3])
            from .. import select as SEL_
            rest = [SEL_.canon_place(r) for r in rest]
            if rest and not all(term_piece(r) for r in rest):
                bad.append("pieces after the dynamic one: %s" % [G.show(r)[:40] for r in rest])
            off = None
            break
        inner = p[1][1] if p[1][0] == "ref" else p[1]
        # piece covers one or more consecutive fields exactly
        covered = 0
        parts = []
        if inner[0] == "to_bytes":
            parts = [(w, inner)]
        elif inner[0] == "aggr" and inner[1][0] in ("array", "repeat"):
            elems = inner[2] if inner[1][0] == "array" else inner[2] * (inner[1][1] or 1)
            parts = [(1, e) for e in elems] if len(elems) == w else [(w, inner)]
        else:
            parts = [(w, inner)]
        # group parts onto fields
        pos = off
        pidx = 0
        while pidx < len(parts):
            if fi >= len(flds):
                bad.append("piece %d beyond the last field" % pi)
                break
            f = flds[fi]
            if f["off"] != pos or f.get("size") is None:
                bad.append("piece %d starts at %d, next field `%s` at %s" % (pi, pos, f["name"], f["off"]))
                break
            need = f["size"]
            got = 0
            group = []
            while pidx < len(parts) and got < need:
                got += parts[pidx][0]
                group.append(parts[pidx][1])
                pidx += 1
            if got != need:
                bad.append("field `%s` (%d bytes) receives %d bytes" % (f["name"], need, got))
                break
            # a field spelled out byte by byte from one conversion (`let [a, b, c, d] = x.to_ne_bytes(); [a, b, c, d, ..]`): all of its
            # bytes, in order, is the conversion itself
            if len(group) == need and need > 1 and group[0][0] == "cidx" and group[0][1][0] == "to_bytes" and {"u8": 1, "u16": 2, "u32": 4, "u64": 8, "i32": 4, "i64": 8, "usize": 8}.get(group[0][1][3]) == need and \
                    all(g_[0] == "cidx" and g_[1] == group[0][1] and g_[2] == i_ and not g_[3] for i_, g_ in enumerate(group)):
                group = [group[0][1]]
            # provenance
            if f["name"].startswith("_"):
                if not all(g_ == ("c", 0) or (g_[0] == "aggr" and all(x_ == ("c", 0) for x_ in g_[2])) for g_ in group):
                    bad.append("reserved field `%s` is not zero" % f["name"])
            else:
                g0 = group[0]
                if g0[0] == "to_bytes":
                    if g0[1] != "to_ne_bytes" and g0[1] != "to_le_bytes":
                        bad.append("field `%s` is not written in native/little endian" % f["name"])
                    src = g0[2]
                    if src[0] == "arg":
                        pn = param_name(inst, src[1])
                        if alias.get(pn, pn) != f["name"]:
                            bad.append("field `%s` <- parameter `%s`" % (f["name"], pn))
                    elif src[0] == "c":
                        # constants: only the two fields of the legacy memory map the constructor has no parameter for (their values are
                        # checked below); a constant in a field that a parameter is named after drops that argument
                        if not (a["name"] == "MemoryMapTag" and f["name"] in ("entry_size", "entry_version")):
                            bad.append("field `%s` <- constant %s (no parameter reaches it)" % (f["name"], G.show(src)[:30]))
                    else:
                        bad.append("field `%s` <- %s" % (f["name"], G.show(src)[:40]))
                elif g0[0] == "arg":
                    pn = param_name(inst, g0[1])
                    if alias.get(pn, pn) != f["name"]:
                        bad.append("field `%s` <- parameter `%s`" % (f["name"], pn))
                elif f["name"] == "framebuffer_type" and (g0[0] in ("cast", "discr")) and any(
                        x[0] == "call" and x[1] == "multiboot2::framebuffer::FramebufferType::<'_>::id" for x in G_sub(g0)):
                    pass   # `buffer_type.id() as u8`: discriminant of the id; id() table checked in serialize(), byte values in C20
                else:
                    bad.append("field `%s` <- %s" % (f["name"], G.show(g0)[:40]))
            pos += need
            fi += 1
        off = pos
    if off is not None and off != tail["off"] and not bad:
        bad.append("static pieces end at %d, tail at %d and no dynamic piece" % (off, tail["off"]))
    ctx.check(not bad, "PIECES", lab + ":pieces", "%s: the slices cover the fields after the header one by one at their specified offsets, with the variable part starting at offset %d" % (lab, tail["off"]),
              inst.get("span", ""), how="%d pieces" % len(pieces), why="; ".join(bad))
    # fixed constants of the legacy memory map
    if a["name"] == "MemoryMapTag":
        consts = [p[1][1][2] for p in pieces[:2] if p[0] == "unsize" and p[1][1][0] == "to_bytes"]
        ctx.check(consts == [("c", S.MMAP_ENTRY["size"]), ("c", 0)], "PIECES", lab + ":entry-size", "MemoryMapTag::new writes entry_size = 24 and entry_version = 0", inst.get("span", ""),
                  how=str(consts), why=str(consts))


def readback(ctx, F, crate, a, ctors):
    acc_tab = (S.MBI_ACCESSORS if crate == "multiboot2" else S.HEADER_ACCESSORS).get(a["name"], {})
    if not acc_tab:
        return
    # field <- parameter name (from any non-forwarding constructor)
    fmap = {}
    alias = PARAM_ALIAS.get(a["name"], {})
    for inst in ctors:
        for pi in range(1, inst["body"]["argc"] + 1):
            pn = param_name(inst, pi)
            if pn:
                fmap[alias.get(pn, pn)] = pn
    ra = READBACK_ALIAS.get(a["name"], {})
    bad = []
    for acc in acc_tab:
        i = F.find(impl_self_path=a["path"], name=acc, impl_trait=None)
        if len(i) != 1:
            continue
        from .. import readset as RS
        r = RS.accessor_reads(F, i[0])
        if r is None:
            continue
        f = [x for x in a["fields"] if x["off"] == r[0] and x["size"] == r[1]]
        if not f:
            continue
        pn = fmap.get(f[0]["name"])
        if pn is None:
            continue
        if ra.get(acc, acc) != pn:
            bad.append("%s() reads field `%s`, which the constructor fills from parameter `%s`" % (acc, f[0]["name"], pn))
    ctx.check(not bad, "RB", a["name"], "%s: each accessor reads the field that the constructor fills from the like-named parameter (read-back returns the arguments)" % a["name"],
              a.get("span", ""), how="%d accessors" % len(acc_tab), why="; ".join(bad))


def serialize(ctx, F):
    ins = F.find(impl_self_name="FramebufferType", name="serialize")
    idf = F.find(impl_self_name="FramebufferType", name="id")
    if len(ins) != 1 or len(idf) != 1:
        ctx.fail("ANCHOR", "FramebufferType::serialize", "serialize() and id() exist", "", "%d/%d" % (len(ins), len(idf)))
        return
    from .. import classify as CL
    adt = F.adts.get("multiboot2::framebuffer::FramebufferType<'_>")
    try:
        it, pieces, tb = CL.classify(F, idf[0], domain=((0, 2),))
        got = {}
        for (iv, val, bb) in pieces:
            v = CL.variant_of(G.strip(val))
            for (lo, hi) in iv:
                for x in range(lo, hi + 1):
                    got[adt["variants"][x]["name"]] = v[2] if v else None
        ctx.check(got == {"Indexed": "Indexed", "RGB": "RGB", "Text": "Text"}, "PIECES", "FramebufferType::id", "id() maps each colour-info variant to the like-named type id (whose byte values are C20's)",
                  idf[0].get("span", ""), how=str(got), why=str(got))
    except CL.Unrecognised as e:
        ctx.fail("PIECES", "FramebufferType::id", "id() is a match on the variant", idf[0].get("span", ""), "UNRECOGNISED %s" % e)
    # serialize() as a sequence description (SEQ): whichever way the bytes are assembled - one vector extended in the match
    # arms, or one expression per arm (`chain` / `flat_map` / `to_vec` / `collect`) - it is evaluated to
    #     Indexed: all(count bytes); for e in palette { e.red; e.green; e.blue }    RGB: six fields    Text: nothing
    from .. import seq as SQ
    A = an.of(F, ins[0])
    b = A.body
    E = SQ.Env(F, ins[0])
    me = deref(arg(1))
    per_ret = []
    form_err = None
    for rb in b.return_blocks:
        try:
            segs, how_ = SQ.seq_of_operand(E, A, {"m": {"l": 0, "p": []}}, rb)
        except SQ.Unrec as e:
            form_err = str(e)
            break
        conds = tuple(f for f in (N(x) for x in A.g.facts_at(rb)) if f[0] == "cmp" and f[2] == ("discr", me))
        per_ret.append((conds, segs))
    ctx.check(form_err is None, "PIECES", "serialize:form", "serialize() evaluates to a sequence description (SEQ) of the bytes it returns", ins[0].get("span", ""),
              how="%d return(s)" % len(per_ret), why="UNRECOGNISED: %s" % form_err)

    def holds(c, k_):
        if c[0] == "cmp" and c[2] == ("discr", me) and c[3][0] == "c":
            if c[1] == "Eq":
                return c[3][1] == k_
            if c[1] == "Ne":
                return c[3][1] != k_
        return None

    def special(segs, k_):
        out = []
        for sg in segs:
            if sg[0] == "opt":
                vs = [holds(c, k_) for c in sg[1]]
                if any(v is False for v in vs):
                    continue
                if all(v is True for v in vs):
                    out += special(list(sg[2]), k_)
                    continue
            out.append(sg)
        return out

    def for_variant(name):
        k_ = next((i_ for i_, v_ in enumerate(adt["variants"]) if v_["name"] == name), None)
        out = []
        for conds, segs in per_ret:
            if any(holds(c, k_) is False for c in conds):
                continue
            out += special(segs, k_)
        return out

    def field_path(o):
        x = o
        path = []
        while isinstance(x, tuple) and x and x[0] in ("fld", "deref", "dc"):
            if x[0] == "fld":
                path.append(x[2])
            x = x[1]
        return tuple(reversed(path)), x
    ok_rgb = ok_idx = ok_txt = False
    why_rgb = why_idx = why_txt = "not evaluated"
    if form_err is None:
        rgb = for_variant("RGB")
        why_rgb = SQ.show(rgb)[:300]
        if len(rgb) == 6 and all(sg[0] == "one" for sg in rgb):
            shape = [field_path(sg[1]) for sg in rgb]
            # variant payload field k (0 red, 1 green, 2 blue) then FramebufferField {position: 0, size: 1}
            ok_rgb = [s_[0][-2:] for s_ in shape] == [(0, 0), (0, 1), (1, 0), (1, 1), (2, 0), (2, 1)] and all(s_[1] == arg(1) for s_ in shape)
        idx = for_variant("Indexed")
        why_idx = SQ.show(idx)[:300]
        if len(idx) == 2 and idx[0][0] == "all" and idx[1][0] == "each":
            tb_ = idx[0][1]
            cnt = tb_[2] if tb_[0] == "to_bytes" and tb_[1] in ("to_ne_bytes", "to_le_bytes") and tb_[3] == "u16" else None
            src = SQ.unref(SQ.strip_view(SQ.unref(idx[1][1])))
            body = idx[1][2]
            order = [sg[1][2] if sg[0] == "one" and sg[1][0] == "fld" and SQ.unref(sg[1][1]) in (SQ.ELEM, ("deref", SQ.ELEM)) else None for sg in body]
            same_palette = False
            if cnt is not None and cnt[0] == "cast" and cnt[3] == "u16" and cnt[2][0] == "len":
                lensrc = SQ.unref(SQ.strip_view(SQ.unref(cnt[2][1])))
                same_palette = lensrc in (src, ("deref", src)) or ("deref", lensrc) == src
            ok_idx = bool(same_palette) and order == [0, 1, 2] and field_path(src)[1] == arg(1)
        txt = for_variant("Text")
        why_txt = SQ.show(txt)[:200]
        ok_txt = txt == []
    ctx.check(ok_rgb, "PIECES", "serialize:rgb", "RGB colour info serialises as red position, red mask size, green position, green mask size, blue position, blue mask size",
              ins[0].get("span", ""), how="six elements in field order: " + why_rgb[:160], why=why_rgb)
    ctx.check(ok_txt, "PIECES", "serialize:text", "text mode has no colour info bytes", ins[0].get("span", ""), how="empty sequence", why=why_txt)
    ctx.check(ok_idx, "PIECES", "serialize:indexed", "indexed colour info serialises as the u16 colour count followed, per colour in order, by red, green, blue",
              ins[0].get("span", ""), how=why_idx[:200], why=why_idx)
