"""NICHE: fields with restricted bit-validity inside a type that is viewed over untrusted memory."""


def restricted_leaves(F, ty, prefix="", depth=0, out=None):
    """[(owner adt path, field name, field type, reason)] for every enum/bool/char/reference-typed leaf reachable
    through struct fields, arrays and tuples of `ty`"""
    out = out if out is not None else []
    if depth > 8:
        return out
    info = F.ty(ty) or {}
    k = info.get("kind")
    if k == "adt":
        a = F.adts.get(ty)
        if a is None:
            return out
        if a.get("kind") == "struct":
            for f in a.get("fields", []):
                sub = f["ty"]
                si = F.ty(sub) or {}
                r = leaf_reason(F, sub)
                if r:
                    out.append((a["path"], f["name"], sub, r))
                else:
                    restricted_leaves(F, sub, prefix, depth + 1, out)
        return out
    if k == "array" or k == "slice":
        restricted_leaves(F, info.get("elem"), prefix, depth + 1, out)
    elif k == "tuple":
        for sub in info.get("fields", []):
            r = leaf_reason(F, sub)
            if r:
                out.append((ty, "tuple", sub, r))
            else:
                restricted_leaves(F, sub, prefix, depth + 1, out)
    return out


def leaf_reason(F, ty):
    info = F.ty(ty) or {}
    k = info.get("kind")
    if k == "bool":
        return "bool: only 0/1 are valid"
    if k == "char":
        return "char: surrogates / > 0x10FFFF invalid"
    if k in ("ref", "fnptr"):
        return "reference: null / unaligned invalid"
    if k == "adt":
        a = F.adts.get(ty)
        if a and a.get("kind") == "enum":
            vs = a.get("variants", [])
            return "enum with %d valid discriminants (%s)" % (len(vs), ",".join(str(v["discr"]) for v in vs[:12]))
    return None
