"""Which properties are claimed, at which level; everything else is listed not_applicable with a reason."""

TB = "rustc's front end (types, layouts, const eval, MIR at mir-opt-level 0) for x86_64 little-endian; mb2facts + mb2rules; std contracts listed in DESIGN.md App. C; hand-written oracle tables in mb2rules/spec.py"

CLAIMED = {
    "C20": {
        "category": "proof",
        "text": "Exact interval tables of every conversion/classification function over the full 2^32 (2^8) domain, composed and compared piecewise with the specification tables; return terms of wrapper conversions and of all cross-type PartialEq impls; exported constants. Complete for the statement because the functions touch their input only through comparisons with constants.",
        "design_ref": "DESIGN.md §4 C20, §3.7",
        "note": TB,
        "technique": "abstract interpretation with exact interval partition over MIR (CLASSIFY) + value terms + layout/const tables",
    },
}

PENDING = "check not yet built in this session (machinery under construction; see DESIGN.md §9 build order) - not claimed until its premises run, pass on the repaired tree and fire on seeded breaks"
NOT_APPLICABLE = {("C%02d" % i): PENDING for i in range(1, 21)}

FIX_COMMITS = []
