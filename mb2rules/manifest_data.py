"""Which properties are claimed, at which level; everything else is listed not_applicable with a reason."""

TB = ("rustc's front end (types, layouts, const eval, MIR at mir-opt-level 0, incl. the MIR of the small std combinators that are spliced into their "
      "callers) for x86_64 little-endian; mb2facts + mb2rules incl. the normal-form passes of DESIGN.md §17 (INLINE/THREAD/gated phi: behaviour-preserving "
      "rewrites of the analysed MIR); std contracts listed in DESIGN.md App. C; hand-written oracle tables in mb2rules/spec.py")

CLAIMED = {
    "C20": {
        "category": "proof",
        "text": "Exact interval tables of every conversion/classification function over the full 2^32 (2^8) domain, composed and compared piecewise with the specification tables; return terms of wrapper conversions and of all cross-type PartialEq impls; exported constants. Complete for the statement because the functions touch their input only through comparisons with constants.",
        "design_ref": "DESIGN.md §4 C20, §3.7",
        "note": TB,
        "technique": "abstract interpretation with exact interval partition over MIR (CLASSIFY) + value terms + layout/const tables",
    },
}

CLAIMED["C05"] = {
    "category": "other",
    "text": "For all ten dynamically sized kinds of both crates and every header instantiation of the generic structure: BASE_SIZE = compiler's tail offset = specified fixed part; dst_len's return term is (size - BASE_SIZE)/elem; the lower-bound and divisibility facts are established on every normal return by guards whose failing edge diverges (or, for the header-sized base, by the header's own assertion / the wrap-rejecting constructor guard); the rejection is exact (L3x: every panic edge of dst_len lies under `size < BASE_SIZE` or a remainder, so an empty variable part is answered, not rejected); the accessor exposes exactly the tail field, the legacy memory map only under `entry_size == size_of::<MemoryArea>()` (L6). Holds for all 2^32 declared sizes at once because it is a statement about terms, not samples.",
    "design_ref": "DESIGN.md §4 C05",
    "note": TB + "; Rust DST semantics (a reference with metadata n covers tail offset + n elements)",
    "technique": "layout tables from rustc + value terms and dominating-edge guard facts over MIR (TERMS/GUARD), linear entailment",
}
CLAIMED["C14"] = {
    "category": "other",
    "text": "Early-exit chains (guards in dominance order with their error constructors) of BytesRef::try_from, ref_from_bytes and ref_from_slice for every header type; the linear fact `header size + metadata <= slice length` at the single fat-pointer creation site, with the metadata being the compared term and the address the slice's; who-may-construct BytesRef; rounding kernel in remainder normal form (least multiple of 8 >= x); layouts. Complete for the statement under the listed std contracts.",
    "design_ref": "DESIGN.md §4 C14",
    "note": TB,
    "technique": "early-exit chain extraction (dominators) + guard-fact entailment at the unsafe site + who-may-construct census + remainder normal form",
}

CLAIMED["C02"] = {
    "category": "other",
    "text": "Totality: every panic edge and profile-dependent arithmetic operation in the 16 instances reachable from BootInformation::load is enumerated and discharged by a fact. Acceptance/precedence: the early-exit chain of load (null, memory errors of C14's chain over the slice formed from the raw declared size, missing end tag, success) in dominance order with exact error constructors. End-tag predicate: both conjuncts and the normalised address base + total_size - 8. Accessor return terms. Decides the statement for every header content, not for samples.",
    "design_ref": "DESIGN.md §4 C02",
    "note": TB + "; relies on C14 (chain of ref_from_slice) and C20 (numeric equality of type ids); WrongAlignment/InvalidReportedTotalSize unreachable under the hypothesis is a hand step",
    "technique": "panic-edge census over the instance call graph with guard-fact discharge + early-exit chain extraction + pointer normal form",
}

CLAIMED["C10"] = {
    "category": "other",
    "text": "Totality of Multiboot2Header::load and calc_checksum (panic-edge census, every site discharged); early-exit chain of load with the exact guards in dominance order (null; C14's memory chain over the slice of the raw declared length; magic != 0xE85250D6; checksum predicate); ring normal form mod 2^32 shows calc_checksum = -(m + a + l), the load predicate compares exactly that with the stored checksum in a 32-bit comparison (a wider comparison is not its residue), and set_size stores length and recomputed checksum - for all 2^32 x 2 x 2^32 arguments.",
    "design_ref": "DESIGN.md §4 C10, §3.14",
    "note": TB + "; architecture word assumed to hold a defined value (hypothesis of the property); relies on C14",
    "technique": "panic-edge census + early-exit chain extraction + ring normal form in Z/2^32 over MIR terms",
}

CLAIMED["C13"] = {
    "category": "other",
    "text": "Structural part of the statement, decided exactly: the scanned window is buffer[..min(len, 8192)], the scan predicate is from_le_bytes(window) == MAGIC, the exits in dominance order (misaligned buffer, no match, i % 8 != 0, length field unavailable, claimed range outside the buffer, success) with their guards and the exact returned slice/index terms, and a panic-edge census of find_header and its closure with every site discharged. Not decided: that position() returns the *first* match (std contract).",
    "design_ref": "DESIGN.md §4 C13",
    "note": TB + "; first-occurrence exactness rests on the std contracts of slice::windows and Iterator::position",
    "technique": "panic-edge census + early-exit chain extraction + value-term matching of the returned slices",
}

CLAIMED["C15"] = {
    "category": "other",
    "text": "Decided on the polymorphic MIR of DynSizedStructure<H>::cast<T> - hence for every header and every user-defined sized or dynamically sized T - and re-decided on all 31 instantiations: the BASE_SIZE >= header guard dominates the unsafe reference creation; address = self, metadata = T::dst_len(self.header()); the size_of_val equality is a fact at the return (must-pass-through, failing edge diverges); the compared reference is the one returned and is only measured before the comparison; get_tag reaches typed references only through cast; the structure cast starts from is created with the header's own payload length as metadata (imported premise C14.B4). With the DST layout rule this gives size_of_val(result) = round8(tag size) or a panic.",
    "design_ref": "DESIGN.md §4 C15",
    "note": TB + "; the user type truthfully declares BASE_SIZE/dst_len (hypothesis); type-level restrictions (K6) are compile-fail witnesses in the thorough tier",
    "technique": "guard-dominance and must-pass-through facts on polymorphic + monomorphic MIR, value-term identity of compared and returned reference",
}

CLAIMED["C16"] = {
    "category": "other",
    "text": "Structural premises on the polymorphic MIR of new_boxed<T> and clone_dyn (valid for every T): size patching (header + sum of slice lengths) before the header copy; allocation layout term (round8(total), 8); diverging null check; header copy to offset 0; loop-carried write offset with initial value size_of Header and exactly one `+= len` paired with each copy whose source is that slice's (ptr, len) in argument order; fat Box with metadata dst_len(&header); size assertion as a fact at the return; align_of T == 8 for all 12 instantiations; clone_dyn passes exactly payload_len() bytes.",
    "design_ref": "DESIGN.md §4 C16",
    "note": TB + "; allocator behaviour and Box's drop (Layout::for_value) are std contracts; exactly-once free is Rust ownership",
    "technique": "value terms + loop-carried-variable pairing (init/update/use in one natural loop) + must-pass-through facts on polymorphic MIR",
}

CLAIMED["C18"] = {
    "category": "other",
    "text": "The premise list of the strided-iterator lemma, each decided on MIR: the exhaustion guard dominates the pointer formation (fact i < entries); pointer = memory_map.as_ptr() + i * desc_size read as one EFIMemoryDesc; constructor: entries = len / desc_size with facts len % desc_size == 0, desc_size >= 40, desc_size % 8 == 0, base aligned, version == 1 (failing edges diverge) - and conversely every panic edge of memory_areas() / the constructor lies under the negation of one of these five conditions (S3x: the rejection is exact, a stricter test is reported); the iterator is constructed only there, fields private, next() writes only i (+1, on the Some path); len() = entries - i; descriptor layout equals UEFI's. The in-bounds/alignment/count conclusion follows by the written hand proof for all sizes and lengths.",
    "design_ref": "DESIGN.md §4 C18",
    "note": TB + "; the arithmetic step i < L/d and d | L => i*d + d <= L is a hand proof over the decided premises",
    "technique": "guard-dominance facts + value terms of pointer/stride/count + who-may-construct / who-writes census + layout table",
}

CLAIMED["C19"] = {
    "category": "other",
    "text": "Premises of the cursor lemma decided on MIR: sections() establishes n * entry_size <= len(sections) (64-bit product of the zero-extended fields) and shndx == 0 || shndx < n, with diverging failing edges; next() has a single loop with exactly one cursor advance by entry_size and one counter decrement per iteration, hands out the loop-head cursor, yields iff section_type() != Unused and stops iff the counter is 0; get()/string_table() classify entry_size exactly {40 -> ELF32 struct, 64 -> ELF64 struct, else panic} with matching pointee types; both header structs equal the gABI layouts and every decoding method reads its specified field; the SHT table.",
    "design_ref": "DESIGN.md §4 C19",
    "note": TB + "; sections() rejects exactly (E1x); the named ElfSectionFlags constants equal the ELF gABI sh_flags bits (E6); name()/string_table() follow an address stored in the tag (documented external memory) and are outside the bounds claim; cursor = base + (n - remaining) * es is a hand proof over the decided premises",
    "technique": "guard facts incl. disjunctive merge facts + loop-carried variable pairing + exact interval classifier + layout/read-set tables",
}

CLAIMED["C03"] = {
    "category": "other",
    "text": "The iterator's transition function decided on MIR: tags() starts a TagIter at offset 0 over exactly the loaded structure's payload field (region byte 8 onwards); next() reads the header at buffer.as_ptr() + offset, stores round8(offset + size_of Header + payload_len) = round8(offset + size) (linear/remainder normal form), yields ref_from_slice(&buffer[offset..new offset]).unwrap() with bounds-checked slicing; end test first, assert offset < len dominating the raw read; write-set per exit (None path writes nothing), derived Clone, who-may-construct; ModuleIter = find(type == Module numerically) then cast::<ModuleTag>, over a fresh tags(). By induction this is the specification's walk for every tag sequence; panics are the listed controlled ones.",
    "design_ref": "DESIGN.md §4 C03",
    "note": TB + "; next() has no explicit rejection beyond offset >= len (T4x); relies on C14 (item address/extent), C15 (cast), C20 (numeric type equality); std Iterator::find/Option::map contracts",
    "technique": "value terms of iterator state transitions + remainder normal form + guard dominance + write-set per exit",
}

CLAIMED["C08"] = {
    "category": "other",
    "text": "Absence of the known sources of profile/feature divergence on the parse path (all instances reachable from the public API of the no-default-features build): every overflow-checked, unchecked or dividing arithmetic site is enumerated and either discharged by a rule (constants, guarded subtraction, type ranges, bounded counters, proven struct invariants) or carries a listed reason; every type viewed over boot-loader memory is checked for invalid bit patterns field by field; every function body is structurally identical with/without the builder feature and with debug assertions on (alloc-only: thorough tier), and from the same public roots both feature configurations reach the same parse-path instances resolved to the same code (a cfg-gated override of a trait's provided method is a difference although every common body is identical); no unchecked intrinsics. Nine genuine divergence sources remain as known findings. Equality of outcomes as such is not computed.",
    "design_ref": "DESIGN.md §4 C08, §3.4, §3.11, §3.12",
    "note": TB + "; exception-table reasons are hand-confirmed; LLVM-level behaviour out of reach",
    "technique": "arithmetic-site census over the instance call graph with guard/range/invariant discharge + niche (bit-validity) census + cross-configuration structural body hashes",
}

CLAIMED["C01"] = {
    "category": "other",
    "text": "Every unsafe operation on the parse path of `multiboot2` (845 instances reachable from the public API of the minimal build through std adapters, vtables and closures; 51 sites) is enumerated; each must match a row of the written site table and the row's bounding premises are re-decided in the same run - imported premises of C14 (ref_from_bytes), C15 (cast), C03 (TagIter), C05 (DST extents), C18 (EFI iterator), C19 (ELF iterator), C20 (transmute) or local fact/layout checks (end-tag read, palette slice, RSDP slices, header prefix). An unsafe site without a row is a violation. Plus: bit-validity of all 29 viewed types (one known finding), Freeze / no mutable statics / &self-only API, acyclic call graph and loop table, zero-census (asm, FFI, abort, *_unchecked) with positive control. What is decided is the premise list of the written memory-safety argument, not the argument itself.",
    "design_ref": "DESIGN.md §4 C01, App. A",
    "note": TB + "; std bodies are traversed for reachability but their contracts are trusted; ElfSection::name/string_table follow a stored address (the statement's exception); LLVM-level behaviour and adequacy of the hand proofs are not decided",
    "technique": "unsafe-site census over the instance call graph + per-site guard/extent obligations + imported premise sets + niche/Freeze/termination/zero censuses",
}

CLAIMED["C09"] = {
    "category": "other",
    "text": "Same scheme as C01 on the parse path of `multiboot2-header` (282 instances, 19 unsafe sites, all in instantiated multiboot2-common code or the `unsafe fn load`): every site matched to the site table with premises re-decided (imports C14, C15, C05), the TagIter transition premises for the header-tag iterator (H = HeaderTagHeader, payload from byte 16), who-calls TagIter::new, NICHE with the five enumerated fields as the statement's stated assumptions (any other restricted field is a violation), acyclic call graph / loop table, zero-census.",
    "design_ref": "DESIGN.md §4 C09",
    "note": TB + "; enumerated fields assumed to hold defined values (hypothesis of the property; see C08 known findings); adequacy of the hand proofs not decided",
    "technique": "unsafe-site census over the instance call graph + imported premise sets + iterator transition terms + niche census with an assumption table",
}

CLAIMED["C04"] = {
    "category": "other",
    "text": "Selection: all 18 direct typed getters are get_tag::<T>() with T::ID the variant of the kind's specified number; the polymorphic get_tag is tags().find(numeric type equality).map(cast::<T>) (first match by Iterator::find over C03's walk) and each of the 20 instantiated predicates compares with its kind; the EFI-map withholding and the framebuffer error propagation wrappers term by term. Decoding: compiler layouts of all 22 tag structs, MemoryArea, FramebufferColor, VBEControlInfo/VBEModeInfo/VBEField against hand-written specification tables; the return term of every public accessor resolved to (offset, width) and compared with an accessor table; compound accessors (RSDP checksum range and fold, RSDP strings, module size, area end, little-endian Reader, RGB read order, palette) matched structurally; plain accessors have no panic edge and no narrowing cast; cast() rejects exactly (G8: BASE_SIZE constant, T::dst_len, size mismatch - a conformant tag of the requested type is returned); the named VBE flag constants and memory-model numbers against VBE 3.0 (G9). Public methods added to the reference API are decided where self-evident (named after the field they return, the variable part itself, get_tag::<T>() unchanged) and otherwise listed as not decided.",
    "design_ref": "DESIGN.md §4 C04, §17 batch 12, §18",
    "note": TB + "; imports C03, C15, C20 and C02's load premises (well-formed inputs load); the two repr(Rust) tuples inside VBEModeInfo (resolution, character_size) are toolchain-dependent and not claimed; iterator decoders are C18/C19, strings C17",
    "technique": "layout tables + accessor read-sets (return term -> offset/width) + getter/ID tables + structural term matching of compound decoders",
}

CLAIMED["C11"] = {
    "category": "other",
    "text": "Compiler layouts of Multiboot2BasicHeader, HeaderTagHeader and all 11 header-tag structs and the discriminants of the four wire enums against hand-written multiboot2.h tables; the return term of every public accessor (55) resolved to (offset, width) and compared with the accessor table; the 10 typed getters are get_tag::<T>() with T::ID the variant of the kind's number; the polymorphic get_tag = iter().find(type equality).map(cast::<T>); iter() walks exactly the payload from byte 16; the tag walk's transition premises for HeaderTagHeader (step = round8(offset + size)).",
    "design_ref": "DESIGN.md §4 C11",
    "note": TB + "; imports C15; first-match selection is Iterator::find",
    "technique": "layout tables + accessor read-sets + getter/ID tables + iterator transition terms",
}

CLAIMED["C07"] = {
    "category": "other",
    "text": "Constructor images of all 35 public tag constructors of both crates: for sized kinds the struct-literal aggregate (header type = the kind's variant/number, size = the oracle's exact unpadded size, every field fed by the like-named parameter, reserved fields zero); for dynamically sized kinds the slice list handed to new_boxed laid against the compiler's layout (piece k covers field k's bytes from offset 8, variable part at the tail offset, to_ne_bytes of the right parameter, literal zeros for reserved); alignment 8 of all 33 tag types; discriminants of six wire enums; FramebufferType::id/serialize per variant; read-back naming between constructor parameters and accessors (with C04/C11 read-sets). One open finding (console flag encodings). Little-endian only.",
    "design_ref": "DESIGN.md §4 C07",
    "note": TB + "; the variable part of a dynamically sized constructor must be the bytes of one parameter (or serialize(buffer_type) for the framebuffer), a constant in a parameter-backed field is a dropped argument; imports C16 (new_boxed sets size / concatenates); big-endian targets not decided",
    "technique": "constructor-image extraction from MIR aggregates and slice lists laid against layout tables, parameter provenance by term identity, enum discriminant tables",
}

CLAIMED["C17"] = {
    "category": "other",
    "text": "Build side: each of the three string constructors is exactly two guarded new_boxed calls - [fixed pieces, s.bytes] when s.bytes.ends_with(&[0]), [fixed pieces, s.bytes, &[0]] otherwise - so with C16 the size is fixed + len (+1) and exactly one NUL is stored for NUL-free strings. Parse side: each accessor is parse_slice_as_string over exactly the tail field (whose extent is [fixed, size) by C05); the decoder is CStr::from_bytes_until_nul(..).map_err(MissingNul)? then to_str().map_err(Utf8) and nothing else; the accessors' closures have no panic edge. That the std functions stop at the first NUL inside the slice and validate UTF-8 is their contract.",
    "design_ref": "DESIGN.md §4 C17",
    "note": TB + "; imports C05, C16; std CStr contracts trusted",
    "technique": "guarded-call chain extraction + slice-list terms + callee identity + panic census",
}

CLAIMED["C06"] = {
    "category": "other",
    "text": "Slot coverage of multiboot2::Builder::build() decided on MIR for all 22 slots at once (i.e. for all 2^22 subsets): exactly one push per slot, of the tag's as_bytes() view, whose only guard is the slot's own Some-test (Option) or a forward loop over the vector with one push per element (Vec); the end tag pushed once, on every path, with no push after it; result = new_boxed(fresh header, pushed slices). Setters: each writes exactly one slot (Some(v): last call wins; push(v): call order) with the slot's tag type, setter -> slot is a bijection; add_custom_tag pushes iff the type classifies as Custom, else panics. Imports C16 (layout/size), C07 (EndTag image), C02 (loads), C03 (walk).",
    "design_ref": "DESIGN.md §4 C06, §3.10",
    "note": TB + "; Vec::push order and slice iteration order are std contracts; the concatenation/loading argument is a hand step over the imported premises",
    "technique": "push-site census with provenance and control-dependence (own guard) analysis + setter write-sets and bijection + imported premises",
}
CLAIMED["C12"] = {
    "category": "other",
    "text": "Slot coverage of multiboot2_header::Builder::build() for all 10 slots (all 2^10 subsets at once): one guarded push per slot, the end tag (type 0, flags 0, size 8 by C07) pushed once, last, on every path; the fresh basic header is Multiboot2BasicHeader::new(self.arch, 0) whose image is {magic 0xE85250D6, arch, length, checksum = -(magic+arch+length)} (ring normal form); setter write-sets and bijection; Builder::new stores the architecture. Imports C16 (layout; set_size patches length and checksum, C10.K), C07 (tag images, alignment 8), C10 (the result loads).",
    "design_ref": "DESIGN.md §4 C12",
    "note": TB + "; the concatenation/loading argument is a hand step over the imported premises",
    "technique": "push-site census with provenance and control-dependence analysis + constructor image + ring normal form + imported premises",
}

PENDING = "check not yet built in this session (machinery under construction; see DESIGN.md §9 build order) - not claimed until its premises run, pass on the repaired tree and fire on seeded breaks"
NOT_APPLICABLE = {("C%02d" % i): PENDING for i in range(1, 21)}

FIX_COMMITS = ['76199b7', 'bdc8bf5', '01a738e', '1143c08', 'a72d5fc', '80177a1', '5a62a4f', 'c58031f', 'b95f9f7', 'b8bc0d1', '145526c', 'a922908', '3791ee6', '809e924', 'e648960', '28106a7', 'aaf3813']
