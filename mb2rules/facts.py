"""Fact extraction driver + loader.

Runs the mb2facts rustc driver over /repo's *current working tree* (content-hash
cache, so twenty checks in a row extract once) and loads the per-crate JSON fact
files into one merged view.
"""
import fcntl
import hashlib
import json
import os
import re
import subprocess
import sys
import time

VERIF = os.path.dirname(os.path.dirname(os.path.abspath(__file__)))
REPO = os.environ.get("MB2_REPO", "/repo")
DRIVER = os.path.join(VERIF, "driver", "target", "release", "mb2facts")
CACHE = os.environ.get("MB2_CACHE_DIR") or os.path.join(VERIF, ".cache")
CRATES = ["multiboot2_common", "multiboot2", "multiboot2_header"]

CFG_FLAGS = {
    "A": ("-Cdebug-assertions=off", []),
    "B": ("-Cdebug-assertions=off", ["--no-default-features"]),
    "C": ("-Cdebug-assertions=off", ["--no-default-features", "--features",
                                     "multiboot2/alloc,multiboot2-header/alloc,multiboot2-common/alloc"]),
    "D": ("-Cdebug-assertions=on -Zub-checks=no", []),
}
BASE_FLAGS = "-Zmir-opt-level=0 -Zalways-encode-mir -Awarnings -Coverflow-checks=on"


REFERENCE_CONSTS = ("multiboot2_common::ALIGNMENT", "multiboot2_header::header::MAGIC", "multiboot2::MAGIC")


def _moved_free_fns(fns_by_crate):
    """{path in this tree: path in the inventory} for free functions (no impl, no trait, not closures) whose inventory path is gone
    while exactly one function of the same crate and the same name exists elsewhere and is not in the inventory"""
    try:
        with open(os.path.join(VERIF, "mb2rules", "inventory.json")) as fh:
            inv = set(json.load(fh)["functions"])
    except Exception:
        return {}
    out = {}
    for c, fns in fns_by_crate.items():
        free = {}
        for k, v in fns.items():
            if v.get("impl_self_path") or v.get("impl_trait") or v.get("closure") or "{closure" in k or v.get("def_kind") not in (None, "Fn"):
                continue
            free[v.get("path") or k] = v
        inv_free = {x.split("|||", 1)[1] for x in inv if x.startswith(c + "|||")}
        # (the inventory's "no impl" entries include provided trait methods: only what no function of this tree is called counts as gone)
        anyfn = {v.get("path") or k for k, v in fns.items()}
        missing = [p for p in inv_free if p not in free and p not in anyfn and "::" in p]
        extra = [p for p in free if p not in inv_free]
        for m in missing:
            name = m.rsplit("::", 1)[1]
            cands = [e for e in extra if e.rsplit("::", 1)[1] == name and e.split("::", 1)[0] == m.split("::", 1)[0]]
            if len(cands) == 1 and cands[0] not in out:
                out[cands[0]] = m
    return out


def _moved_adts(crates_json):
    """{path in this tree: path in the inventory} for types (structs / enums with at least one impl on the reference tree) whose
    inventory path is gone while exactly one type of the same crate and the same name exists at a path the inventory does not know"""
    try:
        with open(os.path.join(VERIF, "mb2rules", "inventory.json")) as fh:
            inv = json.load(fh)["functions"]
    except Exception:
        return {}
    ref = {}
    for x in inv:
        parts = x.split("|")
        if len(parts) >= 4 and parts[1] and "<" not in parts[1] and " " not in parts[1] and "::" in parts[1] and parts[1].split("::", 1)[0] == parts[0]:
            ref.setdefault(parts[0], set()).add(parts[1])
    out = {}
    for c, j in crates_json.items():
        here = {}
        for k, a in j["adts"].items():
            if k.startswith("generic ") or a.get("crate") != c or not a.get("path") or "<" in a["path"]:
                continue
            here[a["path"]] = a
        refs = ref.get(c, set())
        missing = [p_ for p_ in refs if p_ not in here]
        extra = [p_ for p_ in here if p_ not in refs]
        for m in missing:
            name = m.rsplit("::", 1)[1]
            cands = [e for e in extra if e.rsplit("::", 1)[1] == name]
            # the name must identify the type on both sides: one candidate here, one type of that name on the reference tree
            if len(cands) == 1 and sum(1 for r_ in refs if r_.rsplit("::", 1)[1] == name) == 1 and cands[0] not in out:
                out[cands[0]] = m
    return out


class InfraError(Exception):
    pass


def ensure_driver():
    if os.path.exists(DRIVER):
        src_m = max(os.path.getmtime(os.path.join(VERIF, "driver", "src", f))
                    for f in os.listdir(os.path.join(VERIF, "driver", "src")))
        if os.path.getmtime(DRIVER) >= src_m:
            return
    env = dict(os.environ, CARGO_NET_OFFLINE="true")
    r = subprocess.run(["cargo", "+nightly", "build", "--release", "--offline"],
                       cwd=os.path.join(VERIF, "driver"), env=env,
                       stdout=subprocess.PIPE, stderr=subprocess.STDOUT, text=True)
    if r.returncode != 0 or not os.path.exists(DRIVER):
        raise InfraError("cannot build mb2facts driver:\n" + r.stdout[-3000:])


def tree_hash():
    h = hashlib.sha256()
    files = []
    for root, dirs, fs in os.walk(REPO):
        dirs[:] = sorted(d for d in dirs if d not in ("target", ".git", "integration-test", "nix"))
        for f in sorted(fs):
            p = os.path.join(root, f)
            if f.endswith((".rs", ".toml", ".lock")):
                files.append(p)
    for p in files:
        h.update(os.path.relpath(p, REPO).encode())
        h.update(b"\0")
        with open(p, "rb") as fh:
            h.update(fh.read())
        h.update(b"\0")
    with open(DRIVER, "rb") as fh:
        h.update(hashlib.sha256(fh.read()).digest())
    h.update(BASE_FLAGS.encode())
    return h.hexdigest()[:24]


def _sysroot():
    return subprocess.run(["rustc", "+nightly", "--print", "sysroot"], stdout=subprocess.PIPE,
                          text=True, check=True).stdout.strip()


def extract(cfg, out_dir):
    flags, feat = CFG_FLAGS[cfg]
    import tempfile
    import shutil
    tgt = tempfile.mkdtemp(prefix="mb2x.")
    try:
        env = dict(os.environ)
        env.update({
            "CARGO_NET_OFFLINE": "true",
            "LD_LIBRARY_PATH": _sysroot() + "/lib",
            "MB2FACTS_OUT": out_dir,
            "RUSTFLAGS": BASE_FLAGS + " " + flags,
            "RUSTC_WORKSPACE_WRAPPER": DRIVER,
            "CARGO_TARGET_DIR": tgt,
        })
        env.pop("RUSTC_WRAPPER", None)
        os.makedirs(out_dir, exist_ok=True)
        r = subprocess.run(["cargo", "+nightly", "check", "--offline", "--workspace", "--lib"] + feat,
                           cwd=REPO, env=env, stdout=subprocess.PIPE, stderr=subprocess.STDOUT, text=True)
        with open(os.path.join(out_dir, "cargo.log"), "w") as fh:
            fh.write(r.stdout)
        if r.returncode != 0:
            raise InfraError("cargo check failed for cfg %s:\n%s" % (cfg, r.stdout[-4000:]))
        for c in CRATES:
            if not os.path.exists(os.path.join(out_dir, c + ".json")):
                raise InfraError("fact file for %s missing (cfg %s)" % (c, cfg))
    finally:
        shutil.rmtree(tgt, ignore_errors=True)


def facts_dir(cfg):
    """Return the directory holding fact files for the current tree and cfg,
    extracting if needed."""
    ensure_driver()
    h = tree_hash()
    d = os.path.join(CACHE, h, cfg)
    done = os.path.join(d, "DONE")
    if os.path.exists(done):
        try:
            os.utime(os.path.join(CACHE, h), None)      # mark the entry as in use (pruning goes by age since last use)
        except OSError:
            pass
        return d, h, True
    os.makedirs(os.path.join(CACHE, h), exist_ok=True)
    lock = open(os.path.join(CACHE, h, cfg + ".lock"), "w")
    fcntl.flock(lock, fcntl.LOCK_EX)
    try:
        if os.path.exists(done):
            return d, h, True
        t0 = time.time()
        tmp = d + ".tmp.%d" % os.getpid()
        extract(cfg, tmp)
        if os.path.exists(d):
            import shutil
            shutil.rmtree(d)
        os.rename(tmp, d)
        with open(done, "w") as fh:
            fh.write("%.1f\n" % (time.time() - t0))
        _prune_cache(keep=h)
        return d, h, False
    finally:
        fcntl.flock(lock, fcntl.LOCK_UN)
        lock.close()


def _prune_cache(keep, max_entries=int(os.environ.get("MB2_CACHE_MAX", "12")), min_age_s=3 * 3600):
    """drop the least recently used cache entries; never one that was used in the last three hours (it may belong to a
    concurrent run)"""
    try:
        now = time.time()
        ents = [(os.path.getmtime(os.path.join(CACHE, e)), e) for e in os.listdir(CACHE)
                if os.path.isdir(os.path.join(CACHE, e)) and e != keep]
        ents.sort()
        import shutil
        while len(ents) > max_entries:
            m, e = ents.pop(0)
            if now - m < min_age_s:
                break
            shutil.rmtree(os.path.join(CACHE, e), ignore_errors=True)
    except OSError:
        pass


class Facts:
    """Merged view over the three crates' fact files of one configuration."""

    def __init__(self, cfg="A"):
        self.cfg = cfg
        d, h, cached = facts_dir(cfg)
        self.dir, self.tree_hash, self.cached = d, h, cached
        self.crates = {}
        texts = {}
        for c in CRATES:
            with open(os.path.join(d, c + ".json")) as fh:
                texts[c] = fh.read()
        # a free function of the reference tree that was moved to another module of its crate (and, if public, re-exported) is
        # still that function: its new path is rewritten to the path the rules and the inventory know it by
        parsed = {c: json.loads(texts[c]) for c in CRATES}
        # likewise a type moved to another module of its crate: every path through it (the type, its methods, its impls)
        moved_t = _moved_adts(parsed)
        if moved_t:
            for c in CRATES:
                for new_p, old_p in sorted(moved_t.items(), key=lambda kv: -len(kv[0])):
                    texts[c] = re.sub(re.escape(new_p) + r"(?![A-Za-z0-9_])", lambda m_: old_p, texts[c])
            parsed = {c: json.loads(texts[c]) for c in CRATES}
        moved = _moved_free_fns({c: parsed[c]["fns"] for c in CRATES})
        for c in CRATES:
            t = texts[c]
            for new_p, old_p in moved.items():
                t = t.replace(new_p, old_p)
            self.crates[c] = json.loads(t) if moved else parsed[c]
        moved = dict(moved, **moved_t)
        self.moved = moved
        self.rustc = self.crates["multiboot2"]["rustc"]
        self.target = self.crates["multiboot2"]["target"]
        self.features = {c: self.crates[c]["features"] for c in CRATES}
        self.insts, self.fns, self.adts, self.tys, self.graph = {}, {}, {}, {}, {}
        self.consts, self.impls, self.statics, self.roots = {}, [], [], {}
        self.inst_seen_in = {}
        for c in CRATES:
            j = self.crates[c]
            for k, v in j["insts"].items():
                self.insts.setdefault(k, v)
                self.inst_seen_in.setdefault(k, []).append(c)
            for k, v in j["fns"].items():
                self.fns[k] = v
            for k, v in j["adts"].items():
                self.adts.setdefault(k, v)
            for k, v in j["tys"].items():
                if v is not None:
                    self.tys.setdefault(k, v)
            for n in j["graph"]:
                cur = self.graph.get(n["key"])
                if cur is None or (cur.get("nomir") and not n.get("nomir")):
                    self.graph[n["key"]] = n
            for k, v in j["consts"].items():
                self.consts[k] = v
            for im in j["impls"]:
                im = dict(im, crate=c)
                self.impls.append(im)
            self.statics += j["statics"]
            self.roots[c] = j["roots"]
        # constants the rules name by path: a constant moved to another module of its crate is found by its name when unique
        for ref in REFERENCE_CONSTS:
            if ref not in self.consts:
                crate_, name_ = ref.split("::", 1)[0], ref.rsplit("::", 1)[1]
                cands = [k for k in self.consts if k.split("::", 1)[0] == crate_ and k.rsplit("::", 1)[1] == name_ and "{" not in k and "<" not in k]
                if len(cands) == 1:
                    self.consts[ref] = self.consts[cands[0]]
        self.helper_insts = {}
        self.std_insts = {}
        for c in CRATES:
            for k, v in (self.crates[c].get("std_insts") or {}).items():
                self.std_insts.setdefault(k, v)
        self.inline_report = {}
        if os.environ.get("MB2_NO_INLINE") != "1":
            from . import inline
            self.inline_report = inline.apply_to_facts(self)

    # -- lookups -----------------------------------------------------------
    def adt_by_name(self, crate, name):
        """Unique non-generic ADT of `crate` whose item name is `name`."""
        hits = [a for k, a in self.adts.items()
                if a.get("name") == name and a.get("crate") == crate and not k.startswith("generic ")]
        # instantiations of the same generic ADT share a name; keep only exact path dupes
        paths = {a["path"] for a in hits}
        if len(paths) != 1:
            return None if not hits else (hits if len(paths) > 1 else hits[0])
        return hits[0] if len(hits) == 1 else hits

    def find(self, table=None, **kw):
        """instances (or poly fns with table='fns') whose metadata matches all given keys;
        a value may be a string (equality) or a callable predicate"""
        tab = self.insts if table is None else getattr(self, table)
        out = []
        for k, v in tab.items():
            ok = True
            for a, want in kw.items():
                have = v.get(a)
                if callable(want):
                    if not want(have):
                        ok = False
                        break
                elif have != want:
                    ok = False
                    break
            if ok:
                out.append(v)
        return out

    def find1(self, **kw):
        r = self.find(**kw)
        return r[0] if len(r) == 1 else None

    def ty(self, s):
        return self.tys.get(s)

    def size_of(self, s):
        t = self.tys.get(s)
        return None if t is None else t.get("size")

    def align_of(self, s):
        t = self.tys.get(s)
        return None if t is None else t.get("align")


_CACHE = {}


def load(cfg="A"):
    if cfg not in _CACHE:
        _CACHE[cfg] = Facts(cfg)
    return _CACHE[cfg]
