"""GUARD: facts that hold at a program point, linear normal forms and the small entailment.

No solver, no path enumeration: facts come from dominating CFG edges (and from the
normal-return facts of inlined callees); entailment is a bounded search for
`need - (sum of at most 3 facts) >= 0` by type ranges, plus a congruence step.
"""
from itertools import combinations
from . import terms as T
from . import mir as M

NEG = {"Eq": "Ne", "Ne": "Eq", "Lt": "Ge", "Ge": "Lt", "Le": "Gt", "Gt": "Le"}
SWAP = {"Eq": "Eq", "Ne": "Ne", "Lt": "Gt", "Gt": "Lt", "Le": "Ge", "Ge": "Le"}
CMPS = set(NEG)


def cmp_(op, a, b):
    return ("cmp", op, a, b)


def negate(f):
    if f[0] == "cmp":
        return ("cmp", NEG[f[1]], f[2], f[3])
    if f[0] == "not":
        return f[1]
    return ("not", f)


def cond_fact(t, truth):
    """fact expressing that boolean term t has value `truth`"""
    if t[0] == "bin" and t[1] in CMPS:
        f = ("cmp", t[1], t[2], t[3])
        return f if truth else negate(f)
    if t[0] == "un" and t[1] == "Not":
        return cond_fact(t[2], not truth)
    if t[0] == "zext" and t[2] == "bool":
        return cond_fact(t[1], truth)
    if t[0] == "c":
        return ("const", bool(t[1]) == truth)
    if t[0] == "ovf":
        # overflow flag of a checked operation
        f = ("overflow", t[1], t[2], t[3], t[4])
        return f if truth else ("not", f)
    f = ("istrue", t)
    return f if truth else ("not", f)


def _ordering_facts(dt, v):
    """`match a.cmp(&b)`: the discriminant of core::cmp::Ordering is -1 (Less; 255 as the switch reads it), 0 (Equal), 1 (Greater)"""
    if dt[0] == "discr" and dt[1][0] == "call" and len(dt[1][2]) == 2 and str(dt[1][1]).endswith("::cmp") and "core::cmp::Ord for " in str(dt[1][1]):
        a, b_ = dt[1][2]
        a = a[1] if a[0] == "ref" else ("deref", a)
        b_ = b_[1] if b_[0] == "ref" else ("deref", b_)
        op = {0: "Eq", 1: "Gt", 255: "Lt", -1: "Lt"}.get(v)
        if op:
            return [("cmp", op, a, b_)]
    return []


def cond_facts(t, truth):
    """facts implied by boolean term t having value `truth`: a gated choice `if c { a } else { false }` that is true gives c
    and a (what `&&`, `is_some_and`, `map_or(false, ..)` leave after INLINE); `if c { true } else { b }` that is false gives
    not c and not b"""
    if isinstance(t, tuple) and t and t[0] == "ite":
        c, a, b_ = t[1], t[2], t[3]
        cf = [c] if c and c[0] in ("cmp", "istrue", "not") else [cond_fact(c, True)]
        if truth and b_ in (("c", 0), ("c", False)):
            out = list(cf) + cond_facts(a, True)
            for f in cf:
                if f[0] == "cmp" and f[1] == "Eq" and f[3] == ("c", 1) and f[2][0] == "discr" and f[2][1][0] == "checked" and f[2][1][1] == "Sub":
                    out.append(("cmp", "Ge", f[2][1][2][0], f[2][1][2][1]))
            return out + [cond_fact(t, True)]
        if not truth and a in (("c", 1), ("c", True)):
            return [negate(f) for f in cf] + cond_facts(b_, False) + [cond_fact(t, False)]
        if truth and a in (("c", 1), ("c", True)) and len(cf) == 1:
            # `c || b` joined into one boolean: a disjunctive fact, as the two-edge form of `||` gives at its merge block
            return [("or", (tuple(cf), tuple(x for x in cond_facts(b_, True) if x[0] != "istrue" or len(cond_facts(b_, True)) == 1))), cond_fact(t, True)]
    return [cond_fact(t, truth)]


class Guards:
    def __init__(self, tb):
        self.tb = tb
        self.body = tb.body
        self._edge_memo = {}
        self._facts_memo = {}

    def edge_condition(self, d, s, label):
        """the one fact that is exactly the condition of the switch edge d -> s (edge_facts adds what follows from it)"""
        b = self.body
        t = b.term(d)
        if t["k"] != "switch":
            return None
        dt = self.tb.operand(t["d"], (d, len(b.stmts(d))))
        dty = t.get("dty")
        if label[0] == "sw":
            return cond_fact(dt, bool(label[1])) if dty == "bool" else ("cmp", "Eq", dt, T.C(label[1]))
        vals = tuple(label[1])
        if dty == "bool":
            return cond_fact(dt, True) if vals == (0,) else cond_fact(dt, False) if vals == (1,) else None
        return ("cmp", "Ne", dt, T.C(vals[0])) if len(vals) == 1 else None

    def add_fact_hook(self, hook):
        """hook(discriminant term, is_some) -> facts: a contract a rule has itself established for an Option-valued call of
        this function (e.g. that a find_map closure answers the index of the item it accepts)"""
        self._hooks = getattr(self, "_hooks", []) + [hook]
        self._edge_memo = {}
        self._facts_memo = {}

    def edge_facts(self, d, s, label):
        """facts true when control goes d -> s via label"""
        b = self.body
        t = b.term(d)
        at = (d, len(b.stmts(d)))
        k = t["k"]
        out = []
        if k == "switch":
            dt = self.tb.operand(t["d"], at)
            dty = t.get("dty")
            if label[0] == "sw":
                v = label[1]
                if dty == "bool":
                    out += cond_facts(dt, bool(v))
                else:
                    out.append(("cmp", "Eq", dt, T.C(v)))
                    if dt[0] == "discr" and dt[1][0] == "checked" and dt[1][1] == "Sub" and v in (0, 1):
                        # x.checked_sub(y) is Some  <=>  x >= y
                        out.append(("cmp", "Ge" if v == 1 else "Lt", dt[1][2][0], dt[1][2][1]))
                    out += self._discr_facts(dt, v == 1 if v in (0, 1) else None)
                    out += _ordering_facts(dt, v)
            else:
                vals = label[1]
                if dty == "bool":
                    # otherwise of a bool switch on [0] means true
                    if tuple(vals) == (0,):
                        out += cond_facts(dt, True)
                    elif tuple(vals) == (1,):
                        out += cond_facts(dt, False)
                else:
                    for v in vals:
                        out.append(("cmp", "Ne", dt, T.C(v)))
                    if dt[0] == "discr" and dt[1][0] == "checked" and dt[1][1] == "Sub" and tuple(vals) in ((0,), (1,)):
                        out.append(("cmp", "Ge" if tuple(vals) == (0,) else "Lt", dt[1][2][0], dt[1][2][1]))
                    if tuple(vals) in ((0,), (1,)):
                        out += self._discr_facts(dt, tuple(vals) == (0,))
        elif k == "assert":
            ct = self.tb.operand(t["cond"], at)
            out += cond_facts(ct, bool(t["expected"]))
        elif k == "call":
            out += self.tb.post_call_facts(d)
            out += std_post_call_facts(self.tb, t, d)
        return [f for f in out if f is not None]

    def _discr_facts(self, dt, is_some):
        """std contracts attached to the Some / None answer of an Option-valued call"""
        if is_some is None or dt[0] != "discr":
            return []
        x = dt[1]
        out = []
        for hook in getattr(self, "_hooks", []):
            out += hook(dt, is_some) or []
        if x[0] == "checked" and x[1] in ("Rem", "Div"):
            # a.checked_rem(b) / checked_div(b) on unsigned integers is Some  <=>  b != 0
            out.append(("cmp", "Ne" if is_some else "Eq", x[2][1], T.C(0)))
        if x[0] == "checked" and x[1] == "Add" and x[3] in U_MAX:
            # a.checked_add(b) is Some  <=>  a + b <= MAX
            out.append(("cmp", "Le" if is_some else "Gt", ("bin", "Add", x[2][0], x[2][1], None), T.C(U_MAX[x[3]])))
        if is_some and x[0] == "call" and len(x[2]) == 2:
            key = str(x[1])
            it = x[2][0][1] if x[2][0][0] == "ref" else x[2][0]
            enum = False
            if ("Iterator>::find_map" in key or cn(x[1]).endswith("Iterator::find_map")) and it[0] == "call" and len(it[2]) == 1 and \
                    ("Iterator>::enumerate" in str(it[1]) or cn(it[1]).endswith("Iterator::enumerate")):
                it = it[2][0]
                enum = True
            if enum or "Iterator>::position" in key or cn(x[1]).endswith("Iterator::position"):
                if enum and not self._answers_enumerate_index(x[2][1]):
                    return out
                if it[0] == "call" and cn(it[1]) == "core::slice::windows" and len(it[2]) == 2:
                    # windows(k) yields len - k + 1 items (len >= k), position() answers an index of one of them: i + k <= len
                    idx = self.tb.project(x, [("dc", 1, "Some"), ("f", 0, "0", "usize")])
                    out.append(("cmp", "Le", ("bin", "Add", idx, it[2][1], "usize"), ("len", it[2][0])))
        return out

    def _answers_enumerate_index(self, clo):
        """the closure handed to find_map over enumerate() answers, whenever it answers Some, the index component of its
        argument: find_map's payload is then the index of an item of the enumerated iterator"""
        try:
            from . import select as SEL, an, chain as CH
            cf = SEL.closure_fn(self.tb.F, N(clo), self.body.fn)
            if cf is None:
                return False
            C = an.of(self.tb.F, cf)
            exs = CH.exits(C)
            somes = [e for e in exs if e.kind == "Some"]
            others = [e for e in exs if e.kind not in ("Some", "None")]
            if not somes or others:
                rt, _ = C.ret()
                r = N(rt) if rt is not None else None
                # a single joined return: ite(c, Some(idx), None)
                if r is not None and r[0] == "ite":
                    leaves = [r[2], r[3]]
                    ok = True
                    for lf in leaves:
                        if lf[0] == "aggr" and lf[1][:3] == ("adt", "core::option::Option", "Some"):
                            ok = ok and lf[2][0] == ("fld", ("arg", 2), 0)
                        elif not (lf[0] == "aggr" and lf[1][:3] == ("adt", "core::option::Option", "None")):
                            ok = False
                    return ok
                return False
            return all(e.payload is not None and N(e.payload) == ("fld", ("arg", 2), 0) for e in somes)
        except Exception:
            return False

    def dominating_edges(self, B):
        """edges (d, s, label) such that every path entry->B takes the edge"""
        b = self.body
        out = []
        cur = B
        chain = []
        while True:
            chain.append(cur)
            if cur == 0:
                break
            cur = b.idom.get(cur, 0)
        chain_set = set(chain)
        for s in chain:
            preds = b.pred[s]
            # ignore back edges (preds dominated by s)
            fwd = [(p, lab) for (p, lab) in preds if not b.dominates(s, p)]
            if len(fwd) == 1:
                p, lab = fwd[0]
                out.append((p, s, lab))
            elif len(fwd) > 1 and len({p for p, _ in fwd}) == 1:
                # several switch values into the same block: disjunction (kept only for Ne-complements) - skip
                pass
        return out

    def facts_at(self, B):
        if B in self._facts_memo:
            return self._facts_memo[B]
        fs = []
        for (d, s, lab) in self.dominating_edges(B):
            fs += self.edge_facts(d, s, lab)
        fs += self.merge_facts(B)
        fs += type_invariants(self.tb)
        fs += self.counter_facts(B)
        # flatten conjunctions produced by `&&` lowered to nested switches is automatic
        out = []
        for f in fs:
            if f not in out:
                out.append(f)
        self._facts_memo[B] = out
        return out

    def counter_facts(self, B):
        """loop invariants of counting loops: a local L with `L = c0` before the loop and one `L = L + c1` (c1 > 0) per iteration,
        executed only under a guard `L + k <= E` (E loop-invariant, with a numeric upper bound U), satisfies at every point of
        the loop  L <= max(c0, U - k + c1):  it is c0 on the first arrival at the head, and afterwards the previous value
        passed the guard before c1 was added.  What the overflow check of `L + k` at the loop head needs."""
        b = self.body
        if getattr(self, "_in_counter", False):
            return []
        loops = {}
        for (t, h) in b.back_edges():
            loops.setdefault(h, set()).update(b.loop_blocks(h, t))
        mine = [h for h, blk in loops.items() if B in blk]
        if not mine:
            return []
        self._in_counter = True
        try:
            out = []
            cache = self.__dict__.setdefault("_counter_cache", {})
            for h in mine:
                if h not in cache:
                    cache[h] = self._counters_of(h, loops[h])
                for (L, bound, rel) in cache[h]:
                    term = self.tb.read(L, (), (B, 0))
                    if bound is not None:
                        out.append(("cmp", "Le", term, T.C(bound)))
                    for E_ in rel:
                        out.append(("cmp", "Le", term, E_))
            return out
        finally:
            self._in_counter = False

    def _counters_of(self, h, blocks):
        b, tb = self.body, self.tb
        latches = [t for (t, hh) in b.back_edges() if hh == h]
        res = []
        for L, defs in tb.defs.items():
            whole = [d for d in defs if not d[3]]
            if len(whole) != 2 or len(defs) != 2 or any(d[0] != "stmt" for d in whole):
                continue
            if L in tb.escaped or any(tl == L for tgts in tb.mutrefs.values() for (tl, _tp) in tgts):
                continue        # mutably borrowed: something else may change it
            ins = [d for d in whole if d[1] in blocks]
            outs = [d for d in whole if d[1] not in blocks]
            if len(ins) != 1 or len(outs) != 1 or not b.dominates(outs[0][1], h):
                continue
            st0 = b.stmts(outs[0][1])[outs[0][2]]
            v0 = N(tb.rvalue(st0["rv"], (outs[0][1], outs[0][2]), st0))
            if v0[0] != "c":
                continue
            ub = ins[0][1]
            st1 = b.stmts(ub)[ins[0][2]]
            v1 = N(tb.rvalue(st1["rv"], (ub, ins[0][2]), st1))
            if not (v1[0] == "bin" and v1[1] in ("Add", "AddUnchecked")):
                continue
            phi, c1 = (v1[2], v1[3]) if v1[3][0] == "c" else (v1[3], v1[2])
            if not (c1[0] == "c" and c1[1] > 0 and phi[0] == "opq" and len(phi) > 2 and phi[1] == "phi" and phi[2] == L):
                continue
            if not all(b.dominates(ub, t) for t in latches):
                continue
            best = None
            rel = []
            for (d, s_, lab) in self.dominating_edges(ub):
                if d not in blocks or b.term(d)["k"] != "switch":
                    continue
                c = self.edge_condition(d, s_, lab)
                if c is None:
                    continue
                # relational form: the guard is `L + k <= E` (however spelt: `E - L >= k` included) with E a single loop-invariant
                # quantity, c1 <= k and c0 <= E always: then L <= E at every point of the loop (c0 <= E on entry; afterwards
                # the previous value passed the guard - read over the integers, which is exact as long as L <= E held - before
                # c1 <= k was added).  This is what the subtraction `E - L` in the guard itself needs.
                if c[0] == "cmp" and c[1] in ("Le", "Lt", "Ge", "Gt"):
                    try:
                        rl = lin(c[2]).add(lin(c[3]), -1)
                        rop = c[1]
                        if rop in ("Ge", "Gt"):
                            rl, rop = rl.scale(-1), {"Ge": "Le", "Gt": "Lt"}[rop]
                        others = {a_: -c_ for a_, c_ in rl.m.items() if a_ != phi}
                        if rl.m.get(phi) == 1 and len(others) == 1:
                            (ea, ec), = others.items()
                            k_ = rl.c + (1 if rop == "Lt" else 0)
                            mv_ = min_value(Lin(0, {ea: 1}))
                            if ec == 1 and "opq" not in repr(ea) and c1[1] <= k_ and mv_ is not None and v0[1] <= mv_:
                                rel.append(ea)
                    except Exception:
                        pass
                conds = [N(c)]
                try:
                    from . import slices as SL
                    conds = SL.norm_facts([N(c)], None)
                except Exception:
                    pass
                for f in conds:
                    if f[0] != "cmp" or f[1] not in ("Le", "Lt", "Ge", "Gt"):
                        continue
                    try:
                        lf = lin(f[2]).add(lin(f[3]), -1)
                    except Exception:
                        continue
                    op = f[1]
                    if op in ("Ge", "Gt"):
                        lf, op = lf.scale(-1), {"Ge": "Le", "Gt": "Lt"}[op]
                    if lf.m.get(phi) != 1:
                        continue
                    # L + k + (rest) <= 0  with rest = -E
                    k = lf.c + (1 if op == "Lt" else 0)
                    E = Lin(0, {a_: -c_ for a_, c_ in lf.m.items() if a_ != phi})
                    if any("opq" in repr(a_) for a_ in E.m):
                        continue
                    neg = E.scale(-1)
                    mv = min_value(neg)        # -E >= mv  =>  E <= -mv
                    if mv is None:
                        continue
                    U = -mv
                    bound = max(v0[1], U - k + c1[1])
                    best = bound if best is None else min(best, bound)
            if best is not None or rel:
                res.append((L, best, rel))
        return res

    def merge_facts(self, B):
        """disjunctive facts at merge points on B's dominator chain: a block with 2..4 forward predecessors
        contributes ('or', (conj1, conj2, ..)) where conj_k are the facts gathered along predecessor k back to
        the merge block's immediate dominator (`a == 0 || a < n` style guards)"""
        b = self.body
        out = []
        cur = B
        chain = []
        while True:
            chain.append(cur)
            if cur == 0:
                break
            cur = b.idom.get(cur, 0)
        for s in chain:
            fwd = [(p, lab) for (p, lab) in b.pred[s] if not b.dominates(s, p)]
            if not (2 <= len(fwd) <= 4) or s == 0:
                continue
            top = b.idom.get(s, 0)
            conjs = []
            okay = True
            for (p, lab) in fwd:
                fs = list(self.edge_facts(p, s, lab))
                # facts along p's dominator chain down to (and including the out-edge of) `top`
                x = p
                guard = 0
                while x != top and guard < 64:
                    guard += 1
                    preds = [(q, l2) for (q, l2) in b.pred[x] if not b.dominates(x, q)]
                    if len(preds) != 1:
                        okay = False
                        break
                    q, l2 = preds[0]
                    fs += self.edge_facts(q, x, l2)
                    x = q
                if x != top:
                    okay = False
                if not okay:
                    break
                conjs.append(tuple(f for f in fs if f != ("const", True)))
            if okay and all(conjs):
                out.append(("or", tuple(conjs)))
        return out

    def facts_on_edge(self, d, s, lab):
        return self.facts_at(d) + self.edge_facts(d, s, lab)


def type_invariants(tb):
    """facts that hold for arguments by their type's invariant.
    I-BR (established by C14.B1/B2): a `BytesRef<H>` holds a slice with len >= size_of::<H>(), len % 8 == 0."""
    out = []
    F = tb.F
    body = tb.body
    for i in range(1, body.argc + 1):
        ty = body.local_ty(i)
        info = F.ty(ty) or {}
        if info.get("kind") == "adt" and info.get("adt", "").endswith("bytes_ref::BytesRef") and info.get("args"):
            hs = F.size_of(info["args"][0])
            sl = ("fld", ("arg", i, ty), 0, "bytes", "&[u8]")
            if hs is not None:
                out.append(("cmp", "Ge", ("len", sl), ("c", hs)))
            out.append(("cmp", "Eq", ("bin", "Rem", ("len", sl), ("c", 8), "usize"), ("c", 0)))
        # I-BI / I-MH: a BootInformation / Multiboot2Header only exists as the success result of `load` (who-constructs premise of
        # C02 / C10), whose memory exit precedes it: the slice of the *declared* size passed BytesRef::try_from (C02/C10 A2),
        # which rejects len < size_of::<Header>() first (C14.B1).  Hence declared size >= header size for every loaded structure.
        if info.get("kind") == "ref":
            tgt = info.get("pointee") or ""
            for (wrap, hdr_ty, fname, minimum) in (("multiboot2::boot_information::BootInformation<", "multiboot2::boot_information::BootInformationHeader", "total_size", 8),
                                                    ("multiboot2_header::header::Multiboot2Header<", "multiboot2_header::header::Multiboot2BasicHeader", "length", 16)):
                if tgt.startswith(wrap):
                    wa = F.adts.get(tgt) or next((a for k_, a in F.adts.items() if k_.startswith(wrap)), None)
                    ha = F.adts.get(hdr_ty)
                    ds = F.adts.get("multiboot2_common::DynSizedStructure<%s>" % hdr_ty)
                    if wa and ha and ds and wa.get("fields") and ds.get("fields"):
                        f0 = wa["fields"][0]
                        hf = [f for f in ds["fields"] if f["name"] == "header"]
                        sf = [f for f in ha["fields"] if f["name"] == fname]
                        if hf and sf:
                            inner = ("fld", ("deref", ("arg", i, ty)), f0["i"], f0["name"], f0["ty"])
                            hdr = ("fld", ("deref", inner), hf[0]["i"], "header", hf[0]["ty"])
                            size = ("fld", hdr, sf[0]["i"], fname, sf[0]["ty"])
                            out.append(("cmp", "Ge", ("zext", size, "u32", "usize"), ("c", minimum)))
        # counter invariants of private iterator structs (invariants.py): self.a <= self.b
        if info.get("kind") in ("ref", "ptr") and not _IN_INVARIANTS[0]:
            from . import invariants as INV
            _IN_INVARIANTS[0] = True
            try:
                ci = INV.counter_invariants(F)
            finally:
                _IN_INVARIANTS[0] = False
            path = INV.adt_path_of(F, ty)
            for (ia, na, ib, nb) in ci.get(path, []):
                a = ("fld", ("deref", ("arg", i, ty)), ia, na, "usize")
                b = ("fld", ("deref", ("arg", i, ty)), ib, nb, "usize")
                out.append(("cmp", "Le", a, b))
            _IN_INVARIANTS[0] = True
            try:
                si_ = INV.stride_invariants(F)
            finally:
                _IN_INVARIANTS[0] = False
            for (ir, nr, tyr, id_, nd) in si_.get(path, []):
                r_ = ("fld", ("deref", ("arg", i, ty)), ir, nr, tyr)
                d_ = ("fld", ("deref", ("arg", i, ty)), id_, nd, "usize")
                out.append(("cmp", "Eq", ("bin", "Rem", ("len", r_), d_, "usize"), ("c", 0)))
    return out


_IN_INVARIANTS = [False]


def std_post_call_facts(tb, t, bb):
    """facts that hold after certain std calls return normally"""
    fr = M.callee_of(t)
    if fr is None:
        return []
    path = (fr.get("res") or {}).get("path") or fr["path"]
    at = (bb, len(tb.body.stmts(bb)))
    out = []
    if path in ("core::option::Option::<T>::unwrap", "core::option::Option::<T>::expect"):
        a = tb.operand(t["args"][0], at)
        out.append(("is_some", a))
        x = a
        # x.get(i) [.cloned()/.copied()] is Some  =>  i < len(x)   (std contract of slice::get with a usize index)
        while (x[0] == "call" and (str(x[1]).endswith("::cloned") or str(x[1]).endswith("::copied")) and len(x[2]) == 1) or x[0] == "optderef":
            x = x[2][0] if x[0] == "call" else x[1]
        if x[0] == "call" and cn(x[1]) == "core::slice::get" and "::get::<usize>" in str(x[1]) and len(x[2]) == 2:
            out.append(("cmp", "Lt", x[2][1], ("len", x[2][0])))
        if x[0] == "call" and cn(x[1]) == "core::slice::get" and "::get::<core::ops::range::Range" in str(x[1]) and len(x[2]) == 2 and \
                x[2][1][0] == "aggr" and x[2][1][1][0] == "adt":
            # x.get(lo..) / x.get(lo..hi) / x.get(..hi) is Some  =>  the range lies inside x (std contract of slice::get with a range)
            rk_, ops_ = x[2][1][1][1].rsplit("::", 1)[1], x[2][1][2]
            if rk_ == "RangeFrom" and len(ops_) == 1:
                out.append(("cmp", "Le", ops_[0], ("len", x[2][0])))
            elif rk_ == "RangeTo" and len(ops_) == 1:
                out.append(("cmp", "Le", ops_[0], ("len", x[2][0])))
            elif rk_ == "Range" and len(ops_) == 2:
                out.append(("cmp", "Le", ops_[0], ops_[1]))
                out.append(("cmp", "Le", ops_[1], ("len", x[2][0])))
        if a[0] == "checked" and a[1] == "Sub":
            out.append(("cmp", "Ge", a[2][0], a[2][1]))
    if path in ("core::result::Result::<T, E>::unwrap", "core::result::Result::<T, E>::expect"):
        a = tb.operand(t["args"][0], at)
        out.append(("is_ok", a))
    return out


# ------------------------------------------------------------------------- linear forms
class Lin:
    __slots__ = ("c", "m")

    def __init__(self, c=0, m=None):
        self.c = c
        self.m = dict(m or {})

    def copy(self):
        return Lin(self.c, self.m)

    def add(self, o, k=1):
        r = self.copy()
        r.c += k * o.c
        for a, v in o.m.items():
            nv = r.m.get(a, 0) + k * v
            if nv == 0:
                r.m.pop(a, None)
            else:
                r.m[a] = nv
        return r

    def scale(self, k):
        return Lin(self.c * k, {a: v * k for a, v in self.m.items() if v * k != 0})

    def is_const(self):
        return not self.m

    def key(self):
        return (self.c, tuple(sorted(self.m.items(), key=lambda kv: repr(kv[0]))))

    def __repr__(self):
        parts = [str(self.c)] if self.c or not self.m else []
        for a, v in self.m.items():
            parts.append("%+d*%s" % (v, show(a)))
        return " ".join(parts)


def show(t, depth=0):
    """compact printable form of a term"""
    if not isinstance(t, tuple):
        return str(t)
    if depth > 6:
        return "…"
    if not t:
        return "()"
    if not isinstance(t[0], str):
        return "[" + ", ".join(show(x, depth + 1) for x in t) + "]"
    k = t[0]
    d = depth + 1
    if k == "c":
        return str(t[1])
    if k == "arg":
        return "arg%d" % t[1]
    if k == "fld":
        return "%s.%s" % (show(t[1], d), t[3] if len(t) > 3 and t[3] is not None else t[2])
    if k == "deref":
        return "*%s" % show(t[1], d)
    if k == "ref":
        return "&%s" % show(t[1], d)
    if k == "zext":
        return show(t[1], d)
    if k == "len":
        return "len(%s)" % show(t[1], d)
    if k == "bin":
        return "(%s %s %s)" % (show(t[2], d), t[1], show(t[3], d))
    if k == "cmp":
        return "%s %s %s" % (show(t[2], d), t[1], show(t[3], d))
    if k == "call":
        return "%s(%s)" % (str(t[1]).split("::")[-1] if isinstance(t[1], str) else show(t[1], d), ", ".join(show(a, d) for a in t[2]))
    if k == "ptrop":
        return "%s.%s(%s*%s)" % (show(t[2], d), t[1], show(t[3], d), show(t[4], d))
    if k == "asptr":
        return "%s.as_ptr()" % show(t[1], d)
    if k == "opq":
        if len(t) > 3 and t[1] == "phi":
            # position-free: name the merged place, not its definition sites
            pj = t[3]
            names = [str(e[2]) for e in pj if isinstance(e, tuple) and e and e[0] == "f"]
            return "phi(%s)" % (".".join(names) if names else "local")
        return "opq(%s)" % t[1]
    if k == "or":
        return " OR ".join("[" + " & ".join(show(f, d) for f in c) + "]" for c in t[1])
    if k == "dc":
        return "%s as v%d" % (show(t[1], d), t[2])
    return "%s(%s)" % (k, ", ".join(show(x, d) for x in t[1:]))


def lin(t):
    """linear normal form of an integer term (mathematical integers; see ARITH)"""
    k = t[0]
    if k == "c":
        return Lin(t[1])
    if k == "zext":
        inner = strip(t)
        if isinstance(inner, tuple) and inner and term_type(inner) is None and t[2] in U_MAX:
            # remember the source type of the zero-extension: it bounds an otherwise untyped atom (e.g. a call result)
            _ZEXT_HINT[inner] = t[2]
        return lin(t[1])
    if k == "bin":
        op = t[1]
        if op in ("Add", "AddUnchecked"):
            return lin(t[2]).add(lin(t[3]))
        if op in ("Sub", "SubUnchecked"):
            return lin(t[2]).add(lin(t[3]), -1)
        if op in ("Mul", "MulUnchecked"):
            a, b = lin(t[2]), lin(t[3])
            if a.is_const():
                return _undiv(b.scale(a.c))
            if b.is_const():
                return _undiv(a.scale(b.c))
            # canonical product atom
            x, y = sorted([t[2], t[3]], key=repr)
            return Lin(0, {("prod", strip(x), strip(y)): 1})
        if op == "BitAnd":
            # x & (2^k - 1) == x % 2^k ;  x & !(2^k-1) == x - x % 2^k  (for the 64-bit mask)
            for (x, m) in ((t[2], t[3]), (t[3], t[2])):
                if m[0] == "c":
                    mv = m[1]
                    if mv >= 0 and (mv + 1) & mv == 0:
                        return _rem_lin(x, mv + 1)
                    inv = (~mv) & ((1 << 64) - 1)
                    if (inv + 1) & inv == 0:
                        return lin(x).add(Lin(0, {("rem", canon(x), inv + 1): 1}), -1)
        if op == "Rem" and t[3][0] == "c" and t[3][1] > 0:
            return _rem_lin(t[2], t[3][1])
        if op == "Div" and t[3][0] == "c" and t[3][1] > 0:
            return Lin(0, {("div", canon(t[2]), t[3][1]): 1})
        if op == "Rem":
            return Lin(0, {("remv", strip(t[2]), strip(t[3])): 1})
        if op == "Div":
            return Lin(0, {("divv", strip(t[2]), strip(t[3])): 1})
    if k == "un" and t[1] == "Not" and t[2][0] == "c":
        return Lin((~t[2][1]) & ((1 << 64) - 1))
    if k == "len":
        # length of a sub-slice produced by indexing (the indexing returned, so the range was in bounds) / of an array view
        x = t[1]
        for _ in range(4):
            if isinstance(x, tuple) and x and x[0] in ("ref", "deref") and isinstance(x[1], tuple) and x[1] and x[1][0] in ("deref", "ref", "call", "sub", "unsize"):
                x = x[1]
            else:
                break
        if x[0] == "unsize" and len(x) > 3 and str(x[3]).startswith(("&[", "&mut [")) and ";" in str(x[3]):
            try:
                return Lin(int(str(x[3]).rsplit(";", 1)[1].strip(" ]")))
            except ValueError:
                pass
        if x[0] == "sub":
            return lin(x[3]).add(lin(x[2]), -1)
        if x[0] == "rawslice" and len(x) > 2:
            return lin(x[2])          # slice::from_raw_parts(p, n).len() == n
        if x[0] == "unwrap" and isinstance(x[1], tuple) and x[1] and x[1][0] == "call" and cn(x[1][1]) == "core::slice::get":
            # `s.get(range).unwrap()` / `.expect(..)`: the same payload, the None answer diverging
            x = ("fld", ("dc", x[1], 1), 0)
        if x[0] == "fld" and x[2] == 0 and x[1][0] == "dc" and x[1][2] == 1 and x[1][1][0] == "call" and cn(x[1][1][1]) == "core::slice::get" and \
                len(x[1][1][2]) == 2 and x[1][1][2][1][0] == "aggr" and x[1][1][2][1][1][0] == "adt":
            # the Some payload of s.get(range): std contract - the sub-slice of exactly that range
            rk, ops = x[1][1][2][1][1][1].rsplit("::", 1)[1], x[1][1][2][1][2]
            if rk == "RangeFrom":
                return lin(("len", x[1][1][2][0])).add(lin(ops[0]), -1)
            if rk == "RangeTo":
                return lin(ops[0])
            if rk == "Range":
                return lin(ops[1]).add(lin(ops[0]), -1)
        if x[0] == "call" and len(x[2]) == 2 and str(x[1]).startswith("core::slice::index::<impl core::ops::index::Index<core::ops::range::") and \
                x[2][1][0] == "aggr" and x[2][1][1][0] == "adt":
            rk, ops = x[2][1][1][1].rsplit("::", 1)[1], x[2][1][2]
            if rk == "RangeFrom":
                return lin(("len", x[2][0])).add(lin(ops[0]), -1)
            if rk == "RangeTo":
                return lin(ops[0])
            if rk == "Range":
                return lin(ops[1]).add(lin(ops[0]), -1)
            if rk == "RangeFull":
                return lin(("len", x[2][0]))
    if k == "call" and len(t[2]) == 1 and cn(t[1]) == "multiboot2_common::increase_to_alignment":
        # the repository's rounding function, when it is not a single expression that the term builder can look into:
        # its meaning (least multiple of 8 >= x) is premise B6 of C14 / T2 of C03, decided there for whatever body it has
        return lin(("numfn", "next_multiple_of", (t[2][0], ("c", 8)), "usize"))
    if k == "numfn" and t[1] == "next_multiple_of" and len(t[2]) == 2 and t[2][1][0] == "c" and t[2][1][1] > 0:
        # x.next_multiple_of(c) = (x + c-1) - (x + c-1) mod c   (mathematical integers; overflow is an ARITH matter)
        c = t[2][1][1]
        y = ("bin", "Add", t[2][0], ("c", c - 1), t[3] if len(t) > 3 else None)
        return lin(y).add(Lin(0, {("rem", canon(y), c): 1}), -1)
    return Lin(0, {strip(t): 1})


def _undiv(l):
    """d * (y div d) = y - (y mod d): a rounded-down multiple is written with the `rem` atom, so that `(x + 7) / 8 * 8`,
    `(x + 7) & !7` and `x + 7 - (x + 7) % 8` are one linear form"""
    out = l
    for a, v in list(l.m.items()):
        if isinstance(a, tuple) and a and a[0] == "div" and isinstance(a[2], int) and a[2] > 0 and v % a[2] == 0 and isinstance(a[1], tuple) and a[1][:1] == ("lin",):
            k = v // a[2]
            y = Lin(a[1][1], dict(a[1][2]))
            out = out.add(Lin(0, {a: v}), -1).add(y, k).add(Lin(0, {("rem", a[1], a[2]): 1}), -k)
    return out


def _rem_lin(x, m):
    """x mod m as a linear form over `rem` atoms.  The padding idiom (k*m - (y mod m)) mod m - the bytes missing from y to the next
    multiple of m - is rewritten to (m-1) - ((y + m-1) mod m), so that y + padding(y) and (y + m-1) - (y + m-1) mod m coincide"""
    lx = lin(x)
    if len(lx.m) == 1 and lx.c % m == 0:
        (a, v), = lx.m.items()
        if v == -1 and isinstance(a, tuple) and a[0] == "rem" and a[2] == m and isinstance(a[1], tuple) and a[1][:1] == ("lin",):
            y1 = Lin(a[1][1], dict(a[1][2])).add(Lin(m - 1))
            return Lin(m - 1).add(Lin(0, {("rem", ("lin",) + y1.key(), m): 1}), -1)
    return Lin(0, {("rem", ("lin",) + lx.key(), m): 1})


def canon(t):
    """canonical (hashable) key of the linear form of t, so that `rem`/`div` atoms of equal values coincide"""
    return ("lin",) + lin(t).key()


def strip(t):
    """atoms are compared modulo value-preserving zero extension"""
    while isinstance(t, tuple) and t and t[0] == "zext":
        t = t[1]
    return t


_ZEXT_HINT = {}
U_MAX = {"u8": 2**8 - 1, "u16": 2**16 - 1, "u32": 2**32 - 1, "u64": 2**64 - 1, "usize": 2**64 - 1, "bool": 1}


def term_type(t):
    k = t[0]
    if k == "fld":
        return t[4] if len(t) > 4 else None
    if k == "arg":
        return t[2] if len(t) > 2 else None
    if k == "zext":
        return t[3] if len(t) > 3 else None
    if k == "le32":
        return "u32"
    if k == "elem":
        return None
    if k == "bin":
        return t[4] if len(t) > 4 else None
    if k == "len":
        return "usize"
    if k == "sizeofval":
        return "usize"
    if k == "opq" and len(t) > 3 and t[1] == "phi" and isinstance(t[3], tuple) and t[3]:
        last = t[3][-1]
        if isinstance(last, tuple) and last and last[0] == "f" and len(last) > 3:
            return last[3]
    return None


def atom_range(a):
    """(lo, hi) of an atom by its type; None = unknown"""
    k = a[0]
    if k == "rem":
        return (0, a[2] - 1)
    if k == "remv":
        return (0, None)
    if k in ("div", "divv"):
        return (0, None)
    if k == "prod":
        ra, rb = atom_range(a[1]), atom_range(a[2])
        if ra and rb and ra[0] is not None and rb[0] is not None and ra[0] >= 0 and rb[0] >= 0:
            hi = None if (ra[1] is None or rb[1] is None) else ra[1] * rb[1]
            return (ra[0] * rb[0], hi)
        return None
    if k == "len":
        return (0, 2**63 - 1)
    if k in ("min", "max") and len(a) == 3:
        def ub(t_):
            try:
                lf = lin(t_)
            except Exception:
                return None
            v = lf.c
            for x, c in lf.m.items():
                r = atom_range(x) if x != a else None
                if r is None or c < 0 or r[1] is None:
                    return None
                v += c * r[1]
            return v
        ua, ub_ = ub(a[1]), ub(a[2])
        if k == "min":
            his = [u for u in (ua, ub_) if u is not None]
            return (0, min(his) if his else None)
        return (0, max(ua, ub_) if ua is not None and ub_ is not None else None)
    if k == "saturating" and a[1] == "Sub":
        hi = None
        try:
            la = lin(a[2][0])
            hi = la.c
            for x, c in la.m.items():
                r = atom_range(x)
                if r is None or c < 0 or r[1] is None:
                    hi = None
                    break
                hi += c * r[1]
        except Exception:
            hi = None
        return (0, hi)
    if k in ("sizeofval", "sizeof", "alignof"):
        return (0, 2**63 - 1)
    if k == "from_bytes" and len(a) > 3 and a[3] in U_MAX:
        return (0, U_MAX[a[3]])
    if k == "unwrap" and len(a) == 2 and isinstance(a[1], tuple) and a[1] and a[1][0] == "call" and "TryFrom<u32>" in str(a[1][1]) and "usize" in str(a[1][1]):
        return (0, U_MAX["u32"])          # usize::try_from(u32).unwrap(): the u32's value
    if k == "widen":
        return (0, U_MAX["u32"])
    if k == "align_offset":
        return (0, 2**64 - 1)
    ty = term_type(a)
    if ty is None:
        ty = _ZEXT_HINT.get(a)
    if ty in U_MAX:
        return (0, U_MAX[ty])
    if k == "discr":
        return (0, None)
    return None


def fact_lins(f):
    """list of Lin e such that fact implies e >= 0"""
    if f[0] != "cmp":
        return []
    op, a, b = f[1], f[2], f[3]
    try:
        la, lb = lin(a), lin(b)
    except Exception:
        return []
    d = la.add(lb, -1)  # a - b
    if op == "Ge":
        return [d]
    if op == "Gt":
        return [d.add(Lin(1), -1)]
    if op == "Le":
        return [d.scale(-1)]
    if op == "Lt":
        return [d.scale(-1).add(Lin(1), -1)]
    if op == "Eq":
        return [d, d.scale(-1)]
    if op == "Ne":
        # x != 0 for a non-negative x  =>  x - 1 >= 0
        if lb.is_const() and lb.c == 0 and len(la.m) == 1 and la.c == 0:
            (atom, coef), = la.m.items()
            r = atom_range(atom)
            if coef == 1 and r and r[0] is not None and r[0] >= 0:
                return [la.add(Lin(1), -1)]
        if la.is_const() and la.c == 0 and len(lb.m) == 1 and lb.c == 0:
            (atom, coef), = lb.m.items()
            r = atom_range(atom)
            if coef == 1 and r and r[0] is not None and r[0] >= 0:
                return [lb.add(Lin(1), -1)]
    return []


def min_value(e):
    """lower bound of Lin e by atom ranges, or None"""
    v = e.c
    for a, c in e.m.items():
        r = atom_range(a)
        if r is None:
            return None
        lo, hi = r
        if c > 0:
            if lo is None:
                return None
            v += c * lo
        else:
            if hi is None:
                return None
            v += c * hi
    return v


def congruences(facts):
    """dict: Lin-key -> modulus m with value ≡ 0 (mod m), from facts `x % m == 0`, `x & (m-1) == 0`"""
    out = {}
    for f in facts:
        if f[0] == "cmp" and f[1] == "Eq":
            for (x, z) in ((f[2], f[3]), (f[3], f[2])):
                if z[0] == "c" and z[1] == 0:
                    lx = lin(x)
                    if len(lx.m) == 1 and lx.c == 0:
                        (a, c), = lx.m.items()
                        if c == 1 and a[0] == "rem":
                            out[repr(a[1])] = max(out.get(repr(a[1]), 1), a[2])
    return out


def entails_lin(fact_es, need, max_k=3):
    """need (Lin) >= 0 from fact Lins (each >= 0)"""
    mv = min_value(need)
    if mv is not None and mv >= 0:
        return ("range", [])
    n = len(fact_es)
    for k in range(1, max_k + 1):
        for combo in combinations(range(n), k):
            r = need
            for i in combo:
                r = r.add(fact_es[i], -1)
            mv = min_value(r)
            if mv is not None and mv >= 0:
                return ("facts", list(combo))
    # scaled single fact (e.g. need 8*k <= len from k <= len/8 style) - try coefficients 2..64 on single facts
    for i in range(n):
        fe = fact_es[i]
        for a, c in fe.m.items():
            nc = need.m.get(a)
            if nc and c and nc % c == 0 and nc // c > 1:
                r = need.add(fe, -(nc // c))
                mv = min_value(r)
                if mv is not None and mv >= 0:
                    return ("scaled", [i])
    return None


def entails(facts, need):
    """facts: list of fact tuples; need: ('cmp', op, a, b).  Returns justification or None."""
    if need[0] == "const":
        return ("const", []) if need[1] else None
    if need in facts:
        return ("same", [facts.index(need)])
    # syntactic equality modulo swap
    if need[0] == "cmp":
        sw = ("cmp", SWAP[need[1]], need[3], need[2])
        if sw in facts:
            return ("same", [facts.index(sw)])
    if need[0] == "cmp" and need[1] == "Ne":
        for op in ("Lt", "Gt"):
            j = entails(facts, ("cmp", op, need[2], need[3]))
            if j is not None:
                return j
        return None
    if need[0] == "cmp" and need[1] in ("Lt", "Gt"):
        # a < b  from  a <= b  and  a != b  (e.g. `if a == b {return}  if a > b {panic}`)
        a, b = (need[2], need[3]) if need[1] == "Lt" else (need[3], need[2])
        try:
            dk = lin(a).add(lin(b), -1).key()
            ne_i = [i for i, f in enumerate(facts) if f[0] == "cmp" and f[1] == "Ne" and lin(f[2]).add(lin(f[3]), -1).key() in
                    (dk, lin(b).add(lin(a), -1).key())]
        except Exception:
            ne_i = []
        if ne_i:
            j = entails([f for f in facts if not (f[0] == "cmp" and f[1] == "Ne")], ("cmp", "Le", a, b))
            if j is not None:
                return ("le+ne", ne_i[:1])
    fes = []
    idx = []
    for i, f in enumerate(facts):
        for e in fact_lins(f):
            fes.append(e)
            idx.append(i)
    needs = fact_lins(need)
    if not needs:
        return None
    # min(a, b) <= a, <= b ; max(a, b) >= a, >= b  for every such atom in sight (no fact index: they hold by definition)
    mm = set()
    for e in fes + needs:
        for a_ in e.m:
            if isinstance(a_, tuple) and a_ and a_[0] in ("min", "max") and len(a_) == 3:
                mm.add(a_)
    for a_ in mm:
        me = Lin(0, {a_: 1})
        for side in (a_[1], a_[2]):
            try:
                d_ = lin(side).add(me, -1)
            except Exception:
                continue
            fes.append(d_ if a_[0] == "min" else d_.scale(-1))
            idx.append(-1)
    # len(if c { &base[range] } else { base }) <= len(base): either branch is the base or a sub-slice of it that exists
    for e in list(fes) + list(needs):
        for a_ in list(e.m):
            if isinstance(a_, tuple) and len(a_) == 2 and a_[0] == "len":
                b_ = _ite_slice_base(a_[1])
                if b_ is not None:
                    fes.append(Lin(0, {("len", b_): 1}).add(Lin(0, {a_: 1}), -1))
                    idx.append(-1)
    used = []
    for ne in needs:
        j = entails_lin(fes, ne)
        if j is None:
            return None
        used += [idx[i] for i in j[1] if idx[i] >= 0]
    return ("lin", sorted(set(used)))


def _unref(x):
    while isinstance(x, tuple) and x and x[0] in ("ref", "deref") and isinstance(x[1], tuple):
        x = x[1]
    return x


def _ite_slice_base(x):
    """x = if c { A } else { B } where each of A, B is one slice `base` or a sub-slice of it (base[range], sub(base, ..)) -> base"""
    x = _unref(x)
    if not (isinstance(x, tuple) and x and x[0] == "ite" and len(x) == 4):
        return None

    def base_of(v):
        v = _unref(v)
        if v[0] == "sub":
            return _unref(v[1])
        if v[0] == "call" and len(v[2]) == 2 and str(v[1]).startswith("core::slice::index::<impl core::ops::index::Index<core::ops::range::"):
            return _unref(v[2][0])
        return v
    a, b = base_of(x[2]), base_of(x[3])
    if a == b and (a == _unref(x[2]) or a == _unref(x[3])):
        return strip(a)
    return None


# ------------------------------------------------------------------------- normal forms for matching
def N(t):
    """compact positional normal form: no zero-extensions, field = (base, index), arg = index,
    calls without site tags.  Used to compare terms with expected shapes."""
    if not isinstance(t, tuple) or not t:
        return t
    k = t[0]
    if k in ("opq", "cs", "fn"):
        return t
    if k == "zext":
        return N(t[1])
    if k == "fld":
        b = N(t[1])
        # `x?`:  Try::branch(x) -> Continue(v) / Break(residual)
        if t[2] == 0 and b[0] == "dc" and b[1][0] == "call" and "Try>::branch" in str(b[1][1]) and len(b[1][2]) == 1:
            return ("try_ok" if b[2] == 0 else "try_residual", b[1][2][0])
        return ("fld", b, t[2])
    if k == "arg":
        return ("arg", t[1])
    if k == "call":
        a = tuple(N(x) for x in t[2])
        if "FromResidual" in str(t[1]) and len(a) == 1 and a[0][0] == "try_residual":
            return ("try_err", a[0][1], t[1])
        return ("call", t[1], a)
    if k == "discr":
        b = N(t[1])
        if b[0] == "call" and "Try>::branch" in str(b[1]):
            return ("try_discr", b[2][0])
        return ("discr", b)
    if k == "bin":
        return ("bin", t[1], N(t[2]), N(t[3]))
    if k == "cast":
        return ("cast", t[1], N(t[2]), t[3])
    return tuple(N(x) if isinstance(x, tuple) else x for x in t)


def fld(base, *idx):
    for i in idx:
        base = ("fld", base, i)
    return base


def deref(x):
    return ("deref", x)


def arg(i):
    return ("arg", i)


def ptr_norm(t):
    """(base term, byte-offset Lin) of a pointer term built from as_ptr/add/sub/offset/cast"""
    off = Lin(0)
    t = strip(t)
    while isinstance(t, tuple) and t and t[0] == "ptrop":
        op, base, n, es = t[1], t[2], t[3], t[4]
        if not isinstance(es, int):
            return None
        d = lin(n).scale(es)
        off = off.add(d, -1 if op == "sub" else 1)
        t = strip(base)
    return t, off


def cn(key):
    """call name without generic argument groups: core::option::Option::<X>::ok_or::<E> -> core::option::Option::ok_or"""
    out, depth = [], 0
    i = 0
    key = str(key)
    while i < len(key):
        c = key[i]
        if c == "<" and (i >= 2 and key[i - 2:i] == "::"):
            depth += 1
            if depth == 1 and out[-2:] == [":", ":"]:
                out = out[:-2]
        elif depth > 0:
            if c == "<":
                depth += 1
            elif c == ">" and key[i - 1] != "-":
                depth -= 1
        else:
            out.append(c)
        i += 1
    return "".join(out)


def resolve_saturating(facts):
    """`a.saturating_sub(b)` reads as `a - b` wherever the other facts entail a >= b (a slice length known to be at least the header
    size): the rewritten fact list, for entailment at one program point"""
    facts = list(facts)
    for _ in range(4):
        found = None
        def walk(t):
            nonlocal found
            if found is not None or not isinstance(t, tuple):
                return
            if t and t[0] == "saturating" and len(t) > 2 and t[1] == "Sub":
                a, b = t[2][0], t[2][1]
                rest = [f for f in facts if not _contains(f, t)]
                if entails(rest, ("cmp", "Ge", a, b)) is not None:
                    found = (t, ("bin", "Sub", a, b, t[3] if len(t) > 3 else None))
                    return
            for x in t:
                if isinstance(x, tuple):
                    walk(x)
        for f in facts:
            walk(f)
        if found is None:
            break
        facts = [_subst(f, found[0], found[1]) for f in facts]
    return facts


def _contains(t, sub):
    if t == sub:
        return True
    return isinstance(t, tuple) and any(_contains(x, sub) for x in t if isinstance(x, tuple))


def _subst(t, old, new):
    if t == old:
        return new
    if isinstance(t, tuple):
        return tuple(_subst(x, old, new) if isinstance(x, tuple) else x for x in t)
    return t
