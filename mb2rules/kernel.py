"""KERNEL: ring normal form in Z/2^n (truncation of any polynomial in zero-extended atoms is that
polynomial mod 2^n) - used for the header checksum law."""
from . import guard as G
from . import terms as T


def ring(t, bits):
    """Lin of t with coefficients/constant reduced mod 2^bits, or None if t is not a ring expression"""
    M = 1 << bits

    def red(l):
        return G.Lin(l.c % M, {a: c % M for a, c in l.m.items() if c % M})

    def go(t):
        k = t[0]
        if k == "c":
            return G.Lin(t[1] % M)
        if k == "zext":
            return go(t[1])
        if k == "wrap":
            op, args, ty = t[1], t[2], t[3]
            if T.INT_BITS.get(ty, 0) < bits:
                return G.Lin(0, {G.strip(t): 1})
            if op == "Neg":
                a = go(args[0])
                return None if a is None else red(a.scale(-1))
            a, b = go(args[0]), go(args[1])
            if a is None or b is None:
                return None
            if op == "Add":
                return red(a.add(b))
            if op == "Sub":
                return red(a.add(b, -1))
            if op == "Mul":
                if a.is_const():
                    return red(b.scale(a.c))
                if b.is_const():
                    return red(a.scale(b.c))
                return None
        if k == "bin" and t[1] in ("Add", "Sub", "Mul", "AddUnchecked", "SubUnchecked", "MulUnchecked"):
            ty = t[4] if len(t) > 4 else None
            if ty is not None and T.INT_BITS.get(ty, 0) < bits:
                return G.Lin(0, {G.strip(t): 1})
            a, b = go(t[2]), go(t[3])
            if a is None or b is None:
                return None
            if t[1].startswith("Add"):
                return red(a.add(b))
            if t[1].startswith("Sub"):
                return red(a.add(b, -1))
            if a.is_const():
                return red(b.scale(a.c))
            if b.is_const():
                return red(a.scale(b.c))
            return None
        if k == "cast" and t[1] == "IntToInt":
            # truncation to >= bits keeps the value mod 2^bits
            if T.INT_BITS.get(t[3], 0) >= bits:
                return go(t[2])
            return G.Lin(0, {G.strip(t): 1})
        return G.Lin(0, {G.strip(t): 1})
    r = go(G.strip(t))
    return None if r is None else red(r)


def width_of(t):
    """bit width of the type a (raw) term is computed in, or None when the term does not say (constants, opaque calls)"""
    if not isinstance(t, tuple) or not t:
        return None
    k = t[0]
    ty = None
    if k == "zext":
        ty = t[3] if len(t) > 3 else None
    elif k == "bin":
        ty = t[4] if len(t) > 4 else None
    elif k == "wrap":
        ty = t[3] if len(t) > 3 else None
    elif k == "fld":
        ty = t[4] if len(t) > 4 else None
    elif k == "cast":
        ty = t[3] if len(t) > 3 else None
    return T.INT_BITS.get(ty)
