"""SEQ: the element sequence a function assembles - as one description, whichever way the code writes it.

Sequence language (a list of segments, in order):
  ("one", t)            one element with value t
  ("all", t)            every element of the array / slice valued term t, in order
  ("opt", conds, segs)  `segs` iff all facts `conds` hold (N-form facts), nothing otherwise
  ("each", src, segs)   for every element of the slice `src`, front to back, `segs` with ELEM standing for `&element`

Two evaluators produce it:
  iter_seq   - value terms: array literals, Option values (Some / None / gated phi), Option::iter, slice::iter, map, flat_map,
               flatten, chain, once, cloned/copied, collect / to_vec (std contracts: each adapter preserves the order of the
               items it is given; anything that reorders or drops - rev, filter, skip, take, step_by, sort - is not in the table and
               makes the form UNRECOGNISED, never accepted)
  vec_seq    - a `Vec` local mutated in place: forward abstract interpretation of the CFG with the sequence as state; push / extend
               append, a branch that rejoins becomes ("opt", path condition, ..), a loop around Iterator::next whose only exits are
               on `None` becomes ("each", ..) over the iterated source.  Any other call that takes the vector is UNRECOGNISED."""
from . import an
from . import chain as CH
from . import guard as G
from . import mir as M
from . import terms as T
from .guard import N, arg, cn

ELEM = ("elem",)


class Unrec(Exception):
    pass


def replace(t, old, new):
    if t == old:
        return new
    if not isinstance(t, tuple):
        return t
    r = tuple(replace(x, old, new) if isinstance(x, tuple) else x for x in t)
    if r and r[0] == "deref" and isinstance(r[1], tuple) and r[1] and r[1][0] == "ref":
        return r[1][1]
    if r and r[0] == "fld" and isinstance(r[1], tuple) and r[1] and r[1][0] == "aggr" and isinstance(r[2], int) and r[2] < len(r[1][2]):
        return r[1][2][r[2]]
    return r


def subterms(t, acc=None):
    acc = acc if acc is not None else []
    if isinstance(t, tuple):
        acc.append(t)
        for x in t:
            if isinstance(x, tuple):
                subterms(x, acc)
    return acc


def unref(t):
    while isinstance(t, tuple) and t and t[0] == "ref":
        t = t[1]
    return t


def is_variant(t, name):
    return isinstance(t, tuple) and len(t) >= 3 and t[0] == "aggr" and isinstance(t[1], tuple) and t[1][:3] == ("adt", "core::option::Option", name)


def strip_view(t):
    """slice / Vec views of the same storage: Deref, as_slice, as_ref, unsize, borrow"""
    for _ in range(8):
        if not isinstance(t, tuple) or not t:
            return t
        if t[0] == "unsize":
            t = t[1]
        elif t[0] == "call" and len(t[2]) == 1 and (
                cn(t[1]) in ("alloc::vec::Vec::as_slice", "alloc::vec::Vec::as_mut_slice") or
                ("alloc::vec::Vec<" in str(t[1]) or "alloc::boxed::Box<[" in str(t[1])) and str(t[1]).split("::<")[0].endswith(
                    ("Deref>::deref", "DerefMut>::deref_mut", "AsRef<[T]>>::as_ref", "Borrow<[T]>>::borrow"))):
            t = t[2][0]
        else:
            return t
    return t


class Env:
    def __init__(self, F, inst):
        self.F = F
        self.inst = inst

    def type_of(self, t):
        """type name of a place term rooted at an argument (fields / derefs / downcast payloads), or None"""
        if not isinstance(t, tuple) or not t:
            return None
        if t[0] == "arg":
            try:
                return self.inst["body"]["locals"][t[1]]["ty"]
            except Exception:
                return None
        if t[0] == "deref":
            ty = self.type_of(t[1])
            info = self.F.ty(ty) if ty else None
            if info and info.get("kind") in ("ref", "ptr"):
                return info.get("pointee")
            return None
        if t[0] == "fld" and isinstance(t[2], int):
            base = t[1]
            if base[0] == "dc":
                return t[4] if len(t) > 4 else None
            ty = self.type_of(base)
            a = self.F.adts.get(ty) if ty else None
            if a and a.get("fields") and t[2] < len(a["fields"]):
                f = [f for f in a["fields"] if f["i"] == t[2]]
                return f[0]["ty"] if f else None
            return t[4] if len(t) > 4 else None
        return None

    def container_kind(self, t):
        ty = self.type_of(t)
        info = self.F.ty(ty) if ty else None
        while info and info.get("kind") == "ref":
            info = self.F.ty(info.get("pointee"))
        if not info:
            return None
        if info.get("kind") in ("slice", "array"):
            return "Slice"
        return info.get("adt_name")

    def fn_ret(self, f, item):
        """value of calling closure / fn item `f` on `item`"""
        from . import select as SEL
        if isinstance(f, tuple) and f and f[0] == "aggr" and f[1][0] == "closure":
            cf = SEL.closure_fn(self.F, f, self.inst)
            if cf is None:
                raise Unrec("closure body not found")
            rt, _ = an.of(self.F, cf).ret()
            if rt is None:
                raise Unrec("closure with several returns")
            r = N(rt)
            for i, c in enumerate(f[2]):
                r = replace(r, ("fld", ("deref", arg(1)), i), c)
                r = replace(r, ("fld", arg(1), i), c)
            return replace(r, arg(2), item)
        # fn item: a constant of FnDef type
        key = None
        if isinstance(f, tuple) and f and f[0] in ("fn", "fndef"):
            key = f[1]
        elif isinstance(f, tuple) and f and f[0] == "cs" and len(f) > 1:
            key = f[1]
        if key is not None:
            inst = self.F.insts.get(key) or next((v for k, v in self.F.insts.items() if v.get("path") == key), None)
            if inst is not None:
                rt, _ = an.of(self.F, inst).ret()
                if rt is not None:
                    return replace(N(rt), arg(1), item)
        raise Unrec("mapping function %s" % G.show(f)[:80])


def _map_items(segs, fn):
    """apply fn: item term -> list of segments to every ("one", t); structure is kept"""
    out = []
    for s in segs:
        if s[0] == "one":
            out += fn(s[1])
        elif s[0] == "all":
            raise Unrec("mapping over an unexpanded array")
        elif s[0] == "unk":
            out.append(s)
        elif s[0] == "opt":
            inner = _map_items(s[2], fn)
            if inner:
                out.append(("opt", s[1], tuple(inner)))
        elif s[0] == "each":
            inner = _map_items(s[2], fn)
            if inner:
                out.append(("each", s[1], tuple(inner)))
        else:
            raise Unrec("segment %s" % (s[0],))
    return out


def _deref_items(segs):
    def d(t):
        return [("one", t[1] if t[0] == "ref" else ("deref", t))]
    out = []
    for s in segs:
        if s[0] == "all":
            out.append(s)
        else:
            out += _map_items([s], d)
    return out


def _elements(E, t, byref):
    """elements of an array / slice valued term (by value, or as references when iterated through a reference)"""
    t0 = strip_view(t)
    inner = unref(t0)
    inner = strip_view(inner)
    if isinstance(inner, tuple) and inner and inner[0] == "aggr" and inner[1] == ("array",):
        return [("one", ("ref", o) if byref else o) for o in inner[2]]
    if isinstance(inner, tuple) and inner and inner[0] == "to_bytes":
        return [("all", inner)]
    if byref:
        return [("each", inner, (("one", ELEM),))]
    raise Unrec("elements of %s" % G.show(t)[:80])


def iter_seq(E, t):
    """segments yielded by iterating the value term t (an iterator, an IntoIterator, or a collected container)"""
    t = strip_view(t)
    if not isinstance(t, tuple) or not t:
        raise Unrec("not a term")
    if is_variant(t, "Some"):
        return [("one", t[2][0])]
    if is_variant(t, "None"):
        return []
    if t[0] == "ite":
        c = N(t[1])
        a = iter_seq(E, t[2])
        b = iter_seq(E, t[3])
        out = []
        if a:
            out.append(("opt", (c,), tuple(a)))
        if b:
            out.append(("opt", (N(G.negate(c)),), tuple(b)))
        return out
    if t[0] == "aggr" and t[1] == ("array",):
        return [("one", o) for o in t[2]]
    if t[0] == "to_bytes":
        return [("all", t)]
    if t[0] == "ref":
        x = strip_view(t[1])
        if isinstance(x, tuple) and x and (x[0] == "to_bytes" or x[0] == "aggr" and x[1] == ("array",)):
            return _elements(E, x, True)
        kind = E.container_kind(x)
        if kind in ("Vec", "Slice"):
            return [("each", x, (("one", ELEM),))]
        if kind == "Option":
            return [("opt", (("cmp", "Eq", ("discr", x), ("c", 1)),), (("one", ("ref", CH.payload_of(x, 1))),))]
        raise Unrec("iteration over a reference to %s (type %s)" % (G.show(x)[:60], E.type_of(x)))
    if t[0] == "aggr" and t[1][0] == "adt" and t[1][1] in ("core::option::Iter", "core::option::Item", "core::option::IntoIter") and len(t[2]) == 1:
        return iter_seq(E, t[2][0])
    if t[0] != "call":
        raise Unrec("iterator term %s" % G.show(t)[:80])
    key = str(t[1])
    name = cn(t[1])
    a = t[2]
    last = name.rsplit("::", 1)[-1]
    itertrait = "Iterator>::" in key or name.startswith("core::iter::traits::iterator::Iterator::")
    if name in ("core::option::Option::iter", "core::option::Option::iter_mut") and len(a) == 1:
        slot = unref(a[0])
        return [("opt", (("cmp", "Eq", ("discr", slot), ("c", 1)),), (("one", ("ref", CH.payload_of(slot, 1))),))]
    if name in ("core::slice::iter", "core::slice::iter_mut") and len(a) == 1:
        return _elements(E, a[0], True)
    if "IntoIterator for [" in key and last == "into_iter" and len(a) == 1:
        return _elements(E, a[0], False)
    if "IntoIterator for &" in key and last == "into_iter" and len(a) == 1:
        return _elements(E, a[0], True)
    if itertrait and last == "map" and len(a) == 2:
        return _map_items(iter_seq(E, a[0]), lambda it: [("one", E.fn_ret(a[1], it))])
    if itertrait and last == "flat_map" and len(a) == 2:
        return _map_items(iter_seq(E, a[0]), lambda it: iter_seq(E, E.fn_ret(a[1], it)))
    if itertrait and last == "flatten" and len(a) == 1:
        return _map_items(iter_seq(E, a[0]), lambda it: iter_seq(E, it))
    if itertrait and last == "chain" and len(a) == 2:
        return iter_seq(E, a[0]) + iter_seq(E, a[1])
    if itertrait and last in ("cloned", "copied") and len(a) == 1:
        return _deref_items(iter_seq(E, a[0]))
    if itertrait and last in ("collect", "by_ref", "into_iter", "fuse") and len(a) == 1:
        return iter_seq(E, a[0])
    if name.startswith("core::iter::sources::once::once") and len(a) == 1:
        return [("one", a[0])]
    if name.startswith("core::iter::sources::empty::empty") and not a:
        return []
    if last == "from_iter" and len(a) == 1 and ("FromIterator" in key):
        return iter_seq(E, a[0])
    if last in ("to_vec", "into_vec") and len(a) == 1 and ("slice" in key or "[T]" in key):
        return _elements(E, a[0], False)
    if name in ("alloc::vec::Vec::new", "alloc::vec::Vec::with_capacity"):
        return []
    if last == "from" and len(a) == 1 and "From<" in key and "alloc::vec::Vec<" in key.split(" for ", 1)[-1]:
        # Vec::from([..; N]) / Vec::from(&[..]) / Vec::from(&mut [..]): the elements of the source in order
        src = strip_view(a[0])
        if isinstance(src, tuple) and src and src[0] == "ref":
            return _elements(E, src[1], False)
        return _elements(E, src, False)
    raise Unrec("call %s" % name[:100])


# ------------------------------------------------------------------------------------------- the imperative form
_APPEND = ("Vec::<T, A>::push", "::extend", "::extend_from_slice")
_READ = ("::as_slice", "Deref>::deref", "::len", "::capacity", "::is_empty", "::as_ptr", "AsRef<[T]>>::as_ref", "::reserve", "::reserve_exact")


def _opl(op):
    return op.get("m") or op.get("c")


class VecEval:
    """abstract interpretation of one function for one vector object"""

    def __init__(self, E, A):
        self.E = E
        self.A = A
        self.b = A.body

    # ---- which locals are "the vector"
    def root_local(self, op):
        A, b = self.A, self.b
        pl = _opl(op)
        if pl is None:
            return None
        L = pl["l"]
        for _ in range(16):
            if pl is not None and pl.get("p") and pl["p"][0] != "*":
                return L           # a field of L: L (a wrapper struct) is the object
            ds = [d for d in A.tb.defs.get(L, []) if not (d[3] and d[3][0] == "*")]
            if len(ds) > 1 and all(d[0] == "stmt" for d in ds):
                rvs = [b.stmts(d[1])[d[2]].get("rv") for d in ds]
                if all(r == rvs[0] for r in rvs):
                    ds = ds[:1]
            if len(ds) != 1 or ds[0][0] != "stmt":
                return L
            st = b.stmts(ds[0][1])[ds[0][2]]
            if st["k"] != "assign":
                return L
            rv = st["rv"]
            if rv["k"] in ("ref", "rawptr"):
                pl = rv["pl"]
                L = pl["l"]
                if pl.get("p") and pl["p"][0] == "*":
                    pl = None
                    continue
                return L
            if rv["k"] == "use":
                p2 = _opl(rv["op"])
                if p2 is None:
                    return L
                # only references are followed through moves here; moves of the vector itself are handled by `objects`
                ty = b.local_ty(L) or ""
                if not ty.startswith("&"):
                    return L
                pl = p2
                L = p2["l"]
                continue
            return L
        return L

    def objects(self, L0):
        """locals holding the vector over its life: L0 and everything it is moved from / to as a whole"""
        b, A = self.b, self.A
        objs = {L0}
        changed = True
        while changed:
            changed = False
            for bb in sorted(b.reachable):
                for st in b.stmts(bb):
                    if st["k"] != "assign" or st["lhs"].get("p"):
                        continue
                    rv = st["rv"]
                    if rv["k"] == "use":
                        p2 = _opl(rv["op"])
                        if p2 is not None and not p2.get("p"):
                            x, y = st["lhs"]["l"], p2["l"]
                            if (x in objs) != (y in objs) and not (b.local_ty(x) or "").startswith("&"):
                                objs |= {x, y}
                                changed = True
        return objs

    # ---- per block effect
    def _creation(self, val):
        """sequence of a freshly created vector value"""
        v = N(val)
        try:
            return iter_seq(self.E, v)
        except Unrec:
            pass
        if isinstance(v, tuple) and v and v[0] == "aggr" and v[1][0] == "adt":
            got = []
            for o in v[2]:
                try:
                    got.append(iter_seq(self.E, N(o)))
                except Unrec:
                    pass
            if len(got) == 1:
                return got[0]
        raise Unrec("creation value %s" % G.show(v)[:100])

    def effects(self, bb, objs, term=True):
        """[(kind, payload)] in execution order for block bb: ('create', segs) | ('append', segs) | ('bad', why);
        term=False leaves the terminator out (the block's call is the consumer of the vector)"""
        A, b = self.A, self.b
        out = []
        for si, st in enumerate(b.stmts(bb)):
            if st["k"] == "assign" and st["lhs"]["l"] in objs and not st["lhs"].get("p"):
                rv = st["rv"]
                if rv["k"] == "use":
                    p2 = _opl(rv["op"])
                    if p2 is not None and not p2.get("p") and p2["l"] in objs:
                        continue
                try:
                    out.append(("create", self._creation(A.tb.rvalue(rv, (bb, si), st))))
                except Unrec as e:
                    out.append(("bad", "creation: %s" % e))
        t = b.term(bb)
        if term and t["k"] == "call":
            p = M.callee_path(t) or ""
            at = (bb, len(b.stmts(bb)))
            roots = [self.root_local(a) for a in t["args"]]
            if t["dest"]["l"] in objs and not t["dest"].get("p"):
                if any(r in objs for r in roots):
                    out.append(("bad", "vector rebuilt from itself by %s" % p[:60]))
                else:
                    try:
                        out.append(("create", self._creation(A.tb.call_value(t, bb))))
                    except Unrec as e:
                        out.append(("bad", "creation: %s" % e))
            elif any(r in objs for r in roots):
                if p.endswith(_APPEND) and roots[0] in objs and not any(r in objs for r in roots[1:]):
                    v = N(A.tb.operand(t["args"][1], at))
                    try:
                        if p.endswith("::push"):
                            out.append(("append", [("one", v)]))
                        else:
                            segs = iter_seq(self.E, v)
                            if "Extend<&" in (M.callee_key(t) or p) or p.endswith("::extend_from_slice"):
                                segs = _deref_items(segs)
                            out.append(("append", segs))
                    except Unrec as e:
                        out.append(("append", [("unk", "appended value: %s" % e, v)]))
                elif p.endswith(_READ) or "drop_in_place" in p:
                    pass
                else:
                    out.append(("bad", "vector passed to %s" % p[:80]))
        return out

    # ---- the dataflow
    def state_at(self, target_bb, L0):
        """sequence held by the vector when control reaches the terminator of target_bb (the consumer)"""
        A, b = self.A, self.b
        objs = self.objects(L0)
        self.objs = objs
        R = {target_bb}
        st = [target_bb]
        while st:
            x = st.pop()
            for (p, _) in b.pred[x]:
                if p not in R and p in b.reachable:
                    R.add(p)
                    st.append(p)
        self.R = R
        order = _rpo(b, R)
        back = set(b.back_edges())
        self.back = back
        loop_of = {}
        for (t_, h) in back:
            if t_ in R and h in R:
                loop_of.setdefault(h, set()).update(b.loop_blocks(h, t_))
        self.loop_of = loop_of
        out_state = {}
        self.out_state = out_state
        entry0 = {}
        self.entry0 = entry0

        def step(bb, s, term=True):
            for kind, payload in self.effects(bb, objs, term):
                if kind == "bad":
                    raise Unrec(payload)
                if kind == "create":
                    if s is not None and s != []:
                        raise Unrec("vector re-created after elements were appended")
                    s = list(payload)
                else:
                    if s is None:
                        raise Unrec("append before creation")
                    s = s + list(payload)
            return s

        for bb in order:
            fwd = [(p, lab) for (p, lab) in b.pred[bb] if (p, bb) not in back and p in R]
            if not fwd:
                s = None
            else:
                states = [self.close(p, bb, out_state[p]) for (p, _) in fwd]
                if all(x == states[0] for x in states):
                    s = states[0]
                else:
                    s = self._merge(bb, fwd, states)
            if bb in loop_of:
                entry0[bb] = s
                s = [("mark", bb)]
            if bb == target_bb:
                return self.resolve(step(bb, s, term=False))
            out_state[bb] = step(bb, s)
        raise Unrec("target not reached")

    def close(self, p, bb, s):
        """state on the edge p -> bb: loops that p is in and bb is not are finished"""
        for h in sorted((h for h in self.loop_of if p in self.loop_of[h] and bb not in self.loop_of[h]), key=lambda h: len(self.loop_of[h])):
            if not s or s[0] != ("mark", h):
                raise Unrec("state leaving the loop at bb%d does not start at the loop's entry" % h)
            if len(s) > 1:
                raise Unrec("elements are appended between the loop head and the exit test of the loop at bb%d" % h)
            e0 = self.entry0[h]
            if e0 is None:
                raise Unrec("vector created inside a loop")
            s = list(e0) + [("loop", h, p, bb)]
        return s

    def _merge(self, bb, fwd, states):
        A, b = self.A, self.b
        top = b.idom.get(bb, 0)
        base = self.out_state.get(top)
        if base is not None:
            base = self.close(top, bb, base)
        if base is None:
            if all(x is None for x in states):
                return None
            if any(x is None for x in states):
                raise Unrec("vector created on some paths only")
            base = []
        for x in states:
            if x is None or x[:len(base)] != base:
                raise Unrec("paths into bb%d do not extend the state at their common dominator" % bb)
        top_facts = [N(f) for f in A.g.facts_at(top)]
        merged = list(base)
        seen_p = set()
        for (p, lab), x in zip(fwd, states):
            rest = x[len(base):]
            if not rest:
                continue
            if p in seen_p:
                raise Unrec("several switch values share one arm that appends")
            seen_p.add(p)
            fs = []
            for (d_, s_, l_) in A.g.dominating_edges(p) + [(p, bb, lab)]:
                if any(d_ in blk and bb not in blk for blk in self.loop_of.values()):
                    continue        # the exit test of a finished loop is not a condition of what was appended
                if b.term(d_)["k"] == "switch" and b.dominates(top, d_):
                    fs += [N(f) for f in A.g.edge_facts(d_, s_, l_)]
            conds = tuple(dict.fromkeys(f for f in fs if f not in top_facts and f != ("const", True) and f[0] != "or"))
            if not conds:
                raise Unrec("no path condition for an appending arm into bb%d" % bb)
            merged.append(("opt", conds, tuple(rest)))
        return merged

    # ---- loops
    def loop_contribution(self, h):
        """what one run of the loop at h appends, as segments over the iterated source"""
        A, b = self.A, self.b
        blocks = self.loop_of[h]
        bodies = []
        for (t_, hh) in self.back:
            if hh != h or t_ not in self.R:
                continue
            s = self.close(t_, h, self.out_state[t_])
            if not s or s[0] != ("mark", h):
                raise Unrec("loop at bb%d: state at the back edge does not start at the loop's entry" % h)
            bodies.append(s[1:])
        if not bodies or any(x != bodies[0] for x in bodies):
            raise Unrec("loop at bb%d: back edges carry different appended elements" % h)
        B = bodies[0]
        if not B:
            return []
        nexts = []
        for bb in sorted(blocks):
            t = b.term(bb)
            if t["k"] == "call":
                p = M.callee_path(t) or ""
                if p.endswith("Iterator>::next") or p.endswith("Iterator::next"):
                    nexts.append(bb)
        if len(nexts) != 1:
            raise Unrec("loop at bb%d is not a single Iterator::next loop (%d next calls)" % (h, len(nexts)))
        nb = nexts[0]
        nt = N(A.tb.call_value(b.term(nb), nb))
        latches = [t_ for (t_, hh) in self.back if hh == h and t_ in self.R]
        if not all(b.dominates(nb, t_) for t_ in latches):
            raise Unrec("loop at bb%d: next() is not called on every iteration" % h)
        # every way out of the loop that can reach the consumer is the `None` answer of that next()
        for x in sorted(blocks):
            for (y, lab) in b.succ[x]:
                if y in blocks or y not in self.R:
                    continue
                fs = [N(f) for f in A.g.edge_facts(x, y, lab)]
                if not any(CH.is_discr_fact(f, nt, 0) for f in fs):
                    raise Unrec("loop at bb%d can be left other than by the iterator ending (bb%d -> bb%d)" % (h, x, y))
        # the iterator is advanced by this loop's next() only
        it_root = self.root_local(b.term(nb)["args"][0])
        for bb, t in b.calls():
            if bb == nb or bb not in b.reachable:
                continue
            if any(self.root_local(a_) == it_root for a_ in t["args"]):
                raise Unrec("the loop's iterator is also used by %s" % (M.callee_path(t) or "?")[:60])
        src = nt[2][0] if nt[0] == "call" and len(nt[2]) == 1 else None
        if src is None:
            raise Unrec("next() term")
        if unref(src)[0] == "opq":
            # the iterator variable is loop-carried: what the loop walks is its value on entry to the loop
            pre = [p_ for (p_, _l) in b.pred[h] if p_ not in blocks and p_ in self.R]
            if len(pre) == 1 and it_root is not None:
                src = N(A.tb.read(it_root, (), (pre[0], len(b.stmts(pre[0])))))
        items = iter_seq(self.E, unref(src))
        pay = CH.payload_of(nt, 1)

        def body_for(item):
            out = []
            for seg in B:
                out.append(replace(seg, pay, item))
            for seg in out:
                if any(x == nt for x in subterms(seg)):
                    raise Unrec("loop body uses the iterator's answer other than through its payload")
            return out
        return _map_items(items, body_for)

    def resolve(self, s):
        if s is None:
            raise Unrec("vector not created on the path to its use")
        out = []
        for seg in s:
            if seg[0] == "mark":
                raise Unrec("the vector is consumed inside a loop")
            if seg[0] == "loop":
                try:
                    out += self.loop_contribution(seg[1])
                except Unrec as e:
                    terms = []
                    for (t_, hh) in self.back:
                        if hh == seg[1] and t_ in self.R and self.out_state.get(t_):
                            terms += [x for x in self.out_state[t_] if x[0] != "mark"]
                    out.append(("unk", "loop: %s" % e, tuple(terms)))
            elif seg[0] == "opt":
                out.append(("opt", seg[1], tuple(self.resolve(list(seg[2])))))
            else:
                out.append(seg)
        return out


def _rpo(b, R):
    seen = {0}
    order = []
    stack = [(0, iter([t for (t, _) in b.succ[0]]))]
    while stack:
        node, it = stack[-1]
        adv = False
        for t in it:
            if t not in seen and t in R:
                seen.add(t)
                stack.append((t, iter([u for (u, _) in b.succ[t]])))
                adv = True
                break
        if not adv:
            order.append(node)
            stack.pop()
    order.reverse()
    return order


# ------------------------------------------------------------------------------------------- entry points
def seq_of_operand(E, A, op, bb):
    """sequence of the container the operand `op` (read at the terminator of bb) views or holds.  A local vector is always
    evaluated through its life in the CFG (value terms do not see in-place appends); only a container that is not a local
    (an expression passed straight on) is evaluated as a term"""
    ve = VecEval(E, A)
    L = _vector_local(ve, op, bb)
    if L is not None:
        return ve.state_at(bb, L), "vector _%d over its life in the CFG" % L
    at = (bb, len(A.body.stmts(bb)))
    v = N(A.tb.operand(op, at))
    return iter_seq(E, unref(strip_view(unref(v)))), "expression"


def _vector_local(ve, op, bb):
    A, b = ve.A, ve.b
    pl = _opl(op)
    if pl is None:
        return None
    L = pl["l"]
    for _ in range(10):
        ty = b.local_ty(L) or ""
        if "alloc::vec::Vec<" in ty and not ty.startswith("&"):
            return L
        ds = [d for d in A.tb.defs.get(L, []) if not (d[3] and d[3][0] == "*")]
        if len(ds) != 1:
            r = ve.root_local({"m": {"l": L, "p": []}})
            return r if r != L else (L if not ty.startswith("&") else None)
        d = ds[0]
        if d[0] == "stmt":
            st = b.stmts(d[1])[d[2]]
            if st["k"] != "assign":
                return None
            rv = st["rv"]
            if rv["k"] in ("ref", "rawptr"):
                if rv["pl"].get("p") and rv["pl"]["p"][0] == "*":
                    L = rv["pl"]["l"]      # reborrow
                    continue
                return rv["pl"]["l"]
            if rv["k"] == "use":
                p2 = _opl(rv["op"])
                if p2 is None:
                    return None
                L = p2["l"]
                continue
            if rv["k"] == "cast":
                p2 = _opl(rv["op"]) if "op" in rv else None
                if p2 is None:
                    return None
                L = p2["l"]
                continue
            return None
        # call: a view of its argument (as_slice / deref / as_ref / wrapper accessor spliced by INLINE)
        t = b.term(d[1])
        p = M.callee_path(t) or ""
        if p.endswith(_READ) and t["args"]:
            r = ve.root_local(t["args"][0])
            return r
        return None
    return None


def show(segs, depth=0):
    out = []
    for s in segs:
        if s[0] == "one":
            out.append("%s" % G.show(s[1])[:70])
        elif s[0] == "all":
            out.append("all(%s)" % G.show(s[1])[:70])
        elif s[0] == "opt":
            out.append("if %s {%s}" % (" && ".join(G.show(c)[:60] for c in s[1]), show(s[2])))
        elif s[0] == "each":
            out.append("for e in %s {%s}" % (G.show(s[1])[:50], show(s[2])))
        elif s[0] == "unk":
            out.append("UNRECOGNISED(%s)" % s[1][:80])
        else:
            out.append(str(s)[:60])
    return "; ".join(out)
