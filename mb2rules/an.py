"""Per-function analysis bundle."""
from . import mir as M
from . import terms as T
from . import guard as G

_cache = {}


class An:
    def __init__(self, F, inst):
        self.F = F
        self.inst = inst
        self.body = M.Body(inst)
        self.tb = T.TB(F, self.body)
        self.g = G.Guards(self.tb)

    def ret(self):
        """(return term, facts at return) for single-return functions, else (None, None)"""
        rb = self.body.return_blocks
        if len(rb) != 1:
            return None, None
        at = (rb[0], len(self.body.stmts(rb[0])))
        return self.tb.read(0, (), at), self.g.facts_at(rb[0])

    def site(self, bb=None):
        if bb is None:
            return self.inst.get("span", "?")
        sp = self.body.term(bb).get("span", self.inst.get("span", "?"))
        if sp.startswith("/"):
            # block of a std body spliced in by INLINE: report the enclosing repo function
            return self.inst.get("span", "?")
        return sp


def of(F, inst):
    # the iterator-counter invariants (invariants.py) are facts of every analysis: have them computed before the first bundle
    # is memoised (computing them empties this cache, which would leave earlier bundles - and hooks registered on them - stale)
    from . import invariants as INV
    if id(F) not in INV._cache:
        INV.counter_invariants(F)
    if id(F) not in INV._cache2:
        INV.stride_invariants(F)
    k = (id(F), inst.get("key") or inst.get("path"))
    if k not in _cache:
        _cache[k] = An(F, inst)
    return _cache[k]


def aliases_of(A, local=1):
    """locals that hold the same reference as `local` (an argument): every definition is a whole-value copy/move or a
    reborrow `&mut *x` / `&*x` of a local already in the set.  After INLINE a helper's `self` parameter is such an alias."""
    b = A.body
    al = {local}
    changed = True
    while changed:
        changed = False
        for l, defs in A.tb.defs.items():
            if l in al or not defs:
                continue
            ok = True
            for d in defs:
                if d[3] and d[3][0] == "*":
                    continue        # a store through the reference, not a new value for the local
                if d[0] != "stmt" or d[3]:
                    ok = False
                    break
                st = b.stmts(d[1])[d[2]]
                if st["k"] != "assign":
                    ok = False
                    break
                rv = st["rv"]
                if rv["k"] == "use":
                    pl = rv["op"].get("c") or rv["op"].get("m")
                    if not (pl and not pl.get("p") and pl["l"] in al):
                        ok = False
                        break
                elif rv["k"] == "ref":
                    pl = rv["pl"]
                    if not (pl["l"] in al and pl.get("p") == ["*"]):
                        ok = False
                        break
                else:
                    ok = False
                    break
            if ok:
                al.add(l)
                changed = True
    return al


def writes_through(A, local=1):
    """[(bb, stmt index, first field name, value term)] of the assignments `(*x).field.. = v` with x an alias of `local`"""
    b = A.body
    al = aliases_of(A, local)
    out = []
    for bb in sorted(b.reachable):
        for si, st in enumerate(b.stmts(bb)):
            if st["k"] == "assign" and st["lhs"]["l"] in al and st["lhs"].get("p"):
                p = st["lhs"]["p"]
                fld = next((e for e in p if isinstance(e, dict) and "f" in e), None)
                out.append((bb, si, fld.get("n") if fld else None, A.tb.rvalue(st["rv"], (bb, si), st)))
    return out


def loop_entry_value(A, t, head, blocks):
    """a loop-carried variable read inside the loop is an opaque phi; what the loop starts from is the variable's value at
    the end of the loop's only outside predecessor.  t: N-form or raw term; returns an N-form term (t itself if it is not such a phi).

    Meant for the iterator a loop walks: answered only when a single call in the loop is handed the variable (its `next`) and
    nothing in the loop stores to it - otherwise "the value on entry" says nothing about what the loop visits."""
    x = t
    if isinstance(x, tuple) and x and x[0] == "ref":
        x = x[1]
    if isinstance(x, tuple) and len(x) > 2 and x[0] == "opq" and x[1] == "phi" and isinstance(x[2], int):
        b = A.body
        root = x[2]
        pre = [p for (p, _l) in b.pred[head] if p not in blocks]
        stores = [1 for bb_ in blocks for st_ in b.stmts(bb_) if st_["k"] == "assign" and st_["lhs"].get("l") == root]
        stores += [1 for bb_, t_ in b.calls() if bb_ in blocks and (t_.get("dest") or {}).get("l") == root]
        from . import seq as SQ_
        ve = SQ_.VecEval(None, A)
        handed = [bb_ for bb_, t_ in b.calls() if bb_ in blocks and any(ve.root_local(a_) == root for a_ in t_["args"])]
        if len(pre) == 1 and not stores and len(handed) <= 1:
            try:
                return G.N(A.tb.read(root, tuple(x[3]) if len(x) > 3 and x[3] else (), (pre[0], len(b.stmts(pre[0])))))
            except Exception:
                return x
    return x
