"""Per-function analysis bundle."""
from . import mir as M
from . import terms as T
from . import guard as G

_cache = {}


class An:
    def __init__(self, F, inst):
        self.F = F
        self.inst = inst
        self.body = M.Body(inst)
        self.tb = T.TB(F, self.body)
        self.g = G.Guards(self.tb)

    def ret(self):
        """(return term, facts at return) for single-return functions, else (None, None)"""
        rb = self.body.return_blocks
        if len(rb) != 1:
            return None, None
        at = (rb[0], len(self.body.stmts(rb[0])))
        return self.tb.read(0, (), at), self.g.facts_at(rb[0])

    def site(self, bb=None):
        if bb is None:
            return self.inst.get("span", "?")
        sp = self.body.term(bb).get("span", self.inst.get("span", "?"))
        if sp.startswith("/"):
            # block of a std body spliced in by INLINE: report the enclosing repo function
            return self.inst.get("span", "?")
        return sp


def of(F, inst):
    k = (id(F), inst.get("key") or inst.get("path"))
    if k not in _cache:
        _cache[k] = An(F, inst)
    return _cache[k]
