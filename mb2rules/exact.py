"""Exactness premises ("the rejection is exact"): judging one panic edge.

A panic edge is `ok` when the facts it is reached under entail one of the rejecting conditions of the property - directly, or
alternative by alternative when the edge is reached under a disjunctive fact (the error of a fallible helper matched afterwards:
`match check(..) { Ok(v) => v, Err(e) => panic!(..) }` joins the ways the error was produced).  It is `undecided` when the only
thing known at the edge is the discriminant of a joined value (a phi): the rejection was decided somewhere the facts do not name;
the premise then records "not decided" instead of accusing code it cannot read (the one-way premises - the facts at the normal
return - still hold or fail on their own).  Anything else is `bad`: an edge under facts that do not imply a rejection."""
from .guard import N


def _base(t):
    for _ in range(8):
        if isinstance(t, tuple) and t and t[0] in ("fld", "dc", "deref", "ref", "as") and len(t) > 1 and isinstance(t[1], tuple):
            t = t[1]
        else:
            break
    return t


def opaque_discr(f):
    f = N(f) if not (isinstance(f, tuple) and f and f[0] in ("cmp", "or", "const", "is_some", "is_ok", "not")) else f
    if f[0] != "cmp":
        return False
    for side in (f[2], f[3]):
        if isinstance(side, tuple) and side and side[0] == "discr":
            b = _base(side[1])
            if isinstance(b, tuple) and b and b[0] == "opq":
                return True
    return False


def judge(facts, allowed):
    """allowed(list of facts) -> bool for a conjunction.  Returns 'ok' | 'undecided' | 'bad'."""
    facts = list(facts)
    if allowed(facts):
        return "ok"
    for f in facts:
        nf = f if (isinstance(f, tuple) and f and f[0] == "or") else None
        if nf is None:
            try:
                nf = N(f)
            except Exception:
                nf = f
        if isinstance(nf, tuple) and nf and nf[0] == "or" and all(allowed(list(alt) + [x for x in facts if x is not f]) for alt in nf[1]):
            return "ok"
    if any(opaque_discr(f) for f in facts):
        return "undecided"
    return "bad"
