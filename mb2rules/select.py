"""SELECT: "first element of an iterator that satisfies P, mapped by M" - recognised in every form the repository's
getters could reasonably take, and reduced to one description (iter, pred over ELEM, map over ELEM):

  A  iter.find(|x| P(x)).map(|x| M(x))                 (call terms; the polymorphic bodies, where std is not spliced)
  B  match/if-let/`?`/inlined map on iter.find(|x| P)   (two exits guarded by the discriminant of the find call)
  C  iter.find_map(|x| if P(x) { Some(M(x)) } else { None })   (closure with two exits; `P.then(|| M)` is this after INLINE,
     and a call term `bool::then` in polymorphic bodies)
  D  for x in iter { if P(x) { return Some(M(x)); } } None      (one loop around Iterator::next)

All four mean: walk the iterator in order, stop at the first x with P(x), return Some(M(x)); None if there is none.
For A-C that is the std contract of Iterator::find / find_map; for D it is read off the CFG (see `loop_form`)."""
from . import an
from . import chain as CH
from . import guard as G
from . import mir as M_
from .guard import N, arg, cn

ELEM = ("elem",)


def replace(t, old, new):
    if t == old:
        return new
    if not isinstance(t, tuple):
        return t
    r = tuple(replace(x, old, new) if isinstance(x, tuple) else x for x in t)
    if r and r[0] == "deref" and isinstance(r[1], tuple) and r[1] and r[1][0] == "ref":
        return r[1][1]
    return r


def closure_fn(F, clo, caller=None):
    """closure aggregate term -> its body (the caller's own monomorphic closure instance if the caller is an instance,
    else the polymorphic fn)"""
    if not isinstance(clo, tuple) or clo[0] != "aggr" or clo[1][0] != "closure":
        return None
    if caller is not None and caller.get("key") and caller.get("path") and clo[1][1].startswith(caller["path"]):
        k = caller["key"] + clo[1][1][len(caller["path"]):]
        if k in F.insts:
            return F.insts[k]
    cf = [c for k, c in F.insts.items() if c.get("path") == clo[1][1]]
    if len(cf) == 1:
        return cf[0]
    pf = [c for k, c in F.fns.items() if c.get("path") == clo[1][1]]
    if pf:
        return pf[0]
    return cf[0] if cf else None


def _bind_captures(t, clo):
    """closure body term -> caller terms for its captured values (arg1.i / *arg1.i)"""
    caps = clo[2]
    for i, c in enumerate(caps):
        t = replace(t, ("fld", ("deref", arg(1)), i), c)
        t = replace(t, ("fld", arg(1), i), c)
    return t


def option_exits(F, fn):
    """[(kind, payload N-term, own facts N)] of an Option-returning function, or None"""
    A = an.of(F, fn)
    out = []
    for e in CH.exits(A):
        if e.kind not in ("Some", "None"):
            # a call term that is an Option-valued std combinator left in a polymorphic body
            v = N(e.val)
            if v[0] == "call" and cn(v[1]) in ("core::bool::then", "core::bool::<impl bool>::then") and len(v[2]) == 2:
                cond, c2 = v[2]
                f2 = closure_fn(F, c2, fn)
                if f2 is None:
                    return None
                r2, _ = an.of(F, f2).ret()
                if r2 is None:
                    return None
                m = _bind_captures(N(r2), c2)
                out.append(("Some", m, [N(x) for x in e.own] + [G.cond_fact(cond, True)]))
                out.append(("None", None, [N(x) for x in e.own] + [G.cond_fact(cond, False)]))
                continue
            return None
        out.append((e.kind, N(e.payload) if e.payload is not None else None, [N(x) for x in e.own]))
    return out


def _is_iter_call(t, name):
    return t[0] == "call" and ("Iterator>::%s" % name in str(t[1]) or "Iterator::%s" % name in str(t[1]))


def analyse(F, fn):
    """-> (dict(iter=, pred=, map=, form=), None) or (None, reason)"""
    A = an.of(F, fn)
    b = A.body
    if b.back_edges():
        return loop_form(F, fn, A)
    ex = CH.exits(A)
    # ---- A / C as a single call term
    if len(ex) == 1:
        v = N(ex[0].val)
        if v[0] == "call" and cn(v[1]) == "core::option::Option::map" and len(v[2]) == 2 and _is_iter_call(v[2][0], "find"):
            fnd, mc = v[2]
            itarg, pc = fnd[2]
            pf, mf = closure_fn(F, pc, fn), closure_fn(F, mc, fn)
            if pf is None or (mf is None and mc[0] != "fn"):
                return None, "closures of find/map not found"
            pr, _ = an.of(F, pf).ret()
            if mc[0] == "fn":
                # `.map(Type::function)`: the mapper is a function item, M(x) = function(x)
                mr = ("call", mc[1], (arg(2),))
            else:
                mr, _ = an.of(F, mf).ret()
            if pr is None or mr is None:
                return None, "closure with several returns"
            pred = replace(_bind_captures(N(pr), pc), arg(2), ("ref", ELEM))
            mp = replace(_bind_captures(N(mr), mc) if mc[0] != "fn" else N(mr), arg(2), ELEM)
            return dict(iter=itarg, pred=G.cond_fact(pred, True), map=mp, form="find+map"), None
        if _is_iter_call(v, "find_map") and len(v[2]) == 2:
            itarg, c = v[2]
            cf = closure_fn(F, c, fn)
            if cf is None:
                return None, "closure of find_map not found"
            oe = option_exits(F, cf)
            r = _two_way(oe)
            if r is None:
                return None, "find_map closure is not `if P { Some(M) } else { None }`: %s" % (oe,)
            pred, mp = r
            pred = replace(_bind_captures(pred, c), arg(2), ELEM)
            mp = replace(_bind_captures(mp, c), arg(2), ELEM)
            return dict(iter=itarg, pred=pred, map=mp, form="find_map"), None
        return None, "single exit that is neither find().map() nor find_map(): %s" % G.show(v)[:160]
    # ---- B': `let x = iter.find(P)?; Some(M(x))` in a polymorphic body (the `?` is still a Try::branch call there)
    if len(ex) == 2:
        vs = [N(e.val) for e in ex]
        te = [v for v in vs if v[0] == "try_err" and _is_iter_call(v[1], "find")]
        so = [e for e in ex if e.kind == "Some"]
        if len(te) == 1 and len(so) == 1:
            FIND = te[0][1]
            itarg, pc = FIND[2]
            pf = closure_fn(F, pc, fn)
            pr = an.of(F, pf).ret()[0] if pf is not None else None
            if pr is not None:
                pred = replace(_bind_captures(N(pr), pc), arg(2), ("ref", ELEM))
                mp = replace(N(so[0].payload), ("try_ok", FIND), ELEM)
                return dict(iter=itarg, pred=G.cond_fact(pred, True), map=mp, form="find+?"), None
    # ---- B: two exits on the discriminant of a find call
    if len(ex) == 2:
        somes = [e for e in ex if e.kind == "Some"]
        nones = [e for e in ex if e.kind == "None"]
        if len(somes) == 1 and len(nones) == 1 and len(somes[0].own) == 1:
            f = N(somes[0].own[0])
            if f[0] == "cmp" and f[2][0] == "discr" and _is_iter_call(f[2][1], "find"):
                FIND = f[2][1]
                if not (CH.own_is_variant(somes[0], FIND, 1) and CH.own_is_variant(nones[0], FIND, 0)):
                    return None, "exits are not guarded by find() being Some / None"
                itarg, pc = FIND[2]
                pf = closure_fn(F, pc, fn)
                if pf is None:
                    return None, "closure of find not found"
                pr, _ = an.of(F, pf).ret()
                if pr is None:
                    return None, "predicate closure with several returns"
                pred = replace(_bind_captures(N(pr), pc), arg(2), ("ref", ELEM))
                mp = replace(N(somes[0].payload), CH.payload_of(FIND, 1), ELEM)
                return dict(iter=itarg, pred=G.cond_fact(pred, True), map=mp, form="find+match"), None
            if f[0] == "cmp" and f[2][0] == "discr" and _is_iter_call(f[2][1], "find_map"):
                FM = f[2][1]
                # match on find_map(..) that re-wraps its payload unchanged
                if CH.own_is_variant(somes[0], FM, 1) and CH.own_is_variant(nones[0], FM, 0) and N(somes[0].payload) == CH.payload_of(FM, 1):
                    itarg, c = FM[2]
                    cf = closure_fn(F, c, fn)
                    oe = option_exits(F, cf) if cf else None
                    r = _two_way(oe)
                    if r is not None:
                        pred, mp = r
                        return dict(iter=itarg, pred=replace(_bind_captures(pred, c), arg(2), ELEM), map=replace(_bind_captures(mp, c), arg(2), ELEM), form="find_map+match"), None
    return None, "%d exits, not a recognised first-match form: %s" % (len(ex), [G.show(N(e.val))[:80] for e in ex])


def _two_way(oe):
    """[(Some, M, [P]), (None, -, [not P])] -> (P, M)"""
    if not oe or len(oe) != 2:
        return None
    somes = [x for x in oe if x[0] == "Some"]
    nones = [x for x in oe if x[0] == "None"]
    if len(somes) != 1 or len(nones) != 1:
        return None
    ps, pn = somes[0][2], nones[0][2]
    if len(ps) != 1 or len(pn) != 1 or G.negate(ps[0]) != pn[0] and ps[0] != G.negate(pn[0]):
        return None
    return ps[0], somes[0][1]


def loop_form(F, fn, A):
    """for x in iter { if P(x) { return Some(M(x)) } } None  - read off the CFG:
       * exactly one loop; its only Iterator::next call is on a local initialised once, before the loop, from the iterator
       * exit None: exactly one, own guard `next() is None`
       * exit Some(M): exactly one, inside the loop, facts contain `next() is Some` and its own guard is P
       * the back edge is taken only under not P (the complementary edge of the same branch) - nothing else leaves the loop"""
    b = A.body
    be = b.back_edges()
    heads = {h for (_, h) in be}
    if len(heads) != 1:
        return None, "%d loops" % len(heads)
    head = next(iter(heads))
    loop = set()
    for (t, h) in be:
        loop |= b.loop_blocks(h, t)
    nexts = [(bb, t) for bb, t in b.calls() if bb in loop and "Iterator>::next" in (M_.callee_path(t) or "") + str(M_.callee_key(t))]
    if len(nexts) != 1:
        return None, "%d next() calls in the loop" % len(nexts)
    nbb, nt = nexts[0]
    NX = N(A.tb.call_value(nt, nbb))
    if NX[0] != "call" or len(NX[2]) != 1:
        return None, "next() term %s" % G.show(NX)[:100]
    it_ref = NX[2][0]
    # the iterator variable: &mut local initialised before the loop
    src = it_ref[1] if it_ref[0] == "ref" else it_ref
    if src[0] == "opq":
        # the iterator variable is advanced inside the loop, so at the call it is a loop-carried value: what the loop walks is
        # the variable's value on entry to the loop (read at the end of the loop's only outside predecessor)
        from . import seq as SQ
        L = SQ.VecEval(None, A).root_local(nt["args"][0])
        pre = [p_ for (p_, _l) in b.pred[head] if p_ not in loop]
        others = [bb_ for bb_, t_ in b.calls() if bb_ in loop and bb_ != nbb and any(SQ.VecEval(None, A).root_local(a_) == L for a_ in t_["args"])]
        if len(src) > 3 and src[1] == "phi" and src[3]:
            # a field of the receiver (`self.iter.next()`): its value on entry to the loop, provided that next() is the only thing
            # in the loop that can change it (no store through the receiver, no other call that is handed the receiver)
            from . import an as AN_
            root = src[2]
            stores = [1 for bb_ in loop for st_ in b.stmts(bb_) if st_["k"] == "assign" and st_["lhs"].get("l") == root]
            stores += [1 for bb_, t_ in b.calls() if bb_ in loop and (t_.get("dest") or {}).get("l") == root]
            handed = [bb_ for bb_, t_ in b.calls() if bb_ in loop and bb_ != nbb and any(SQ.VecEval(None, A).root_local(a_) == root for a_ in t_["args"])]
            if not stores and not handed:
                src = AN_.loop_entry_value(A, src, head, loop)
        elif L is not None and len(pre) == 1 and not others:
            src = N(A.tb.read(L, (), (pre[0], len(b.stmts(pre[0])))))
    ex = CH.exits(A)
    somes = [e for e in ex if e.kind == "Some"]
    nones = [e for e in ex if e.kind == "None"]
    if len(somes) != 1 or len(nones) != 1 or len(ex) != 2:
        return None, "exits: %s" % ex
    s, n = somes[0], nones[0]
    if not CH.own_is_variant(n, NX, 0):
        return None, "None exit is not guarded by next() == None: %s" % [G.show(x) for x in n.own]
    if s.bb not in loop and not any(b.dominates(x, s.bb) for x in loop if x != head):
        pass
    if not CH.guarded_by_variant(s.facts, NX, 1) or len(s.own) != 1:
        return None, "Some exit is not inside `next() is Some` with one own guard"
    P = N(s.own[0])
    if P[0] == "cmp" and P[2][0] == "discr" and P[2][1] == NX:
        return None, "Some exit has no predicate of its own"
    # every back edge source must carry not P (or be reached only through the complementary edge)
    notP = G.negate(P)
    for (t, h) in be:
        fs = [N(x) for x in A.g.facts_at(t)]
        if notP not in fs and not (G.entails(fs, notP) if notP[0] == "cmp" else False):
            return None, "back edge from bb%d is not under the negated predicate" % t
    # nothing else writes the iterator inside the loop: only next() may take it mutably
    elem = CH.payload_of(NX, 1)
    pred = replace(P, elem, ELEM)
    mp = replace(N(s.payload), elem, ELEM)
    return dict(iter=src, pred=pred, map=mp, form="loop", next=NX), None


# ---- matchers used by the getter rules ---------------------------------------------------------------------------------
def unref(t):
    """drop reference/dereference wrappers that do not change the place"""
    while isinstance(t, tuple) and t and t[0] in ("ref", "deref"):
        t = t[1]
    return t


def canon_place(t):
    """&*x -> x everywhere (reborrows)"""
    if not isinstance(t, tuple):
        return t
    r = tuple(canon_place(x) if isinstance(x, tuple) else x for x in t)
    if r and r[0] == "ref" and isinstance(r[1], tuple) and r[1] and r[1][0] == "deref":
        return r[1][1]
    if r and r[0] == "deref" and isinstance(r[1], tuple) and r[1] and r[1][0] == "ref":
        return r[1][1]
    if r and r[0] == "ref" and isinstance(r[1], tuple) and r[1] and r[1][0] == "ite":
        # &(if c { *a } else { *b })  ->  if c { a } else { b }
        return ("ite", r[1][1], canon_place(("ref", r[1][2])), canon_place(("ref", r[1][3])))
    return r


def is_id_const(t):
    """the constant T::ID as it appears in a polymorphic body: a promoted reference to it, or the associated constant itself"""
    t = unref(t)
    return isinstance(t, tuple) and len(t) >= 2 and t[0] == "cs" and ("promoted" in str(t[1]) or str(t[1]).endswith("Tag>::ID"))


def eq_sides(pred):
    """(a, b) if pred states a == b (a primitive comparison or a call of a PartialEq::eq impl), else None"""
    p = pred
    if p[0] == "cmp" and p[1] == "Eq":
        return p[2], p[3], None
    if p[0] == "istrue" and p[1][0] == "call" and str(p[1][1]).endswith("::eq") and len(p[1][2]) == 2:
        return p[1][2][0], p[1][2][1], p[1][1]
    return None


def is_cast_of_elem(mp, ty_suffix=None, poly=False, via_cast=False):
    """M(x) = x.cast::<T>()  (call term, or cast's own return term once the rules' inliner has looked into it)"""
    if mp[0] == "call" and cn(mp[1]) == "multiboot2_common::DynSizedStructure::cast" and mp[2] == (ELEM,):
        if poly:
            return str(mp[1]).endswith("::cast::<T>")
        return ty_suffix is None or ty_suffix in str(mp[1])
    if mp[0] == "fatptr" and mp[1] == ELEM and not poly and via_cast:
        # cast's own return term (the rules' term builder looks into single-return callees); only accepted when the
        # function really calls cast - a hand-built fat pointer skips cast's assertions (C15)
        return ty_suffix is None or str(mp[3]).endswith(ty_suffix)
    return False


def calls_cast_only(F, inst):
    """every fat pointer of `inst` (and its closures) comes from a call of DynSizedStructure::cast: it calls cast and never
    ptr_meta::from_raw_parts itself"""
    from . import mir as M2
    keys = [k for k in F.insts if k == inst.get("key") or k.startswith((inst.get("key") or "\0") + "::{closure")]
    saw_cast = False
    for k in keys:
        b = M2.Body(F.insts[k])
        for bb, t in b.calls():
            p = M2.callee_path(t) or ""
            if cn(M2.callee_key(t) or "") == "multiboot2_common::DynSizedStructure::cast":
                saw_cast = True
            if p.startswith("ptr_meta::from_raw_parts"):
                return False
    return saw_cast
