"""CLASSIFY: comparison-only integer classifiers as total tables.

Forward abstract interpretation with the exact domain "finite union of intervals of
the single input value".  Control may depend on the input only through comparisons
with constants (SwitchInt on the value, Lt/Le/Gt/Ge/Eq/Ne against constants); any
other switch is treated as a free choice (both successors inherit the set).  The
result is, for every assignment to the return place, the exact set of inputs for
which it executes - over the whole 2^N domain, by pieces.
"""
from . import mir as M
from . import terms as T
from . import guard as G


# ---------------------------------------------------------------- interval sets
def norm(iv):
    iv = sorted((a, b) for (a, b) in iv if a <= b)
    out = []
    for a, b in iv:
        if out and a <= out[-1][1] + 1:
            out[-1] = (out[-1][0], max(out[-1][1], b))
        else:
            out.append((a, b))
    return tuple(out)


def union(x, y):
    return norm(list(x) + list(y))


def inter(x, y):
    out = []
    for a, b in x:
        for c, d in y:
            lo, hi = max(a, c), min(b, d)
            if lo <= hi:
                out.append((lo, hi))
    return norm(out)


def minus(x, y):
    out = list(x)
    for c, d in y:
        nxt = []
        for a, b in out:
            if d < a or c > b:
                nxt.append((a, b))
            else:
                if a < c:
                    nxt.append((a, c - 1))
                if d < b:
                    nxt.append((d + 1, b))
        out = nxt
    return norm(out)


def size(x):
    return sum(b - a + 1 for a, b in x)


def fmt(x):
    return ",".join(("%d" % a if a == b else "%#x..=%#x" % (a, b)) for a, b in x) or "∅"


class Unrecognised(Exception):
    pass


def _subterms(t, acc=None):
    acc = acc if acc is not None else []
    if isinstance(t, tuple):
        acc.append(t)
        for x in t:
            if isinstance(x, tuple):
                _subterms(x, acc)
    return acc


def _replace(t, old, new):
    if t == old:
        return new
    if not isinstance(t, tuple):
        return t
    r = tuple(_replace(x, old, new) if isinstance(x, tuple) else x for x in t)
    # re-fold what the substitution made reducible: a field of the payload of a value now known to be that very variant,
    # and a dereference of a reference
    if r and r[0] == "fld" and len(r) > 2 and isinstance(r[1], tuple) and r[1] and r[1][0] == "dc" and isinstance(r[1][1], tuple) and r[1][1] and \
            r[1][1][0] == "aggr" and r[1][1][1][0] == "adt" and isinstance(r[2], int) and r[2] < len(r[1][1][2]):
        return r[1][1][2][r[2]]
    if r and r[0] == "deref" and len(r) == 2 and isinstance(r[1], tuple) and r[1] and r[1][0] == "ref" and len(r[1]) == 2:
        return r[1][1]
    return r


def classify(F, fn, input_term=None, domain=None, target=0, expand=True):
    """Returns (input_term, [(interval_set, outcome_term, bb)], tb).

    outcome_term is the term assigned to the return place in that piece."""
    body = M.Body(fn)
    tb = T.TB(F, body)
    # ---- find the input term: discriminant of the first non-expansion switch in RPO
    if input_term is None:
        # the classified value: the term most switches test (directly or through a comparison with a constant); the first one in
        # reverse post-order among equals.  (A function may branch once on something else first - e.g. on which layout a value was
        # read from - before classifying the value.)
        cands = []
        for b in body.rpo:
            t = body.term(b)
            if t["k"] == "switch":
                dt = G.strip(tb.operand(t["d"], (b, len(body.stmts(b)))))
                dt = _tested_term(dt)
                if dt[0] != "c":
                    cands.append(dt)
        if cands:
            best = max(set(cands), key=lambda c_: (cands.count(c_), -cands.index(c_)))
            input_term = best
    if input_term is None:
        raise Unrecognised("no switch found")
    if domain is None:
        ty = G.term_type(input_term) if input_term[0] != "discr" else None
        bits = T.INT_BITS.get(ty)
        if bits is None:
            raise Unrecognised("unknown input domain for %s" % (G.show(input_term),))
        domain = ((0, (1 << bits) - 1),)
    full = domain
    state = {0: full}
    for b in body.rpo:
        cur = state.get(b)
        if cur is None:
            continue
        t = body.term(b)
        at = (b, len(body.stmts(b)))
        if t["k"] == "switch":
            dt = G.strip(tb.operand(t["d"], at))
            handled = False
            if dt == input_term:
                handled = True
                taken = ()
                for v, tg in zip(t["vals"], t["ts"]):
                    s = inter(cur, ((v, v),))
                    taken = union(taken, ((v, v),))
                    if s:
                        state[tg] = union(state.get(tg, ()), s)
                s = minus(cur, taken)
                if s:
                    state[t["otherwise"]] = union(state.get(t["otherwise"], ()), s)
            elif dt[0] == "ite" and dt[2][0] == "c" and dt[3][0] == "c" and isinstance(dt[1], tuple) and dt[1] and dt[1][0] in ("cmp", "bin") and dt[1][1] in G.CMPS \
                    and _tested_term(("bin",) + tuple(dt[1][1:4])) == input_term:
                # a switch on `if input CMP c { k1 } else { k0 }` (the discriminant of a value chosen by that test)
                c_ = dt[1]
                x, y, op = G.strip(c_[2]), G.strip(c_[3]), c_[1]
                if y == input_term and x[0] == "c":
                    x, y, op = y, x, G.SWAP[op]
                k = y[1]
                INF = full[-1][1]
                sat = {"Eq": ((k, k),), "Ne": minus(full, ((k, k),)), "Lt": ((0, k - 1),) if k > 0 else (), "Le": ((0, k),),
                       "Gt": ((k + 1, INF),) if k < INF else (), "Ge": ((k, INF),)}[op]
                tr = inter(cur, norm(sat))
                fl = minus(cur, tr)
                handled = True
                for part, kv in ((tr, dt[2][1]), (fl, dt[3][1])):
                    if not part:
                        continue
                    tg = t["otherwise"]
                    for v, tgt in zip(t["vals"], t["ts"]):
                        if v == kv:
                            tg = tgt
                    state[tg] = union(state.get(tg, ()), part)
            elif dt[0] == "bin" and dt[1] in G.CMPS:
                x, y = G.strip(dt[2]), G.strip(dt[3])
                op = dt[1]
                if y == input_term and x[0] == "c":
                    x, y, op = y, x, G.SWAP[op]
                if x == input_term and y[0] == "c":
                    handled = True
                    c = y[1]
                    INF = full[-1][1]
                    sat = {"Eq": ((c, c),), "Ne": minus(full, ((c, c),)), "Lt": ((0, c - 1),), "Le": ((0, c),),
                           "Gt": ((c + 1, INF),), "Ge": ((c, INF),)}[op]
                    tr = inter(cur, norm(sat))
                    fl = minus(cur, tr)
                    # bool switch: vals [0] -> false target, otherwise -> true
                    for v, tg in zip(t["vals"], t["ts"]):
                        s = tr if v else fl
                        if s:
                            state[tg] = union(state.get(tg, ()), s)
                    other_true = 1 not in t["vals"]
                    s = tr if other_true else fl
                    if len(t["vals"]) == 2:
                        s = ()
                    if s:
                        state[t["otherwise"]] = union(state.get(t["otherwise"], ()), s)
            if not handled and dt[0] == "c" and len(t["vals"]) >= 1:
                # the test is decided (e.g. the discriminant of a value built as one variant): only that edge is taken
                handled = True
                tg = t["otherwise"]
                for v, tgt in zip(t["vals"], t["ts"]):
                    if v == dt[1]:
                        tg = tgt
                state[tg] = union(state.get(tg, ()), cur)
            if not handled and (dt[0] in ("ite", "un", "not", "discr") or (dt[0] in ("bin", "cmp") and dt[1] in G.CMPS)):
                # a boolean combination of tests of the input (`lo <= x && x <= hi`, RangeInclusive::contains): the set where it holds
                tr = _sat(dt, input_term, full)
                if tr is not None:
                    handled = True
                    tr = inter(cur, tr)
                    fl = minus(cur, tr)
                    for v, tg in zip(t["vals"], t["ts"]):
                        s_ = tr if v else fl
                        if s_:
                            state[tg] = union(state.get(tg, ()), s_)
                    s_ = () if len(t["vals"]) == 2 else (tr if 1 not in t["vals"] else fl)
                    if s_:
                        state[t["otherwise"]] = union(state.get(t["otherwise"], ()), s_)
            if not handled:
                if depends_on(dt, input_term):
                    raise Unrecognised("control depends on the input through %s" % G.show(dt))
                for (tg, _) in body.succ[b]:
                    state[tg] = union(state.get(tg, ()), cur)
        else:
            for (tg, _) in body.succ[b]:
                state[tg] = union(state.get(tg, ()), cur)
    # ---- outcomes: every assignment to _0
    pieces = []
    for site in tb.defs.get(target, []):
        kind, b, i, proj = site
        if b not in state:
            continue
        if proj and proj[0] == "*":
            continue
        if kind == "stmt":
            st = body.stmts(b)[i]
            if st["k"] != "assign" or proj:
                raise Unrecognised("return place written piecewise")
            val = tb.rvalue(st["rv"], (b, i), st)
        else:
            val = tb.call_value(body.term(b), b)
        pieces.append((state[b], val, b))
    # diverging pieces (panic arms)
    for b in sorted(body.reachable):
        if b in state and not body.succ[b] and body.term(b)["k"] not in ("return", "unreachable"):
            pieces.append((state[b], ("diverge", M.callee_path(body.term(b)) if body.term(b)["k"] == "call" else body.term(b)["k"]), b))
    # pieces that assign the same value are one piece (the same arm reached along several input-independent paths,
    # e.g. through the branches of a logging macro; THREAD duplicates the assignment per path)
    merged = []

    def _field_types(v):
        # N() forgets the declared type of a field projection; two reads at the same index of differently laid out structs
        # (`(*p32).addr` / `(*p64).addr`) are different values and must stay different pieces
        return sorted({(x[2], str(x[3]), str(x[4])) for x in _subterms(v) if isinstance(x, tuple) and len(x) > 4 and x[0] == "fld"})
    for (s_, v_, b_) in pieces:
        nv = G.N(v_)
        for j_, (s2, v2, b2) in enumerate(merged):
            if G.N(v2) == nv and _field_types(v2) == _field_types(v_):
                merged[j_] = (union(s2, s_), v2, b2)
                break
        else:
            merged.append((s_, v_, b_))
    # re-check: merging must not hide a real overlap between *different* values
    pieces = merged
    if expand:
        # an arm whose value still depends on a local chosen by the same classification
        # (`let t = match x {..}; Wrap(t)`): classify that local on the arm's interval and substitute
        out = []
        for (s_, v_, b_) in pieces:
            phis = {x for x in _subterms(v_) if isinstance(x, tuple) and len(x) > 3 and x[0] == "opq" and x[1] == "phi"}
            if len(phis) == 1 and s_:
                ph = next(iter(phis))
                try:
                    _, sub, _ = classify(F, fn, input_term=input_term, domain=s_, target=ph[2], expand=False)
                except Unrecognised:
                    sub = None
                if sub and all(x[1][0] != "diverge" for x in sub):
                    for (s2, v2, b2) in sub:
                        out.append((s2, _replace(v_, ph, v2), b_))
                    continue
            out.append((s_, v_, b_))
        pieces = out
    # a piece whose value is still a gated choice on the input (`if x == c { a } else { b }` joined before the assignment)
    # is the two pieces it stands for
    for _ in range(8):
        out = []
        again = False
        for (s_, v_, b_) in pieces:
            sp = _split_ite(v_, input_term, s_, full) if s_ and v_[0] != "diverge" else None
            if sp is None:
                out.append((s_, v_, b_))
            else:
                again = True
                for (s2, v2) in sp:
                    if s2:
                        out.append((s2, v2, b_))
        pieces = out
        if not again:
            break
    # exclusivity / totality
    cov = ()
    for (s, _, _) in pieces:
        if inter(cov, s):
            raise Unrecognised("overlapping pieces (merged arms?): %s" % [(fmt(s_), G.show(v_)[:60], b_) for (s_, v_, b_) in pieces][:12])
        cov = union(cov, s)
    if minus(full, cov):
        raise Unrecognised("pieces do not cover the domain: missing %s" % fmt(minus(full, cov)))
    return input_term, pieces, tb


def _sat(dt, input_term, full):
    """interval set of the inputs for which the boolean term dt is true; None when dt is not a boolean combination of
    comparisons of the input with constants"""
    dt = G.strip(dt)
    INF = full[-1][1]
    if dt[0] == "c":
        return full if dt[1] else ()
    if dt[0] in ("bin", "cmp") and dt[1] in G.CMPS:
        x, y, op = G.strip(dt[2]), G.strip(dt[3]), dt[1]
        if y == input_term and x[0] == "c":
            x, y, op = y, x, G.SWAP[op]
        if x[0] == "discr" and y[0] == "c" and y[1] in (0, 1) and op in ("Eq", "Ne"):
            # `opt.is_some()` on an Option whose discriminant is itself decidable (a table lookup)
            d_ = _sat(x, input_term, full)
            if d_ is None:
                return None
            return d_ if (op == "Eq") == (y[1] == 1) else minus(full, d_)
        if x == input_term and y[0] == "c":
            k = y[1]
            sat = {"Eq": ((k, k),) if 0 <= k <= INF else (), "Ne": minus(full, ((k, k),)), "Lt": ((0, k - 1),) if k > 0 else (), "Le": ((0, min(k, INF)),) if k >= 0 else (),
                   "Gt": ((k + 1, INF),) if k < INF else (), "Ge": ((max(k, 0), INF),) if k <= INF else ()}[op]
            return inter(full, norm(sat))
        return None
    if dt[0] == "ite":
        c_, a_, b_ = _sat(dt[1], input_term, full), _sat(dt[2], input_term, full), _sat(dt[3], input_term, full)
        if c_ is None or a_ is None or b_ is None:
            return None
        return union(inter(c_, a_), inter(minus(full, c_), b_))
    if dt[0] == "discr" and dt[1][0] == "optderef":
        return _sat(("discr", dt[1][1]), input_term, full)        # Option<&T>::copied keeps the variant
    if dt[0] == "discr" and dt[1][0] == "call" and G.cn(dt[1][1]) == "core::slice::get" and "::get::<usize>" in str(dt[1][1]) and len(dt[1][2]) == 2:
        # TABLE.get(input) is Some (discriminant 1) exactly when input < TABLE.len()   (std contract; constant table)
        try:
            n_ = G.lin(("len", dt[1][2][0]))
        except Exception:
            return None
        if n_.is_const():
            return _sat(("cmp", "Lt", dt[1][2][1], ("c", n_.c)), input_term, full)
        return None
    if (dt[0] == "un" and dt[1] == "Not") or dt[0] == "not":
        x_ = _sat(dt[2] if dt[0] == "un" else dt[1], input_term, full)
        return None if x_ is None else minus(full, x_)
    return None


def _tested_term(dt):
    """the non-constant side of a comparison with a constant (else the term itself); through a constant-valued choice on such a
    comparison"""
    if isinstance(dt, tuple) and dt and dt[0] == "ite" and isinstance(dt[1], tuple) and dt[1] and dt[1][0] in ("cmp", "bin"):
        return _tested_term(("bin",) + tuple(dt[1][1:4]))
    if isinstance(dt, tuple) and dt and dt[0] == "bin" and dt[1] in G.CMPS:
        x, y = G.strip(dt[2]), G.strip(dt[3])
        return y if x[0] == "c" else x
    return dt


def _split_ite(v, input_term, dom, full):
    """first `ite(input CMP const, a, b)` inside v -> [(dom & sat, v[ite:=a]), (dom - sat, v[ite:=b])], else None"""
    for x in _subterms(v):
        if not (isinstance(x, tuple) and len(x) == 4 and x[0] == "ite"):
            continue
        c = x[1]
        if not (isinstance(c, tuple) and c and c[0] in ("cmp", "bin") and c[1] in G.CMPS):
            continue
        l, r = G.strip(c[2]), G.strip(c[3])
        op = c[1]
        if r == input_term and l[0] == "c":
            l, r, op = r, l, G.SWAP[op]
        if not (l == input_term and r[0] == "c"):
            continue
        k = r[1]
        INF = full[-1][1]
        sat = {"Eq": ((k, k),), "Ne": minus(full, ((k, k),)), "Lt": ((0, k - 1),) if k > 0 else (), "Le": ((0, k),),
               "Gt": ((k + 1, INF),) if k < INF else (), "Ge": ((k, INF),)}[op]
        tr = inter(dom, norm(sat))
        fl = minus(dom, tr)
        return [(tr, _replace(v, x, x[2])), (fl, _replace(v, x, x[3]))]
    return None


def expand_tables(F, fn, it, pieces):
    """pieces whose value is a read of a constant table at an index linear in the input become one piece per input value
    (the value SLICE-normalised under the piece's interval); other pieces are returned unchanged"""
    from . import an, slices as SL
    A = an.of(F, fn)
    nit = G.N(it)
    out = []
    for (iv, val, bb) in pieces:
        if not iv or val[0] == "diverge" or size(iv) > 4096:
            out.append((iv, val, bb))
            continue
        lo, hi = iv[0][0], iv[-1][1]
        facts = [("cmp", "Ge", nit, ("c", lo)), ("cmp", "Le", nit, ("c", hi))]
        try:
            v = SL.Norm(facts, A).norm(G.N(val))
        except Exception:
            out.append((iv, val, bb))
            continue
        tbl = None
        for x in _subterms(v):
            if isinstance(x, tuple) and x and x[0] == "elem":
                T_ = x[1]
                for _ in range(4):
                    if T_[0] in ("ref", "deref", "unsize"):
                        T_ = T_[1]
                if T_[0] == "aggr" and T_[1] == ("array",):
                    tbl = (x, T_[2])
        if tbl is None:
            out.append((iv, val, bb))
            continue
        x, elems = tbl
        try:
            lf = G.lin(x[2])
        except Exception:
            out.append((iv, val, bb))
            continue
        if set(lf.m.keys()) - {nit} or lf.m.get(nit) != 1:
            out.append((iv, val, bb))
            continue
        ok = True
        new = []
        for (a, b_) in iv:
            for k in range(a, b_ + 1):
                i = k + lf.c
                if not (0 <= i < len(elems)):
                    ok = False
                    break
                ev = elems[i]
                if ev[0] == "cs" and len(ev) > 3 and not ev[3]:
                    ev = ("aggr", ("adt", str(ev[1]).rsplit("::", 1)[0], ev[2], ()), ())
                vv = _replace(v, ("deref", ("ref", x)), ev)
                vv = _replace(vv, ("deref", x), ev)
                vv = _replace(vv, ("ref", x), ("ref", ev))
                vv = _replace(vv, x, ev)
                new.append((((k, k),), vv, bb))
        out += new if ok else [(iv, val, bb)]
    return out


def classify_by_exits(F, fn, domain, input_term=None):
    """A second route to the same table, for functions that are decision lists rather than switch trees: every exit's path
    condition (SLICE-normalised) is a conjunction of comparisons of the input with constants -> an interval set; its value is
    the piece's outcome.  A value `TABLE[input - c]` over a constant table is expanded to one piece per input value.
    Returns (input_term, pieces) or raises Unrecognised."""
    from . import an, chain as CH, slices as SL
    A = an.of(F, fn)
    ex = CH.exits(A)
    if not ex:
        raise Unrecognised("no exits")
    pcs = {}
    for e in ex:
        pcs[id(e)] = SL.norm_facts([G.N(f) for f in e.facts], A)
    if input_term is None:
        # the classified value: the term most path conditions compare with constants
        cands = []
        for e in ex:
            for f in pcs[id(e)]:
                if f[0] == "cmp" and (f[2][0] == "c") != (f[3][0] == "c"):
                    cands.append(f[3] if f[2][0] == "c" else f[2])
        if not cands:
            raise Unrecognised("no exit compares anything with a constant")
        input_term = max(set(cands), key=lambda c_: (cands.count(c_), -cands.index(c_)))
    it_raw = ("arg", 1, A.body.local_ty(1)) if input_term == ("arg", 1) else input_term
    full = domain
    INF = full[-1][1]
    pieces = []
    for e in ex:
        pc = pcs[id(e)]
        cur = full

        def sat_of(f):
            """inputs satisfying fact / boolean term f; None = f does not constrain the input"""
            if f[0] in ("cmp", "bin") and f[1] in G.CMPS:
                a, b_, op = G.strip(f[2]), G.strip(f[3]), f[1]
                if b_ == input_term and a[0] == "c":
                    a, b_, op = b_, a, G.SWAP[op]
                if a == input_term and b_[0] == "c":
                    k = b_[1]
                    return norm({"Eq": ((k, k),), "Ne": minus(full, ((k, k),)), "Lt": ((0, k - 1),) if k > 0 else (), "Le": ((0, min(k, INF)),),
                                 "Gt": ((k + 1, INF),) if k < INF else (), "Ge": ((k, INF),) if k <= INF else ()}[op])
                if depends_on(f, input_term):
                    # linear in the input: (input + c1) CMP c2
                    try:
                        d_ = G.lin(a).add(G.lin(b_), -1)
                    except Exception:
                        d_ = None
                    if d_ is not None and set(d_.m.keys()) == {input_term} and d_.m[input_term] in (1, -1):
                        co = d_.m[input_term]
                        # co*x + c  OP  0
                        c0 = d_.c
                        opx = op if co == 1 else G.SWAP[op]
                        k = -c0 if co == 1 else c0        # x OPX k
                        if k < 0:
                            return full if opx in ("Gt", "Ge", "Ne") else ()
                        return norm({"Eq": ((k, k),), "Ne": minus(full, ((k, k),)), "Lt": ((0, k - 1),) if k > 0 else (), "Le": ((0, min(k, INF)),),
                                     "Gt": ((k + 1, INF),) if k < INF else (), "Ge": ((k, INF),) if k <= INF else ()}[opx])
                    raise Unrecognised("%s is not a comparison of the input with a constant" % G.show(f)[:80])
                return None
            if f[0] == "istrue":
                return sat_of(f[1])
            if f[0] == "not":
                s_ = sat_of(f[1])
                return None if s_ is None else minus(full, s_)
            if f[0] == "ite" and f[3] in (("c", 0), ("c", False)):
                s1, s2 = sat_of(f[1]), sat_of(f[2])
                if s1 is None and s2 is None:
                    return None
                return inter(s1 if s1 is not None else full, s2 if s2 is not None else full)
            if f[0] == "const":
                return full if f[1] else ()
            if depends_on(f, input_term):
                raise Unrecognised("path condition on the input that is not a comparison: %s" % G.show(f)[:80])
            return None
        for f in pc:
            if f[0] == "or":
                continue        # a disjunction (merge fact) only weakens the condition; overlaps are detected below
            s_ = sat_of(f)
            if s_ is not None:
                cur = inter(cur, s_)
        if not cur:
            continue
        v = SL.Norm([f for f in pc if f[0] == "cmp"], A).norm(G.N(e.val))
        # TABLE[input - c]
        tbl = None
        for x in _subterms(v):
            if isinstance(x, tuple) and x and x[0] == "elem":
                T_ = x[1]
                for _ in range(4):
                    if T_[0] in ("ref", "deref", "unsize"):
                        T_ = T_[1]
                if T_[0] == "aggr" and T_[1] == ("array",):
                    tbl = (x, T_[2])
        if tbl is None:
            pieces.append((cur, e.val, e.bb))
            continue
        x, elems = tbl
        try:
            lf = G.lin(x[2])
        except Exception:
            raise Unrecognised("table index %s" % G.show(x[2])[:60])
        if set(lf.m.keys()) - {input_term} or lf.m.get(input_term) != 1:
            raise Unrecognised("table index is not `input - c`: %s" % G.show(x[2])[:60])
        if size(cur) > 4096:
            raise Unrecognised("table lookup over %d inputs" % size(cur))
        for (lo, hi) in cur:
            for val in range(lo, hi + 1):
                i = val + lf.c
                if not (0 <= i < len(elems)):
                    raise Unrecognised("table index %d out of range for input %d" % (i, val))
                ev = elems[i]
                if ev[0] == "cs" and len(ev) > 2:
                    ev = ("aggr", ("adt", str(ev[1]).rsplit("::", 1)[0], ev[2], ()), ()) if not ev[3] else ev
                pieces.append((((val, val),), _replace(v, x, ev) if v != ("deref", x) and v != x else ev, e.bb))
    cov = ()
    for (s_, _, _) in pieces:
        if inter(cov, s_):
            raise Unrecognised("overlapping exits")
        cov = union(cov, s_)
    if minus(full, cov):
        raise Unrecognised("exits do not cover the domain: missing %s" % fmt(minus(full, cov)))
    return it_raw, pieces


def depends_on(t, x):
    if t == x:
        return True
    if isinstance(t, tuple):
        return any(depends_on(y, x) for y in t if isinstance(y, tuple))
    return False


def variant_of(val):
    """('variant', adt_path, name, payload_ops) for an aggregate/const enum value, else None"""
    if val[0] == "aggr" and val[1][0] == "adt":
        return ("variant", val[1][1], val[1][2], val[2])
    if val[0] == "cs" and len(val) >= 3:
        return ("variant", None, val[2], ())
    return None
