"""Functions the rules know as units by their ROLE rather than by their name: a refactoring may rename them, and a renamed unit
must not be treated as an unknown helper (spliced into its callers), or the rules that are stated on the unit lose their subject.

A role is recognised from types only (signature and the ADTs involved), never from the body: what the body does is what the
rules then decide."""

I32 = "multiboot2::elf_sections::ElfSectionInner32"
I64 = "multiboot2::elf_sections::ElfSectionInner64"
SEC = "multiboot2::elf_sections::ElfSection"


def elf_enum(F):
    """the private enum of two references (&ElfSectionInner32 | &ElfSectionInner64) that replaces `&dyn ElfSectionInner`, whatever
    it is called -> adt or None"""
    hits = []
    for k, a in F.adts.items():
        if a.get("kind") != "enum" or len(a.get("variants", [])) != 2 or not str(a.get("path", "")).startswith("multiboot2::elf_sections::"):
            continue
        fts = [v.get("fields", []) for v in a["variants"]]
        if all(len(x) == 1 for x in fts) and {fts[0][0], fts[1][0]} == {"&" + I32, "&" + I64}:
            if a.get("path") not in [h.get("path") for h in hits]:
                hits.append(a)
    return hits[0] if len(hits) == 1 else None


def elf_decoder(F, table=None):
    """the one inherent method of ElfSection taking only `&self` that answers the layout-specific view of the header the section
    points at (`get` in the reference form): its return type is `&dyn <private trait>` or the enum of elf_enum -> key or None"""
    en = elf_enum(F)
    want = []
    if en is not None:
        want.append(en["path"])
    hits = []
    for k, v in (table if table is not None else F.insts).items():
        if v.get("impl_self_path") != SEC or v.get("impl_trait") or not v.get("body") or v.get("closure"):
            continue
        b = v["body"]
        if b.get("argc") != 1:
            continue
        rt = str(b["locals"][0]["ty"])
        base = rt.split("<")[0]
        if base in want or (rt.startswith("&dyn multiboot2::elf_sections::") or rt.startswith("&'_ dyn multiboot2::elf_sections::")):
            hits.append(k)
    return hits[0] if len(hits) == 1 else None


BR = "multiboot2_common::bytes_ref::BytesRef"


def bytesref_ctors(F, table=None):
    """the validating constructors of BytesRef<H>: functions of BytesRef (the TryFrom impl, or an inherent `new` it may forward to)
    taking one `&[u8]` and answering Result<BytesRef<H>, MemoryError> -> instance keys"""
    out = []
    for k, v in (table if table is not None else F.insts).items():
        if v.get("impl_self_path") != BR or v.get("closure") or not v.get("body"):
            continue
        b = v["body"]
        if b.get("argc") != 1:
            continue
        rt, at = str(b["locals"][0]["ty"]), str(b["locals"][1]["ty"])
        if at == "&[u8]" and rt.startswith("core::result::Result<" + BR + "<") and "MemoryError" in rt:
            out.append(k)
    return out


def units(F):
    """keys of F.insts that are units by role"""
    out = set()
    k = elf_decoder(F)
    if k is not None:
        out.add(k)
    out.update(bytesref_ctors(F))
    return out
