"""PANIC / ARITH: census of panic edges and of profile-dependent arithmetic in the instances
reachable from an entry point, with the discharge rules of DESIGN.md §3.4/§3.5.

A *site* is one of
  overflow   Assert(Overflow(op,a,b)) / OverflowNeg           (panics only with overflow checks: profile dependent)
  unchecked  AddUnchecked/SubUnchecked/MulUnchecked/Shl/ShrUnchecked binop (UB on overflow)
  divzero    Assert(DivisionByZero / RemainderByZero)          (panics in every profile)
  bounds     Assert(BoundsCheck)
  explicit   call of a diverging function (panic!, assert!, unreachable!, unwrap_failed ...)
  maypanic   call of a std function that may panic (unwrap, expect, Index::index, ...)
  unknown    call of a std/extern function that is on neither list (fail closed: may panic)
"""
from . import an
from . import guard as G
from . import mir as M
from . import terms as T

TOTAL_PREFIXES = (
    "core::mem::size_of", "core::mem::align_of", "core::mem::size_of_val",
    "core::slice::<impl [T]>::len", "core::slice::<impl [T]>::as_ptr", "core::slice::<impl [T]>::as_mut_ptr",
    "core::slice::<impl [T]>::iter", "core::slice::<impl [T]>::get", "core::slice::<impl [T]>::ends_with",
    "core::slice::<impl [T]>::is_empty", "core::slice::<impl [T]>::first", "core::slice::<impl [T]>::last",
    "core::slice::iter::", "<core::slice::iter::", "core::slice::cmp::",
    "core::str::<impl str>::as_bytes", "core::str::<impl str>::len", "core::str::<impl str>::as_ptr",
    "core::str::converts::from_utf8", "core::ffi::c_str::CStr::from_bytes_until_nul", "core::ffi::c_str::CStr::to_str",
    "core::ptr::const_ptr::<impl *const T>::", "core::ptr::mut_ptr::<impl *mut T>::", "core::ptr::non_null::NonNull::<T>::",
    "core::ptr::copy_nonoverlapping", "core::ptr::metadata::", "ptr_meta::from_raw_parts",
    "core::slice::raw::from_raw_parts", "core::slice::from_raw_parts",
    "core::option::Option::<T>::as_ref", "core::option::Option::<T>::map", "core::option::Option::<T>::ok_or",
    "core::option::Option::<T>::map_or_else", "core::option::Option::<&T>::cloned", "core::option::Option::<T>::is_some",
    "core::option::Option::<T>::is_none", "core::option::Option::<T>::and_then", "core::option::Option::<T>::unwrap_or",
    "core::option::Option::<T>::filter", "core::option::Option::<T>::copied", "core::option::Option::<&T>::copied",
    "core::option::Option::<T>::ok_or_else", "core::option::Option::<T>::map_or",
    "core::result::Result::<T, E>::map", "core::result::Result::<T, E>::map_err", "core::result::Result::<T, E>::ok",
    "core::result::Result::<T, E>::is_ok", "core::result::Result::<T, E>::is_err", "core::result::Result::<T, E>::and_then",
    "<core::result::Result<T, E> as core::ops::try_trait::Try>::branch",
    "<core::result::Result<T, F> as core::ops::try_trait::FromResidual<core::result::Result<core::convert::Infallible, E>>>::from_residual",
    "<core::option::Option<T> as core::ops::try_trait::Try>::branch",
    "<core::option::Option<T> as core::ops::try_trait::FromResidual<core::option::Option<core::convert::Infallible>>>::from_residual",
    "core::iter::traits::iterator::Iterator::find", "core::iter::traits::iterator::Iterator::map",
    "core::iter::traits::iterator::Iterator::filter", "core::iter::traits::iterator::Iterator::take",
    "core::iter::traits::iterator::Iterator::for_each", "core::iter::traits::iterator::Iterator::position",
    "core::iter::traits::iterator::Iterator::any", "core::iter::traits::iterator::Iterator::all",
    "core::iter::traits::iterator::Iterator::copied", "core::iter::traits::iterator::Iterator::cloned",
    "core::iter::traits::iterator::Iterator::enumerate", "core::iter::traits::iterator::Iterator::skip",
    "<core::iter::adapters::", "<I as core::iter::traits::collect::IntoIterator>::into_iter",
    "<&'a alloc::vec::Vec<T, A> as core::iter::traits::collect::IntoIterator>::into_iter",
    "core::num::<impl u8>::wrapping_", "core::num::<impl u16>::wrapping_", "core::num::<impl u32>::wrapping_",
    "core::num::<impl u64>::wrapping_", "core::num::<impl usize>::wrapping_",
    "core::num::<impl u8>::to_", "core::num::<impl u16>::to_", "core::num::<impl u32>::to_", "core::num::<impl u64>::to_",
    "core::num::<impl u16>::from_", "core::num::<impl u32>::from_", "core::num::<impl u64>::from_",
    "core::num::<impl u32>::checked_", "core::num::<impl u64>::checked_", "core::num::<impl usize>::checked_",
    "core::num::<impl u32>::saturating_", "core::num::<impl u64>::saturating_", "core::num::<impl usize>::saturating_",
    "core::num::<impl usize>::min", "core::num::<impl usize>::is_multiple_of",
    "core::cmp::impls::", "core::cmp::PartialEq::", "core::cmp::PartialOrd::", "core::cmp::Ord::", "core::cmp::min", "core::cmp::max",
    "core::array::equality::", "core::array::<impl core::cmp::", "core::tuple::<impl core::cmp::",
    "core::clone::impls::", "core::clone::Clone::clone", "<core::marker::PhantomData<T> as ",
    "<[T] as core::convert::AsRef<[T]>>::as_ref", "<T as core::convert::Into<U>>::into", "<T as core::convert::TryInto<U>>::try_into",
    "core::convert::num::", "core::array::<impl core::convert::TryFrom<&'a [T]> for &'a [T; N]>::try_from",
    "core::array::<impl core::convert::TryFrom<&[T]> for [T; N]>::try_from",
    "<alloc::boxed::Box<T, A> as core::ops::deref::Deref>::deref", "<alloc::vec::Vec<T, A> as core::ops::deref::Deref>::deref",
    "core::fmt::", "log::", "<u8 as core::default::Default>::default",
    "<core::ffi::c_str::FromBytesUntilNulError as core::clone::Clone>::clone", "<core::str::error::Utf8Error as core::clone::Clone>::clone",
    "core::intrinsics::", "core::hint::", "core::alloc::layout::Layout::from_size_align",
    "core::slice::<impl [T]>::windows",   # panics only for size 0; the argument is checked to be a non-zero constant below
    "bitflags::",
)
# allocation: failure aborts (not a panic, not claimed); push may reallocate
ALLOC_PREFIXES = ("alloc::alloc::alloc", "alloc::boxed::Box::<T>::from_raw", "alloc::vec::Vec::<T, A>::push", "alloc::vec::Vec::<T>::new",
                  "alloc::vec::Vec::<T, A>::as_slice", "<alloc::vec::Vec<T, A> as core::iter::traits::collect::Extend<&'a T>>::extend",
                  "alloc::alloc::dealloc", "alloc::alloc::handle_alloc_error")
MAYPANIC = {
    "core::option::Option::<T>::unwrap": "Option::unwrap", "core::option::Option::<T>::expect": "Option::expect",
    "core::result::Result::<T, E>::unwrap": "Result::unwrap", "core::result::Result::<T, E>::expect": "Result::expect",
    "core::slice::index::<impl core::ops::index::Index<I> for [T]>::index": "slice index",
    "core::slice::<impl [T]>::copy_from_slice": "copy_from_slice", "core::slice::<impl [T]>::split_at": "split_at",
    "core::iter::traits::iterator::Iterator::sum": "sum (overflow)", "core::iter::traits::iterator::Iterator::count": "count",
    "<core::slice::iter::Iter<'a, T> as core::iter::traits::iterator::Iterator>::fold": None,
}
DIVERGING_PREFIXES = ("core::panicking::", "core::option::unwrap_failed", "core::option::expect_failed",
                      "core::result::unwrap_failed", "core::slice::index::slice_", "core::str::slice_error_fail",
                      "alloc::alloc::handle_alloc_error", "alloc::raw_vec::capacity_overflow", "core::cell::panic_")


class Site:
    def __init__(self, inst, bb, kind, what, terms=(), span=""):
        self.inst, self.bb, self.kind, self.what, self.terms, self.span = inst, bb, kind, what, terms, span
        self.status = None      # 'discharged' | 'open'
        self.how = ""

    def key(self):
        """semantic key: function key + kind + operator + operand terms (no positions)"""
        return "%s|%s|%s|%s" % (self.inst["key"] if "key" in self.inst else self.inst["path"], self.kind, self.what,
                                ",".join(G.show(t) for t in self.terms))


def closure(F, entries):
    """all instance keys reachable from the entry keys through the instance graph (std included)"""
    seen = set()
    st = list(entries)
    while st:
        k = st.pop()
        if k in seen:
            continue
        seen.add(k)
        n = F.graph.get(k)
        if not n:
            continue
        for e in n.get("edges", []):
            if "to" in e and e["to"] not in seen:
                st.append(e["to"])
    return seen


def repo_closure(F, entries, exclude=()):
    return sorted(k for k in closure(F, entries) if k in F.insts and not any(x in k for x in exclude))


def max_of(t):
    try:
        lf = G.lin(t)
    except Exception:
        return None
    from .props import c14
    return c14.upper_bound(t)


def min_of(t):
    try:
        return G.min_value(G.lin(t))
    except Exception:
        return None


def type_max(ty):
    b = T.INT_BITS.get(ty)
    if b is None:
        return None
    return (1 << b) - 1 if T.is_uint(ty) else (1 << (b - 1)) - 1


def discharge_overflow(A, bb, op, a, b, ty):
    """R1..R4 for an overflow site; returns how-string or None"""
    facts = A.g.facts_at(bb)
    if a[0] == "c" and b[0] == "c":
        return "R1 constant operands"
    tmax = type_max(ty)
    if op in ("Sub", "SubUnchecked"):
        sa, sb = G.strip(a), G.strip(b)
        if sa[0] == "max" and (G.strip(sa[1]) == sb or G.strip(sa[2]) == sb):
            return "R2 max(x, y) - y: the minuend is at least y by construction"
        if sb[0] == "bin" and sb[1] in ("Mul", "MulUnchecked"):
            for q, d in ((G.strip(sb[2]), G.strip(sb[3])), (G.strip(sb[3]), G.strip(sb[2]))):
                if q[0] == "bin" and q[1] == "Div" and G.strip(q[2]) == sa and G.strip(q[3]) == d:
                    return "R2 a - (a / d) * d: the subtrahend is at most a (floor division)"
        j = G.entails(facts, ("cmp", "Ge", a, b))
        if j is not None:
            return "R2 fact a >= b: %s" % [G.show(facts[i]) for i in j[1]]
        return None
    if op in ("Mul", "MulUnchecked"):
        sa, sb = G.strip(a), G.strip(b)
        for q, d in ((sa, sb), (sb, sa)):
            if q[0] == "bin" and q[1] == "Div" and G.strip(q[3]) == d:
                return "R3 (a / d) * d <= a: the product is at most the dividend, which is a value of the same type"
    if op in ("Add", "AddUnchecked", "Mul", "MulUnchecked") and tmax is not None:
        t = ("bin", "Add" if op.startswith("Add") else "Mul", a, b, ty)
        hi = max_of(t)
        if hi is not None and hi <= tmax:
            return "R3 type ranges: max %d <= %s::MAX" % (hi, ty)
        # with facts: a + b <= something bounded
        # try to entail  tmax - (a+b) >= 0
        if op.startswith("Add"):
            j = G.entails(facts, ("cmp", "Le", t, ("c", tmax)))
            if j is not None:
                return "R3/R4 bounded by facts %s" % [G.show(facts[i]) for i in j[1]]
        return None
    if op in ("Shl", "Shr", "ShlUnchecked", "ShrUnchecked"):
        bits = T.INT_BITS.get(ty)
        if b[0] == "c" and bits and 0 <= b[1] < bits:
            return "R1 constant shift < %d" % bits
    return None


def sites_of(F, inst):
    """all panic / arithmetic sites of one instance, each with discharge status"""
    A = an.of(F, inst)
    body, tb = A.body, A.tb
    out = []
    for bb in sorted(body.reachable):
        at_end = (bb, len(body.stmts(bb)))
        # unchecked binops in statements
        for si, st in enumerate(body.stmts(bb)):
            if st["k"] == "assign" and st["rv"]["k"] == "bin" and st["rv"]["op"].endswith("Unchecked"):
                rv = st["rv"]
                a = tb.operand(rv["a"], (bb, si))
                b = tb.operand(rv["b"], (bb, si))
                s = Site(inst, bb, "unchecked", rv["op"], (a, b), st.get("span", ""))
                how = discharge_overflow(A, bb, rv["op"], a, b, rv.get("aty"))
                s.status, s.how = ("discharged", how) if how else ("open", "unchecked arithmetic without a bounding fact")
                out.append(s)
        t = body.term(bb)
        k = t["k"]
        if k == "assert":
            msg = t["msg"]
            ops = [tb.operand(o, at_end) for o in t.get("ops", [])]
            if msg.startswith("Overflow("):
                op = msg[len("Overflow("):-1]
                # operand type: from the WithOverflow statement feeding cond
                ty = None
                for st in body.stmts(bb):
                    if st["k"] == "assign" and st["rv"]["k"] == "bin" and st["rv"]["op"].endswith("WithOverflow"):
                        ty = st["rv"].get("aty")
                s = Site(inst, bb, "overflow", op, tuple(ops), t.get("span", ""))
                how = discharge_overflow(A, bb, op, ops[0], ops[1], ty) if len(ops) == 2 else None
                if how is None:
                    ct = tb.operand(t["cond"], at_end)
                    f = G.cond_fact(ct, bool(t["expected"]))
                    if f[0] == "const" and f[1]:
                        how = "R1 the overflow condition is constant false (e.g. constant shift amount below the bit width)"
                s.status, s.how = ("discharged", how) if how else ("open", "no fact bounds the operation: with overflow checks it panics, without it wraps")
                out.append(s)
            elif msg in ("DivisionByZero", "RemainderByZero"):
                s = Site(inst, bb, "divzero", msg, tuple(ops), t.get("span", ""))
                ct = tb.operand(t["cond"], at_end)
                f = G.cond_fact(ct, bool(t["expected"]))
                facts = A.g.facts_at(bb)
                if f[0] == "const" and f[1]:
                    s.status, s.how = "discharged", "R1 constant non-zero divisor"
                elif f[0] == "cmp" and G.entails(facts, f) is not None:
                    s.status, s.how = "discharged", "divisor non-zero by facts"
                else:
                    s.status, s.how = "open", "divisor is a stored value (panics in every profile): %s" % G.show(f)
                out.append(s)
            elif msg == "BoundsCheck":
                s = Site(inst, bb, "bounds", msg, tuple(ops), t.get("span", ""))
                facts = A.g.facts_at(bb)
                j = G.entails(facts, ("cmp", "Lt", ops[1], ops[0])) if len(ops) == 2 else None
                if j is not None:
                    s.status, s.how = "discharged", "index < len"
                else:
                    s.status, s.how = "open", "index not bounded by a fact"
                out.append(s)
            else:
                s = Site(inst, bb, "assert", msg, tuple(ops), t.get("span", ""))
                s.status, s.how = "open", msg
                out.append(s)
        elif k == "call":
            fr = M.callee_of(t)
            if fr is None:
                s = Site(inst, bb, "indirect", "indirect call", (), t.get("span", ""))
                s.status, s.how = "open", "indirect call"
                out.append(s)
                continue
            r = fr.get("res")
            path = r["path"] if r else fr["path"]
            if r and r.get("repo"):
                continue
            if r and r.get("kind") == "virtual":
                continue   # resolved through vtable edges of the graph
            if path.startswith(DIVERGING_PREFIXES) or fr.get("diverges"):
                s = Site(inst, bb, "explicit", path.split("::")[-1], (), t.get("span", ""))
                # infeasible edge?
                how = infeasible(A, bb)
                s.macro = t.get("macro")
                s.status, s.how = ("discharged", how) if how else ("open", "explicit panic edge (%s)" % (t.get("macro") or path))
                out.append(s)
            elif path in ("core::iter::traits::iterator::Iterator::sum", "core::iter::traits::iterator::Iterator::product") or \
                    ("core::iter::traits::accum::" in path and path.endswith(("::sum", "::product"))):
                # integer Sum/Product are #[rustc_inherit_overflow_checks]: they panic on overflow exactly when the *calling* crate
                # is built with overflow checks - a profile-dependent operation like a bare `+`
                g_ = fr.get("gargs") or []
                if any(x in T.INT_BITS for x in g_):
                    s = Site(inst, bb, "overflow", "Sum" if path.endswith("sum") else "Product", tuple(tb.operand(a, at_end) for a in t["args"]), t.get("span", ""))
                    s.status, s.how = "open", "sum/product of integers: overflow panics with overflow checks and wraps without"
                    out.append(s)
                continue
            elif path in MAYPANIC:
                args = tuple(tb.operand(a, at_end) for a in t["args"])
                s = Site(inst, bb, "maypanic", MAYPANIC[path] or path.split("::")[-1], args, t.get("span", ""))
                how = discharge_maypanic(A, bb, path, args, t)
                s.status, s.how = ("discharged", how) if how else ("open", "%s may panic" % (MAYPANIC[path] or path))
                out.append(s)
            elif path.startswith(TOTAL_PREFIXES) or path.startswith(ALLOC_PREFIXES):
                if path == "core::slice::<impl [T]>::windows":
                    a = tb.operand(t["args"][1], at_end)
                    try:
                        la = G.lin(a)
                        if la.is_const():
                            a = ("c", la.c)         # e.g. the length of an array value
                    except Exception:
                        pass
                    if not (a[0] == "c" and a[1] > 0):
                        s = Site(inst, bb, "maypanic", "windows(0)", (a,), t.get("span", ""))
                        s.status, s.how = "open", "windows size not a positive constant"
                        out.append(s)
                continue
            else:
                why = graph_total(F, (r or {}).get("key"))
                if why is True:
                    continue    # no panic entry point, Assert terminator, opaque or indirect callee anywhere below it
                s = Site(inst, bb, "unknown", path, (), t.get("span", ""))
                s.status, s.how = "open", "callee %s is on neither the total nor the may-panic list and its instance graph is not panic-free (%s)" % (path, why)
                out.append(s)
        elif k == "asm":
            s = Site(inst, bb, "asm", "inline asm", (), t.get("span", ""))
            s.status, s.how = "open", "inline asm"
            out.append(s)
    return out


_GT = {}


def graph_total(F, key):
    """std callee outside the tables: True if nothing reachable from it in the instance graph can panic - no diverging
    entry point of core::panicking & co, no Assert terminator, no body-less (precompiled) or unresolved/indirect callee
    that is not itself on the total list.  Otherwise a short reason.  (Non-termination is not considered.)"""
    if key is None:
        return "unresolved"
    ck = (id(F), key)
    if ck in _GT:
        return _GT[ck]
    seen = set()
    st = [key]
    res = True
    while st:
        k = st.pop()
        if k in seen:
            continue
        seen.add(k)
        n = F.graph.get(k)
        if n is None:
            res = "no graph node for %s" % k[:80]
            break
        p = n.get("path", "")
        if p.startswith(DIVERGING_PREFIXES):
            res = "reaches %s" % p
            break
        if p in MAYPANIC:
            res = "reaches %s" % p
            break
        if p.startswith(TOTAL_PREFIXES) or n.get("kind") == "intrinsic" and not p.startswith(("core::intrinsics::abort", "core::intrinsics::unreachable", "core::intrinsics::assert_")):
            continue
        if n.get("nomir") or n.get("norm_error"):
            res = "opaque callee %s" % p
            break
        if n.get("asserts"):
            res = "%s has %d Assert terminator(s)" % (p, n["asserts"])
            break
        for e in n.get("edges", []):
            if "to" in e:
                st.append(e["to"])
            elif e.get("asm") or "indirect" in e or "unresolved" in e:
                res = "indirect/unresolved call in %s" % p
                break
        if res is not True:
            break
    _GT[ck] = res
    return res


def infeasible(A, bb):
    """the edge into diverging block bb cannot be taken: its own guard contradicts the other facts"""
    from . import chain as CH
    own, d = CH.nearest_branch_facts(A, bb)
    if not own or d is None:
        return None
    others = A.g.facts_at(d)
    for f in own:
        nf = G.negate(f)
        if nf[0] not in ("cmp", "const"):
            # a guard that only becomes a comparison / a constant in normal form (`ptr::eq(p, p)`)
            try:
                if G.N(f) == ("const", False):
                    return "edge infeasible: constant condition"
                nn_ = G.N(nf)
                if nn_[0] in ("cmp", "const"):
                    nf = nn_
            except Exception:
                pass
        if nf[0] == "cmp" and G.entails(others, nf) is not None:
            return "edge infeasible: %s contradicts %s" % (G.show(f), [G.show(x) for x in others][:4])
        if nf[0] == "const" and nf[1]:
            return "edge infeasible: constant condition"
    return None


def discharge_maypanic(A, bb, path, args, t):
    F = A.F
    a0 = G.strip(args[0]) if args else None
    if path.startswith("core::result::Result::<T, E>::unwrap") or path.startswith("core::result::Result::<T, E>::expect"):
        # try_into / try_from of a constant that fits
        if a0 and a0[0] == "call" and ("TryFrom" in str(a0[1]) or "try_from" in str(a0[1]) or "try_into" in str(a0[1])):
            inner = G.strip(a0[2][0]) if a0[2] else None
            if inner and inner[0] == "c":
                tgt = str(a0[1])
                for ty in ("u8", "u16", "u32", "u64", "usize"):
                    if ("for %s>" % ty) in tgt or ("<%s as" % ty) in tgt or ("Into<%s>" % ty) in tgt:
                        if 0 <= inner[1] <= type_max(ty):
                            return "R1 constant %d fits %s" % (inner[1], ty)
            # u32 -> usize on a 64-bit target
            if "TryFrom<u32>" in str(a0[1]) and "usize" in str(a0[1]):
                return "u32 -> usize is infallible on a 64-bit target"
            # a narrowing conversion of a value the facts bound by the target type's maximum
            tgt = str(a0[1])
            for ty in ("u8", "u16", "u32"):
                if inner is not None and (("for %s>" % ty) in tgt) and "TryFrom<usize>" in tgt or (inner is not None and ("for %s>" % ty) in tgt and "TryFrom<u64>" in tgt):
                    j_ = G.entails(A.g.facts_at(bb), ("cmp", "Le", a0[2][0], ("c", type_max(ty))))
                    if j_ is not None:
                        return "the converted value is at most %s::MAX by the facts at the site" % ty
        if a0 and a0[0] == "call" and "core::array::<impl core::convert::TryFrom<&[u8]> for [u8; " in str(a0[1]):
            n = int(str(a0[1]).split("for [u8; ")[1].split("]")[0])
            src = G.N(a0[2][0])
            # x.get(a..b) with constant b - a == N, reached through ok_or()? / unwrap
            if src[0] in ("try_ok", "unwrap"):
                src = src[1]
            # payload of the Some variant of x.get(a..b) (match / if let / `?` after INLINE)
            if src[0] == "fld" and src[2] == 0 and src[1][0] == "dc" and src[1][2] == 1:
                src = src[1][1]
            if src[0] == "call" and G.cn(src[1]) == "core::option::Option::ok_or":
                src = src[2][0]
            if src[0] == "sub" and len(src) == 4:
                # a half of split_at / a sub-slice with linear bounds
                try:
                    d_ = G.lin(a0[2][0][3] if G.strip(a0[2][0])[0] == "sub" else src[3]).add(G.lin(a0[2][0][2] if G.strip(a0[2][0])[0] == "sub" else src[2]), -1)
                    if d_.is_const() and d_.c == n:
                        return "the sub-slice has exactly %d bytes" % n
                except Exception:
                    pass
            if src[0] == "call" and G.cn(src[1]) == "core::slice::get":
                rg = src[2][1]
                if rg[0] == "aggr" and rg[1][1].endswith("::Range") and rg[2][0][0] == "c" and rg[2][1][0] == "c" and rg[2][1][1] - rg[2][0][1] == n:
                    return "slice.get(%d..%d) has exactly %d bytes" % (rg[2][0][1], rg[2][1][1], n)
                if rg[0] == "aggr" and rg[1][1].endswith("::Range"):
                    try:
                        d_ = G.lin(rg[2][1]).add(G.lin(rg[2][0]), -1)
                        if d_.is_const() and d_.c == n:
                            return "slice.get(a..a+%d) has exactly %d bytes" % (n, n)
                    except Exception:
                        pass
        if a0 and a0[0] == "call" and "Layout::from_size_align" in str(a0[1]):
            return None
    if path.startswith("core::option::Option::<T>::unwrap") or path.startswith("core::option::Option::<T>::expect"):
        if a0 and a0[0] == "checked":
            facts = A.g.facts_at(bb)
            if a0[1] == "Sub":
                j = G.entails(facts, ("cmp", "Ge", a0[2][0], a0[2][1]))
                if j is not None:
                    return "checked_sub cannot fail: %s" % [G.show(facts[i]) for i in j[1]]
    if path == "core::slice::<impl [T]>::split_at" and len(args) == 2:
        # panics iff mid > len
        facts = A.g.facts_at(bb)
        ln = ("len", G.strip(args[0]))
        if G.entails(facts, ("cmp", "Le", args[1], ln)) is not None:
            return "mid <= len by facts"
        # len % mid == 0 (so mid != 0) and len != 0  =>  len >= mid
        nf = [G.N(f) for f in facts]
        div = ("cmp", "Eq", ("bin", "Rem", G.N(ln), G.N(args[1])), ("c", 0))
        nonzero = any(f in (("cmp", "Ne", G.N(ln), ("c", 0)), ("cmp", "Gt", G.N(ln), ("c", 0))) for f in nf) or \
            G.entails(facts, ("cmp", "Gt", ln, ("c", 0))) is not None
        if div in nf and nonzero:
            return "len is a non-zero multiple of mid (type invariant of the cursor + emptiness test): mid <= len"
    if path == "core::slice::<impl [T]>::copy_from_slice" and len(args) == 2:
        # panics iff the two lengths differ
        try:
            d_ = G.lin(("len", G.strip(args[0]))).add(G.lin(("len", G.strip(args[1]))), -1)
            if d_.is_const() and d_.c == 0:
                return "both slices have the same length (%s)" % G.show(("len", args[0]))[:60]
        except Exception:
            pass
    if path == "core::slice::index::<impl core::ops::index::Index<I> for [T]>::index":
        # args: (slice, range)
        sl, rg = args[0], G.strip(args[1])
        facts = A.g.facts_at(bb)
        ln = ("len", sl)
        if rg[0] == "aggr" and rg[1][0] == "adt":
            nm = rg[1][1]
            ops = rg[2]
            need = []
            if nm.endswith("::Range"):
                need = [("cmp", "Le", ops[0], ops[1]), ("cmp", "Le", ops[1], ln)]
            elif nm.endswith("::RangeFrom"):
                need = [("cmp", "Le", ops[0], ln)]
            elif nm.endswith("::RangeTo"):
                e = G.strip(ops[0])
                if e[0] == "min" and (G.strip(e[1]) == ln or G.strip(e[2]) == ln):
                    return "range end is min(len, _)"
                need = [("cmp", "Le", ops[0], ln)]
            elif nm.endswith("::RangeFull"):
                return "full range"
            if need:
                js = [G.entails(facts, n) for n in need]
                if all(j is not None for j in js):
                    return "range within bounds by facts"
    return None
