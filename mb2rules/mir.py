"""CFG utilities over the JSON MIR emitted by mb2facts."""


class Body:
    def __init__(self, fn):
        self.fn = fn
        self.key = fn.get("key") or fn.get("path")
        self.span = fn.get("span", "?")
        b = fn["body"]
        self.argc = b["argc"]
        self.locals = b["locals"]
        self.blocks = b["blocks"]
        n = len(self.blocks)
        self.n = n
        self.cleanup = [bool(bb.get("cleanup")) for bb in self.blocks]
        self.succ = [[] for _ in range(n)]  # list of (target, label)
        for i, bb in enumerate(self.blocks):
            if self.cleanup[i]:
                continue
            t = bb["t"]
            k = t["k"]
            if k == "goto":
                self.succ[i].append((t["t"], ("goto",)))
            elif k == "switch":
                for v, tg in zip(t["vals"], t["ts"]):
                    self.succ[i].append((tg, ("sw", v)))
                self.succ[i].append((t["otherwise"], ("sw_other", tuple(t["vals"]))))
            elif k == "call":
                if t.get("t") is not None:
                    self.succ[i].append((t["t"], ("ret",)))
            elif k == "assert":
                self.succ[i].append((t["t"], ("assert_ok",)))
            elif k == "drop":
                self.succ[i].append((t["t"], ("goto",)))
        self.pred = [[] for _ in range(n)]
        self._compute_reach()
        for i in range(n):
            if i not in self.reachable:
                continue   # dead blocks (left behind by THREAD) define nothing that reaches anywhere
            for (tg, lab) in self.succ[i]:
                self.pred[tg].append((i, lab))
        self._compute_dom()
        self._compute_pdom()

    # ------------------------------------------------------------------
    def _compute_reach(self):
        seen = {0}
        st = [0]
        order = []
        while st:
            b = st.pop()
            order.append(b)
            for (t, _) in self.succ[b]:
                if t not in seen:
                    seen.add(t)
                    st.append(t)
        self.reachable = seen
        # reverse post order
        visited = set()
        post = []

        def dfs(u):
            stack = [(u, iter(self.succ[u]))]
            visited.add(u)
            while stack:
                node, it = stack[-1]
                adv = False
                for (t, _) in it:
                    if t not in visited:
                        visited.add(t)
                        stack.append((t, iter(self.succ[t])))
                        adv = True
                        break
                if not adv:
                    post.append(node)
                    stack.pop()
        dfs(0)
        self.rpo = list(reversed(post))

    def _compute_dom(self):
        rpo = self.rpo
        idx = {b: i for i, b in enumerate(rpo)}
        idom = {0: 0}
        changed = True
        while changed:
            changed = False
            for b in rpo[1:]:
                preds = [p for (p, _) in self.pred[b] if p in idom]
                if not preds:
                    continue
                new = preds[0]
                for p in preds[1:]:
                    a, c = p, new
                    while a != c:
                        while idx[a] > idx[c]:
                            a = idom[a]
                        while idx[c] > idx[a]:
                            c = idom[c]
                    new = a
                if idom.get(b) != new:
                    idom[b] = new
                    changed = True
        self.idom = idom

    def dominates(self, a, b):
        """a dominates b (reflexive)."""
        if b not in self.idom or a not in self.idom:
            return False
        while True:
            if a == b:
                return True
            if b == 0:
                return False
            b = self.idom[b]

    def _compute_pdom(self):
        # virtual exit = -1; exits = return blocks only (panics are terminal, not normal exits)
        exits = [i for i in self.reachable if self.blocks[i]["t"]["k"] == "return"]
        self.return_blocks = exits
        nodes = set(self.reachable)
        pd = {b: None for b in nodes}
        for e in exits:
            pd[e] = {e}
        allset = set(nodes)
        for b in nodes:
            if pd[b] is None:
                pd[b] = set(allset)
        changed = True
        while changed:
            changed = False
            for b in nodes:
                if b in exits:
                    continue
                ss = [t for (t, _) in self.succ[b]]
                if not ss:
                    new = {b}  # diverging block: post-dominated only by itself
                    # For "must pass through on the way to return" queries diverging
                    # successors must not weaken the meet, so they are skipped below.
                else:
                    live = [t for t in ss if self.can_return(t)]
                    if not live:
                        new = {b}
                    else:
                        new = set.intersection(*[pd[t] for t in live]) | {b}
                if new != pd[b]:
                    pd[b] = new
                    changed = True
        self.pdom = pd

    _can_ret = None

    def can_return(self, b):
        if self._can_ret is None:
            cr = set(i for i in self.reachable if self.blocks[i]["t"]["k"] == "return")
            changed = True
            while changed:
                changed = False
                for i in self.reachable:
                    if i not in cr and any(t in cr for (t, _) in self.succ[i]):
                        cr.add(i)
                        changed = True
            self._can_ret = cr
        return b in self._can_ret

    def postdominates(self, a, b):
        """every path from b to a *return* passes through a."""
        return a in self.pdom.get(b, ())

    def diverges(self, b):
        """No path from b reaches a return (panic / abort / loop forever)."""
        return not self.can_return(b)

    def back_edges(self):
        out = []
        for b in self.reachable:
            for (t, _) in self.succ[b]:
                if self.dominates(t, b):
                    out.append((b, t))
        return out

    def loop_blocks(self, head, tail):
        """natural loop of back edge tail->head"""
        body = {head, tail}
        st = [tail]
        while st:
            x = st.pop()
            if x == head:
                continue
            for (p, _) in self.pred[x]:
                if p not in body:
                    body.add(p)
                    st.append(p)
        return body

    def term(self, b):
        return self.blocks[b]["t"]

    def stmts(self, b):
        return self.blocks[b]["s"]

    def local_ty(self, l):
        return self.locals[l]["ty"]

    def calls(self):
        """yield (bb, terminator) for call terminators in reachable non-cleanup blocks"""
        for b in sorted(self.reachable):
            t = self.blocks[b]["t"]
            if t["k"] == "call":
                yield b, t


def callee_of(t):
    """Return the fn-ref dict of a call terminator, or None for indirect calls."""
    f = t["f"]
    k = f.get("k") if f else None
    if k and "fn" in k:
        return k["fn"]
    if t.get("fdef"):
        return t["fdef"]     # callee held in a local of fn-item type (shim bodies spliced in by INLINE)
    return None


def callee_key(t):
    fr = callee_of(t)
    if fr is None:
        return None
    r = fr.get("res")
    return r["key"] if r else fr["pretty"]


def callee_path(t):
    """Resolved def path if resolvable, else the unresolved path."""
    fr = callee_of(t)
    if fr is None:
        return ""        # indirect call (function pointer / unresolved): no path; callers test substrings
    r = fr.get("res")
    return r["path"] if r else fr["path"]
