"""INLINE: make helper extraction transparent.

The rules name the functions they analyse as units (BytesRef::try_from, TagIter::next, cast, new_boxed, ...).  Those names
are the *inventory* (mb2rules/inventory.json: every non-closure function of the three crates on the tree the rules were
written against, identified by crate | impl self path | impl trait | item name - no generics, no positions).  A function
of the repository that is NOT in the inventory is a helper somebody introduced later; it is analysed by splicing its MIR
into every caller (locals and blocks renumbered, arguments assigned, `return` turned into an assignment to the call's
destination and a goto to the call's target).  After that pass the helper does not exist as an instance any more: its panic
edges, arithmetic and unsafe operations are sites of the caller and are decided with the caller's guards.

On the tree the inventory was generated from this pass is the identity."""
import copy
import json
import os
from . import thread
from . import lower

_INV = None
HERE = os.path.dirname(os.path.abspath(__file__))


def inv_id(fn):
    return "%s|%s|%s|%s" % (fn.get("crate"), fn.get("impl_self_path") or "", fn.get("impl_trait") or "", fn.get("name") if fn.get("impl_self_path") else fn.get("path"))


def inventory():
    global _INV
    if _INV is None:
        with open(os.path.join(HERE, "inventory.json")) as fh:
            _INV = set(json.load(fh)["functions"])
    return _INV


def is_helper(fn):
    if fn is not None and (fn.get("alias_partner") or fn.get("role_unit")):
        return False
    """a repo function the rules do not know as a unit"""
    if fn is None or fn.get("closure") or "{closure" in (fn.get("key") or fn.get("path") or ""):
        return False
    if fn.get("crate") not in ("multiboot2", "multiboot2_common", "multiboot2_header"):
        return False
    if "body" not in fn or fn["body"] is None:
        return False
    return inv_id(fn) not in inventory()


# std items that are spliced into their callers (their MIR comes from the compiler, not from a hand-written summary).
# unwrap/expect stay calls: they are panic sites of the PANIC census, decided there.
STD_TRANSPARENT = (
    "core::option::Option::<T>::map", "core::option::Option::<T>::map_or", "core::option::Option::<T>::map_or_else",
    "core::option::Option::<T>::ok_or", "core::option::Option::<T>::ok_or_else", "core::option::Option::<T>::and_then",
    "core::option::Option::<T>::or_else", "core::option::Option::<T>::unwrap_or", "core::option::Option::<T>::unwrap_or_else",
    "core::option::Option::<T>::unwrap_or_default",
    "core::option::Option::<T>::is_some", "core::option::Option::<T>::is_none", "core::option::Option::<T>::as_ref",
    "core::option::Option::<T>::as_deref",
    "core::option::Option::<T>::filter", "core::option::Option::<T>::ok_or",
    "core::option::Option::<T>::is_some_and",
    "core::result::Result::<T, E>::map", "core::result::Result::<T, E>::map_err", "core::result::Result::<T, E>::and_then",
    "core::result::Result::<T, E>::or_else", "core::result::Result::<T, E>::ok", "core::result::Result::<T, E>::err",
    "core::result::Result::<T, E>::is_ok", "core::result::Result::<T, E>::is_err", "core::result::Result::<T, E>::unwrap_or",
    "core::result::Result::<T, E>::unwrap_or_else", "core::result::Result::<T, E>::map_or", "core::result::Result::<T, E>::map_or_else",
    "core::bool::<impl bool>::then", "core::bool::<impl bool>::then_some",
    "core::cmp::PartialEq::ne",
    "<T as core::convert::Into<U>>::into", "<T as core::convert::TryInto<U>>::try_into", "<T as core::convert::From<T>>::from",
    "<I as core::iter::traits::collect::IntoIterator>::into_iter", "core::iter::traits::iterator::Iterator::by_ref",
)
STD_TRANSPARENT_PREFIX = (
    "<core::option::Option<T> as core::ops::try_trait::",
    "<core::result::Result<T, E> as core::ops::try_trait::",
    "<core::result::Result<T, F> as core::ops::try_trait::",
    "<core::ops::control_flow::ControlFlow<B, C> as core::ops::try_trait::",
)


def is_transparent(fn):
    """callee whose body is analysed as part of its caller"""
    if fn is None or not fn.get("body"):
        return False
    if fn.get("std"):
        if fn.get("inst_kind") == "shim":
            return True
        p = fn.get("path") or ""
        return p in STD_TRANSPARENT or p.startswith(STD_TRANSPARENT_PREFIX)
    if fn.get("closure") or (fn.get("def_kind") or "").startswith("Ctor"):
        return fn.get("crate") in ("multiboot2", "multiboot2_common", "multiboot2_header")
    return is_helper(fn)


def _ren(x, lo, bo):
    """deep copy of a MIR json fragment with locals shifted by lo (block targets are fixed up by the caller)"""
    if isinstance(x, dict):
        out = {}
        for k, v in x.items():
            if (k == "l" or k == "idx") and isinstance(v, int) and not isinstance(v, bool):
                out[k] = v + lo
            else:
                out[k] = _ren(v, lo, bo)
        return out
    if isinstance(x, list):
        return [_ren(v, lo, bo) for v in x]
    return x


import re as _re


def _subst_types(x, m):
    """rename whole-word type parameter names inside every string of a MIR json fragment (simultaneous substitution)"""
    pat = _re.compile(r"(?<![A-Za-z0-9_])(%s)(?![A-Za-z0-9_])" % "|".join(_re.escape(k) for k in sorted(m, key=len, reverse=True)))

    def go(v):
        if isinstance(v, str):
            return pat.sub(lambda mm: m[mm.group(1)], v)
        if isinstance(v, dict):
            # a callee's definition path (`<impl *const T>::cast`) names the parameters of *its* definition, not the spliced function's
            return {k: (w if k == "path" and isinstance(w, str) else go(w)) for k, w in v.items()}
        if isinstance(v, list):
            return [go(w) for w in v]
        return v
    return go(x)


def _shift_targets(t, bo):
    k = t["k"]
    if k == "goto":
        t["t"] += bo
    elif k == "switch":
        t["ts"] = [x + bo for x in t["ts"]]
        t["otherwise"] += bo
    elif k in ("call", "assert", "drop"):
        if t.get("t") is not None:
            t["t"] += bo
    if isinstance(t.get("unwind"), int) and not isinstance(t.get("unwind"), bool):
        t["unwind"] += bo


def _callee_key(t):
    f = t.get("f") or {}
    k = f.get("k")
    if not k or "fn" not in k:
        if t.get("fdef"):
            fr = t["fdef"]
            r = fr.get("res")
            return (r["key"] if r else None), fr
        return None, None
    fr = k["fn"]
    r = fr.get("res")
    return (r["key"] if r else None), fr


class Inliner:
    def __init__(self, table, lookup, max_depth=8, policy=None, poly=False):
        self.poly = poly
        """table: key -> fn dict (with body); lookup(call terminator) -> callee fn dict or None"""
        self.table = table
        self.lookup = lookup
        self.policy = policy or is_transparent
        self.max_depth = max_depth
        self.done = {}
        self.inlined_into = {}   # caller key -> [helper keys]
        self.lowered = {}        # caller key -> [closure keys spliced by LOWER]
        self.helpers = set()

    def body_of(self, key, stack=()):
        if key in self.done:
            return self.done[key]
        fn = self.table[key]
        body = copy.deepcopy(fn["body"])
        if len(stack) < self.max_depth:
            self._run(key, body, stack + (key,))
        self.done[key] = body
        return body

    def _closure_of(self, key):
        """closure lookup for LOWER: the caller's own closure instance (monomorphic tables are keyed by instance), or the
        closure's polymorphic body (tables keyed otherwise: looked up by path)"""
        caller = self.table.get(key) or {}
        ck, cp = caller.get("key"), caller.get("path")

        def look(defpath):
            if ck and cp and defpath.startswith(cp):
                c = self.table.get(ck + defpath[len(cp):])
                if c is not None and c.get("closure"):
                    return c
            if self.poly:
                cs = [c for c in self.table.values() if c.get("path") == defpath and c.get("closure")]
                if len(cs) == 1:
                    return cs[0]
            return None
        return look

    def _run(self, key, body, stack):
        blocks = body["blocks"]
        if len(stack) <= 2:
            low = lower.lower_iter_calls(body, self._closure_of(key)) + lower.lower_from_fn_find(body, self._closure_of(key))
            if low:
                self.inlined_into.setdefault(key, []).extend(low)
                self.lowered.setdefault(key, []).extend(low)
        i = 0
        while i < len(blocks):
            bb = blocks[i]
            t = bb["t"]
            if t["k"] == "call" and not bb.get("cleanup"):
                cal = self.lookup(t)
                ck = cal.get("key") or cal.get("path") if cal is not None else None
                if cal is not None and ck not in stack and self.table.get(ck) is not None and self.policy(cal):
                    cbody = self.body_of(ck, stack)
                    if self._splice(body, i, t, cbody, ck, cal):
                        self.inlined_into.setdefault(key, []).append(ck)
                        self.helpers.add(ck)
                        # the block now ends in a goto; continue with the next block (spliced blocks are already inlined)
            i += 1

    @staticmethod
    def _operand_ty(body, op):
        pl = op.get("c") or op.get("m")
        if pl is None:
            return (op.get("k") or {}).get("ty")
        p = pl.get("p") or []
        if not p:
            return body["locals"][pl["l"]]["ty"]
        last = p[-1]
        return last.get("ty") if isinstance(last, dict) else None

    def _splice(self, body, bi, t, cbody, ck, cal=None):
        if self.poly and cal is not None and cal.get("gparams"):
            # polymorphic splice: rename the callee's type parameters to the caller's types at this call site
            _, fr = _callee_key(t)
            ga = (fr or {}).get("gargs") or []
            gp = cal["gparams"]
            if len(ga) == len(gp) and any(a != p for a, p in zip(ga, gp)):
                cbody = _subst_types(cbody, dict(zip(gp, ga)))
        argc = cbody["argc"]
        args = list(t["args"])
        # closures are called with (env, (a, b, ..)) but their bodies take (env, a, b, ..)
        if cal is not None and cal.get("closure") and len(args) == 2 and not (
                argc == 2 and self._operand_ty(body, args[1]) == cbody["locals"][2]["ty"]):
            tup = args[1]
            pl = tup.get("c") or tup.get("m")
            if pl is None:
                if argc != 1:
                    return False
                args = [args[0]]
            else:
                mode = "m" if "m" in tup else "c"
                args = [args[0]] + [{mode: {"l": pl["l"], "p": list(pl.get("p") or []) + [{"f": i, "ty": cbody["locals"][2 + i]["ty"]}]}} for i in range(argc - 1)]
        if len(args) != argc:
            return False
        lo = len(body["locals"])
        bo = len(body["blocks"])
        for l in cbody["locals"]:
            nl = dict(l)
            nl["inl"] = ck
            body["locals"].append(nl)
        span = t.get("span", "")
        bb = body["blocks"][bi]
        for ai, a in enumerate(args):
            bb["s"].append({"k": "assign", "lhs": {"l": lo + 1 + ai}, "rv": {"k": "use", "op": a}, "span": span, "inl_arg": ck})
        dest, target = t["dest"], t.get("t")
        bb["t"] = {"k": "goto", "t": bo, "span": span, "inl_call": ck}
        for cb in cbody["blocks"]:
            nb = _ren(cb, lo, bo)
            nt = nb["t"]
            if nt["k"] == "return":
                if target is None:
                    nb["t"] = {"k": "unreachable", "span": nt.get("span", span)}
                else:
                    nb["s"].append({"k": "assign", "lhs": copy.deepcopy(dest), "rv": {"k": "use", "op": {"m": {"l": lo}}}, "span": span, "inl_ret": ck})
                    nb["t"] = {"k": "goto", "t": target, "span": nt.get("span", span), "inl_ret": ck}
            else:
                _shift_targets(nt, bo)
            body["blocks"].append(nb)
        return True


def _edges_of_body(body):
    out = []
    for bi, bb in enumerate(body["blocks"]):
        if bb.get("cleanup"):
            continue
        t = bb["t"]
        if t["k"] in ("call", "tailcall"):
            k, fr = _callee_key(t)
            if k is not None:
                out.append({"bb": bi, "to": k, "why": "call"})
            elif fr is not None:
                out.append({"bb": bi, "unresolved": fr.get("pretty")})
            else:
                out.append({"bb": bi, "indirect": True})
    return out


def apply_to_facts(F):
    """rewrite F.insts / F.fns / F.graph in place; returns a report dict"""
    report = {"helpers": [], "callers": {}}
    thread.set_enum_table(F)
    # a helper that an anchor function forwards to (terms.ALIAS_ANCHORS) stays a unit: its calls are written as calls of the anchor
    from . import terms as T_
    partners = set(T_.call_aliases(F).keys())
    for pk in partners:
        if pk in F.insts:
            F.insts[pk] = dict(F.insts[pk], alias_partner=True)
    partner_paths = {F.insts[pk].get("path") for pk in partners if pk in F.insts}
    for k_, v_ in list(F.fns.items()):
        if v_.get("path") in partner_paths:
            F.fns[k_] = dict(v_, alias_partner=True)
    # a function recognised by its role (roles.py) is a unit whatever it is called
    from . import roles as R_
    for rk in R_.units(F):
        F.insts[rk] = dict(F.insts[rk], role_unit=True)
        rp = F.insts[rk].get("path")
        for k_, v_ in list(F.fns.items()):
            if v_.get("path") == rp:
                F.fns[k_] = dict(v_, role_unit=True)
    table = dict(F.std_insts)
    table.update(F.insts)

    def lookup_inst(t):
        k, fr = _callee_key(t)
        if k is None:
            return None
        return table.get(k)
    inl = Inliner(table, lookup_inst)
    changed = []
    for k in list(F.insts):
        v = F.insts[k]
        if is_helper(v) and not v.get("eff_pub"):
            continue
        nb = inl.body_of(k)
        if k in inl.inlined_into:
            nb = copy.deepcopy(nb)
            lower.forward_local_refs(nb)
            n_thr = thread.normalize(nb)
            F.insts[k] = dict(v, body=nb, inlined=sorted(set(inl.inlined_into[k])), threaded=n_thr)
            changed.append(k)
    gone = set(k for k, v in F.insts.items() if is_helper(v) and not v.get("eff_pub"))
    # a helper that is still referenced after the splice - through a vtable, a function pointer, a call that was not
    # spliced (recursion, depth limit) - is NOT gone: it stays an instance of its own and is analysed as such
    def referenced():
        ref = set()
        for k, n in F.graph.items():
            if k in gone:
                continue
            edges = _edges_of_body(F.insts[k]["body"]) + noncall(k, {k}) if k in changed_set else n.get("edges", [])
            for e in edges:
                if e.get("to") in gone:
                    ref.add(e["to"])
        return ref
    changed_set = set(changed)
    # graph: edges of a rewritten instance = calls of its new body + the non-call edges (drop glue, vtables, reified fns)
    # of itself and of everything spliced into it
    def noncall(k, seen):
        out = []
        for e in (F.graph.get(k) or {}).get("edges", []):
            if e.get("why") not in (None, "call"):
                out.append(e)
        for c in inl.inlined_into.get(k, []):
            if c not in seen:
                seen.add(c)
                out += noncall(c, seen)
        return out
    for k in changed:
        n = F.graph.get(k)
        if n is None:
            continue
        F.graph[k] = dict(n, edges=_edges_of_body(F.insts[k]["body"]) + noncall(k, {k}))
    while True:
        still = referenced()
        if not still:
            break
        for k in still:
            gone.discard(k)
            v = F.insts[k]
            nb = inl.body_of(k)
            if k in inl.inlined_into:
                nb = copy.deepcopy(nb)
                lower.forward_local_refs(nb)
                thread.normalize(nb)
                F.insts[k] = dict(v, body=nb, inlined=sorted(set(inl.inlined_into[k])))
                changed_set.add(k)
                n = F.graph.get(k)
                if n is not None:
                    F.graph[k] = dict(n, edges=_edges_of_body(nb) + noncall(k, {k}))
        report.setdefault("kept_helpers", []).extend(sorted(still))
    for k in gone:
        F.helper_insts[k] = F.insts.pop(k)
        F.graph.pop(k, None)
    report["helpers"] = sorted(gone)
    report["rewritten"] = len(changed)
    report["spliced"] = sorted({c for v in inl.inlined_into.values() for c in v if c in gone})
    # ---- polymorphic bodies (used by the rules that argue once for every instantiation): helpers only
    by_path = {}
    for k, v in F.fns.items():
        by_path.setdefault(v.get("path") or k, k)

    def lookup_fn(t):
        k, fr = _callee_key(t)
        if fr is None:
            return None
        r = fr.get("res") or {}
        # a std combinator called at fully concrete types inside a polymorphic body (`find_tag(T::ID)?` on an
        # `Option<&DynSizedStructure<TagHeader>>`): its monomorphic MIR is the one the driver emitted for that very instance
        if k is not None and k in F.std_insts and is_transparent(F.std_insts[k]):
            return F.std_insts[k]
        p = r.get("path") or fr.get("path")
        kk = by_path.get(p)
        return F.fns.get(kk) if kk else None
    poly_helpers = [k for k, v in F.fns.items() if is_helper(v)]
    if True:
        table2 = dict(F.std_insts)
        table2.update(F.fns)
        inl2 = Inliner(table2, lookup_fn, policy=lambda fn: is_helper(fn) or bool(fn.get("std") and is_transparent(fn)), poly=True)
        for k in list(F.fns):
            if is_helper(F.fns[k]):
                continue
            nb = inl2.body_of(k)
            if k in inl2.inlined_into:
                nb = copy.deepcopy(nb)
                lower.forward_local_refs(nb)
                thread.normalize(nb)
                F.fns[k] = dict(F.fns[k], body=nb, inlined=sorted(set(inl2.inlined_into[k])))
        report["poly_helpers"] = sorted(poly_helpers)
    return report


def owners_of(F, f):
    """for a polymorphic function entry f: if it is a helper (not in the inventory), the inventory functions it was spliced
    into - the units its code belongs to after INLINE; otherwise [f].  Used by who-constructs censuses over F.fns."""
    if not is_helper(f):
        return [f]
    me = f.get("path")
    return [v for k, v in F.fns.items() if not is_helper(v) and me in (v.get("inlined") or [])]


def constructors_of(F, adt, allowed_names):
    """who-constructs census over the polymorphic bodies: functions with an aggregate of `adt`; a closure counts as its enclosing
    function, a helper (not a unit of its own) as the units it is spliced into -> (construction sites, offending paths)"""
    ctors = []
    for k_, f_ in F.fns.items():
        for bb_ in f_["body"]["blocks"]:
            if bb_.get("cleanup"):
                continue
            for st_ in bb_["s"]:
                if st_["k"] == "assign" and st_["rv"]["k"] == "aggr" and st_["rv"].get("adt") == adt:
                    ctors.append(f_)
    by_path = {}
    for k_, v_ in F.fns.items():
        by_path.setdefault(v_.get("path") or k_, v_)
    bad = set()
    for f_ in ctors:
        g_ = f_
        p_ = str(g_.get("path") or "")
        while "::{closure" in p_:
            p_ = p_[:p_.rindex("::{closure")]
            g_ = by_path.get(p_, g_)
            if g_.get("path") != p_:
                break
        owners = owners_of(F, g_) if not g_.get("closure") else []
        # a helper spliced into a closure belongs to the closure's enclosing function
        up = []
        for o_ in owners:
            po_ = str(o_.get("path") or "")
            while "::{closure" in po_:
                po_ = po_[:po_.rindex("::{closure")]
            up.append(by_path.get(po_, o_) if po_ != str(o_.get("path") or "") else o_)
        owners = up
        if not owners:
            bad.add(str(f_.get("path")))
        for o_ in owners:
            if not (o_.get("name") in allowed_names or o_.get("derived")):
                bad.add(str(f_.get("path")) if o_ is f_ else "%s (in %s)" % (f_.get("path"), o_.get("path")))
    return ctors, sorted(bad)
