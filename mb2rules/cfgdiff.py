"""CFGDIFF: span-free structural hashes of function bodies, compared across build configurations."""
import hashlib
import json

DROP = {"span", "fn_span", "exp", "macro", "n"}


def scrub(x):
    if isinstance(x, dict):
        return {k: scrub(v) for k, v in x.items() if k not in DROP}
    if isinstance(x, list):
        return [scrub(v) for v in x]
    if isinstance(x, str):
        # closure types print their source position
        import re
        return re.sub(r"\{closure@[^}]*\}", "{closure}", x)
    return x


def body_hash(fn):
    s = json.dumps(scrub(fn["body"]), sort_keys=True, separators=(",", ":"))
    return hashlib.sha256(s.encode()).hexdigest()[:16]


def table(F):
    return {k: body_hash(f) for k, f in F.fns.items() if "test_utils" not in k}


def diff(Fa, Fb):
    """(only_in_a, only_in_b, differing) over polymorphic function keys"""
    ta, tb = table(Fa), table(Fb)
    only_a = sorted(set(ta) - set(tb))
    only_b = sorted(set(tb) - set(ta))
    differing = sorted(k for k in set(ta) & set(tb) if ta[k] != tb[k])
    return only_a, only_b, differing, len(set(ta) & set(tb))
