"""CFGDIFF: span-free structural hashes of function bodies, compared across build configurations."""
import hashlib
import json

DROP = {"span", "fn_span", "exp", "macro", "n"}


def scrub(x):
    if isinstance(x, dict):
        return {k: scrub(v) for k, v in x.items() if k not in DROP}
    if isinstance(x, list):
        return [scrub(v) for v in x]
    if isinstance(x, str):
        # closure types print their source position
        import re
        return re.sub(r"\{closure@[^}]*\}", "{closure}", x)
    return x


def body_hash(fn):
    s = json.dumps(scrub(fn["body"]), sort_keys=True, separators=(",", ":"))
    return hashlib.sha256(s.encode()).hexdigest()[:16]


def table(F):
    return {k: body_hash(f) for k, f in F.fns.items() if "test_utils" not in k}


def diff(Fa, Fb):
    """(only_in_a, only_in_b, differing) over polymorphic function keys"""
    ta, tb = table(Fa), table(Fb)
    only_a = sorted(set(ta) - set(tb))
    only_b = sorted(set(tb) - set(ta))
    differing = sorted(k for k in set(ta) & set(tb) if ta[k] != tb[k])
    return only_a, only_b, differing, len(set(ta) & set(tb))


# ---- differences that are only the value of `cfg!(debug_assertions)` ------------------------------------------------------------
def _scrub_bool_consts(x):
    if isinstance(x, dict):
        if set(x.keys()) >= {"ty", "v"} and x.get("ty") == "bool":
            return {"ty": "bool"}
        return {k: _scrub_bool_consts(v) for k, v in x.items() if k not in DROP}
    if isinstance(x, list):
        return [_scrub_bool_consts(v) for v in x]
    return scrub(x) if isinstance(x, str) else x


def _uses(x, acc):
    if isinstance(x, dict):
        if "l" in x and isinstance(x["l"], int):
            acc.add(x["l"])
        for v in x.values():
            _uses(v, acc)
    elif isinstance(x, list):
        for v in x:
            _uses(v, acc)


def _reach(blocks, start):
    seen, st = set(), [start]
    while st:
        b = st.pop()
        if b in seen or b is None:
            continue
        seen.add(b)
        t = blocks[b]["t"]
        k = t["k"]
        if k == "goto":
            st.append(t["t"])
        elif k == "switch":
            st += list(t["ts"]) + [t["otherwise"]]
        elif k in ("call", "assert", "drop"):
            st.append(t.get("t"))
    return seen


def debug_only_difference(fa, fd, is_pure_call):
    """fa / fd: the same function in the build without / with debug assertions.  True (with the set of blocks that only the debug
    build executes) if the two bodies are identical up to the value of boolean constants that are switched on in place - which is
    what `cfg!(debug_assertions)` (debug_assert!) compiles to - and the blocks only one of the builds executes have no effect
    other than on their own temporaries: what remains to be shown is that no panic in the debug-only blocks can fire."""
    ba, bd = fa["body"], fd["body"]
    if json.dumps(_scrub_bool_consts(ba), sort_keys=True) != json.dumps(_scrub_bool_consts(bd), sort_keys=True):
        return False, "bodies differ in more than boolean constants", set()
    A, D = ba["blocks"], bd["blocks"]
    only_d, only_a = set(), set()
    for i, (x, y) in enumerate(zip(A, D)):
        if json.dumps(scrub(x), sort_keys=True) == json.dumps(scrub(y), sort_keys=True):
            continue
        # the differing statements assign a boolean constant to a local the block then switches on
        t = y["t"]
        if t["k"] != "switch" or json.dumps(scrub(x["t"]), sort_keys=True) != json.dumps(scrub(t), sort_keys=True):
            return False, "block %d differs in its terminator" % i, set()
        dl = (t["d"].get("m") or t["d"].get("c") or {}).get("l")
        va = vd = None
        for sa, sd in zip(x["s"], y["s"]):
            if json.dumps(scrub(sa), sort_keys=True) == json.dumps(scrub(sd), sort_keys=True):
                continue
            ok = sa["k"] == "assign" and sd["k"] == "assign" and sa["lhs"] == sd["lhs"] and sa["lhs"].get("l") == dl and not sa["lhs"].get("p") and \
                sa["rv"]["k"] == "use" and sd["rv"]["k"] == "use" and "k" in sa["rv"]["op"] and "k" in sd["rv"]["op"]
            if not ok:
                return False, "block %d differs in a statement that is not the constant of its own switch" % i, set()
            va, vd = sa["rv"]["op"]["k"].get("v"), sd["rv"]["op"]["k"].get("v")
        if va is None or vd is None or va == vd:
            return False, "block %d: no differing constant found" % i, set()

        def target(v):
            tg = t["otherwise"]
            for val, b_ in zip(t["vals"], t["ts"]):
                if val == v:
                    tg = b_
            return tg
        ra, rd = _reach(D, target(va)), _reach(D, target(vd))
        only_d |= rd - ra
        only_a |= ra - rd
    # the blocks only one build executes: assignments to locals nobody else reads, pure calls, tests, diverging calls
    for region in (only_d, only_a):
        assigned = set()
        for b in region:
            for s_ in D[b]["s"]:
                if s_["k"] == "assign":
                    if s_["lhs"].get("p"):
                        return False, "block %d stores through a projection" % b, set()
                    assigned.add(s_["lhs"]["l"])
                elif s_["k"] not in ("storagelive", "storagedead", "nop", "fakeread", "retag", "ascribe", "coverage", "constevalcounter"):
                    return False, "block %d has a `%s` statement" % (b, s_["k"]), set()
            t = D[b]["t"]
            if t["k"] == "call" and t.get("t") is not None:
                if not is_pure_call(t):
                    return False, "block %d calls something that is not known to be pure" % b, set()
                dl_ = (t.get("dest") or {})
                if dl_.get("p"):
                    return False, "block %d stores a call result through a projection" % b, set()
                assigned.add(dl_.get("l"))
            elif t["k"] == "drop":
                return False, "block %d drops a value" % b, set()
        read_elsewhere = set()
        for b, blk in enumerate(D):
            if b in region:
                continue
            for s_ in blk["s"]:
                if s_["k"] == "assign":
                    _uses(s_["rv"], read_elsewhere)
                    if s_["lhs"].get("p"):
                        _uses(s_["lhs"], read_elsewhere)
            tt = dict(blk["t"])
            tt.pop("dest", None)
            _uses(tt, read_elsewhere)
        unit = {i for i, l in enumerate(bd["locals"]) if l.get("ty") == "()"}
        leak = (assigned & read_elsewhere) - unit - {None}
        if leak:
            return False, "locals %s assigned in a one-build-only block are read outside it" % sorted(leak), set()
    return True, "identical up to cfg!(debug_assertions) constants; %d debug-only blocks without effects" % len(only_d), only_d
