"""LOWER: two behaviour-preserving MIR -> MIR rewrites that bring iterator-closure code to the loop form the rules read.

1. lower_iter_calls: `iter.for_each(|x| BODY)` and `iter.fold(init, |acc, x| BODY)` with a closure built in the same function
   become the loop they are by the std contract of Iterator::for_each / fold (call `next` until it answers None; run the
   closure once per item, in order; fold threads the accumulator):

       it = iter; [acc = init]
       loop { match Iterator::next(&mut it) { None => break, Some(x) => { [acc =] BODY(x) } } }
       [result = acc]

   The closure body is spliced with its captured variables substituted for the environment fields, so no closure object is
   left between the loop and the state it updates.  Nothing is lowered when the closure's environment is used other than by
   reading a captured field (the call is then left as it is, and rules that need the loop report UNRECOGNISED).

2. forward_local_refs: a reference local with a single definition `r = &[mut] PLACE` (PLACE = a local and field projections)
   and all of its copies / reborrows denote PLACE, so every `(*r).rest` is rewritten to `PLACE.rest`.  After INLINE / LOWER this
   is what a helper's or closure's `&mut local` parameter is; the rewrite makes loads and stores through it loads and stores
   of the local itself."""
import copy

FOR_EACH = "core::iter::traits::iterator::Iterator::for_each"
FOLD = "core::iter::traits::iterator::Iterator::fold"
ITER_TRAIT = "core::iter::traits::iterator::Iterator"


def _opl(op):
    return op.get("m") or op.get("c")


def _walk_places(x, fn):
    """call fn(place dict) for every place-like dict {l: int, p?: list} in a MIR json fragment (in place)"""
    if isinstance(x, dict):
        if isinstance(x.get("l"), int) and not isinstance(x.get("l"), bool) and set(x.keys()) <= {"l", "p"}:
            fn(x)
            for e in x.get("p") or []:
                if isinstance(e, dict):
                    _walk_places(e, fn)
            return
        for v in x.values():
            _walk_places(v, fn)
    elif isinstance(x, list):
        for v in x:
            _walk_places(v, fn)


def _ren(x, lo):
    if isinstance(x, dict):
        out = {}
        for k, v in x.items():
            if (k == "l" or k == "idx") and isinstance(v, int) and not isinstance(v, bool):
                out[k] = v + lo
            else:
                out[k] = _ren(v, lo)
        return out
    if isinstance(x, list):
        return [_ren(v, lo) for v in x]
    return x


def _shift_targets(t, bo):
    k = t["k"]
    if k == "goto":
        t["t"] += bo
    elif k == "switch":
        t["ts"] = [x + bo for x in t["ts"]]
        t["otherwise"] += bo
    elif k in ("call", "assert", "drop"):
        if t.get("t") is not None:
            t["t"] += bo
    if isinstance(t.get("unwind"), int) and not isinstance(t.get("unwind"), bool):
        t["unwind"] += bo


def _closure_def(body, local):
    """the unique `local = closure aggregate` statement, or None"""
    found = []
    for bb in body["blocks"]:
        for st in bb["s"]:
            if st["k"] == "assign" and st["lhs"]["l"] == local:
                found.append(st)
        t = bb["t"]
        if t["k"] == "call" and t["dest"]["l"] == local:
            found.append(None)
    if len(found) != 1 or found[0] is None or found[0]["lhs"].get("p"):
        return None
    rv = found[0]["rv"]
    if rv["k"] == "aggr" and rv.get("ak") == "closure":
        return rv
    return None


def _next_call(iter_ty, item_ty, ref_local, dest_local, target, span):
    key = "<%s as %s>::next" % (iter_ty, ITER_TRAIT)
    return {"k": "call",
            "f": {"k": {"ty": "for<'a> fn(&'a mut %s) -> core::option::Option<%s> {%s}" % (iter_ty, item_ty, key),
                        "fn": {"path": ITER_TRAIT + "::next", "crate": "core", "name": "next", "pretty": key, "gargs": [iter_ty], "unsafe": False,
                               "trait": ITER_TRAIT, "res": {"key": key, "path": key, "crate": "core", "repo": False, "kind": "item"}}}},
            "args": [{"m": {"l": ref_local}}], "dest": {"l": dest_local}, "t": target, "unwind": None, "fn_span": span, "span": span, "lowered": True}


def lower_iter_calls(body, closure_of):
    """closure_of(def path) -> closure fn dict (with body) or None.  Returns the list of closure keys spliced."""
    blocks = body["blocks"]
    done = []
    i = 0
    while i < len(blocks):
        bb = blocks[i]
        t = bb["t"]
        i += 1
        if t["k"] != "call" or bb.get("cleanup") or t.get("t") is None:
            continue
        fr = ((t.get("f") or {}).get("k") or {}).get("fn") or {}
        p = fr.get("path")
        if p not in (FOR_EACH, FOLD) or fr.get("trait") != ITER_TRAIT:
            continue
        fold = p == FOLD
        args = t["args"]
        if len(args) != (3 if fold else 2):
            continue
        itp, clp = _opl(args[0]), _opl(args[-1])
        if itp is None or clp is None or itp.get("p") or clp.get("p"):
            continue
        rv = _closure_def(body, clp["l"])
        if rv is None:
            continue
        cfn = closure_of(rv["def"])
        if cfn is None or not cfn.get("body"):
            continue
        cbody = cfn["body"]
        if cbody["argc"] != (3 if fold else 2):
            continue
        env_ty = cbody["locals"][1]["ty"]
        by_ref = env_ty.startswith("&")
        caps = rv["ops"]
        cap_pl = [_opl(o) for o in caps]
        # the environment may only be used to read a captured field
        ok = [True]

        def chk(pl):
            if pl["l"] != 1:
                return
            pr = pl.get("p") or []
            if by_ref:
                good = len(pr) >= 2 and pr[0] == "*" and isinstance(pr[1], dict) and "f" in pr[1]
                k = pr[1]["f"] if good else None
            else:
                good = len(pr) >= 1 and isinstance(pr[0], dict) and "f" in pr[0]
                k = pr[0]["f"] if good else None
            if not good or k >= len(cap_pl) or cap_pl[k] is None:
                ok[0] = False
        _walk_places(cbody["blocks"], chk)
        if not ok[0]:
            continue
        iter_ty = body["locals"][itp["l"]]["ty"]
        item_ty = cbody["locals"][3 if fold else 2]["ty"]
        span = t.get("span", "")
        L = body["locals"]
        it_l, r_l, n_l, d_l, x_l = len(L), len(L) + 1, len(L) + 2, len(L) + 3, len(L) + 4
        L += [{"ty": iter_ty, "mut": True, "low": "iter"}, {"ty": "&mut " + iter_ty, "mut": True, "low": "iter ref"},
              {"ty": "core::option::Option<%s>" % item_ty, "mut": True, "low": "next"}, {"ty": "isize", "mut": True, "low": "discr"},
              {"ty": item_ty, "mut": True, "low": "item"}]
        acc_l = None
        if fold:
            acc_l = len(L)
            L.append({"ty": cbody["locals"][2]["ty"], "mut": True, "low": "acc"})
        lo = len(L)
        for l in cbody["locals"]:
            nl = dict(l)
            nl["inl"] = cfn.get("key") or cfn.get("path")
            L.append(nl)
        Hd = len(blocks)
        S, BD, EX, UR, CB = Hd + 1, Hd + 2, Hd + 3, Hd + 4, Hd + 5
        bb["s"].append({"k": "assign", "lhs": {"l": it_l}, "rv": {"k": "use", "op": args[0]}, "span": span, "lowered": True})
        if fold:
            bb["s"].append({"k": "assign", "lhs": {"l": acc_l}, "rv": {"k": "use", "op": args[1]}, "span": span, "lowered": True})
        bb["t"] = {"k": "goto", "t": Hd, "span": span, "lowered": p}
        blocks.append({"s": [{"k": "assign", "lhs": {"l": r_l}, "rv": {"k": "ref", "bk": "mut", "pl": {"l": it_l}}, "span": span, "lowered": True}],
                       "t": _next_call(iter_ty, item_ty, r_l, n_l, S, span)})
        blocks.append({"s": [{"k": "assign", "lhs": {"l": d_l}, "rv": {"k": "discr", "pl": {"l": n_l}, "of": "core::option::Option<%s>" % item_ty}, "span": span, "lowered": True}],
                       "t": {"k": "switch", "d": {"m": {"l": d_l}}, "dty": "isize", "vals": [0, 1], "ts": [EX, BD], "otherwise": UR, "span": span, "lowered": True}})
        bd = [{"k": "assign", "lhs": {"l": x_l}, "rv": {"k": "use", "op": {"m": {"l": n_l, "p": [{"dc": 1, "n": "Some"}, {"f": 0, "n": "0", "ty": item_ty}]}}}, "span": span, "lowered": True}]
        if fold:
            bd.append({"k": "assign", "lhs": {"l": lo + 2}, "rv": {"k": "use", "op": {"m": {"l": acc_l}}}, "span": span, "lowered": True})
            bd.append({"k": "assign", "lhs": {"l": lo + 3}, "rv": {"k": "use", "op": {"m": {"l": x_l}}}, "span": span, "lowered": True})
        else:
            bd.append({"k": "assign", "lhs": {"l": lo + 2}, "rv": {"k": "use", "op": {"m": {"l": x_l}}}, "span": span, "lowered": True})
        blocks.append({"s": bd, "t": {"k": "goto", "t": CB, "span": span, "lowered": True}})
        ex = []
        if fold:
            ex.append({"k": "assign", "lhs": copy.deepcopy(t["dest"]), "rv": {"k": "use", "op": {"m": {"l": acc_l}}}, "span": span, "lowered": True})
        blocks.append({"s": ex, "t": {"k": "goto", "t": t["t"], "span": span, "lowered": True}})
        blocks.append({"s": [], "t": {"k": "unreachable", "span": span}})
        env = lo + 1

        def subst(pl):
            if pl["l"] != env:
                return
            pr = pl.get("p") or []
            k = pr[1]["f"] if by_ref else pr[0]["f"]
            rest = pr[2:] if by_ref else pr[1:]
            cp = cap_pl[k]
            pl["l"] = cp["l"]
            pl["p"] = list(cp.get("p") or []) + list(rest)
            if not pl["p"]:
                del pl["p"]
        for cb in cbody["blocks"]:
            nb = _ren(copy.deepcopy(cb), lo)
            _walk_places(nb, subst)
            nt = nb["t"]
            if nt["k"] == "return":
                if fold:
                    nb["s"].append({"k": "assign", "lhs": {"l": acc_l}, "rv": {"k": "use", "op": {"m": {"l": lo}}}, "span": span, "lowered": True})
                nb["t"] = {"k": "goto", "t": Hd, "span": nt.get("span", span), "lowered": True}
            else:
                _shift_targets(nt, CB)
            blocks.append(nb)
        done.append(cfn.get("key") or cfn.get("path"))
    return done


# ------------------------------------------------------------------------------------------------ from_fn(..).find(..)
FIND = "core::iter::traits::iterator::Iterator::find"
FROM_FN = "core::iter::sources::from_fn::from_fn"


def _single_def(body, local):
    """(block index, statement or call terminator) of the unique definition of a whole local, else None"""
    found = []
    for bi, bb in enumerate(body["blocks"]):
        for st in bb["s"]:
            if st["k"] == "assign" and st["lhs"]["l"] == local:
                found.append((bi, st))
        t = bb["t"]
        if t["k"] == "call" and (t.get("dest") or {}).get("l") == local:
            found.append((bi, t))
    if len(found) != 1 or found[0][1].get("lhs", found[0][1].get("dest")).get("p"):
        return None
    return found[0]


def _env_subst(cbody, caps, lo):
    """substitution of the closure environment's captured fields by the captured places (closure body locals shifted by lo);
    None if the environment is used other than by reading a captured field"""
    env_ty = cbody["locals"][1]["ty"]
    by_ref = env_ty.startswith("&")
    cap_pl = [_opl(o) for o in caps]
    ok = [True]

    def chk(pl):
        if pl["l"] != 1:
            return
        pr = pl.get("p") or []
        if by_ref:
            good = len(pr) >= 2 and pr[0] == "*" and isinstance(pr[1], dict) and "f" in pr[1]
            k = pr[1]["f"] if good else None
        else:
            good = len(pr) >= 1 and isinstance(pr[0], dict) and "f" in pr[0]
            k = pr[0]["f"] if good else None
        if not good or k >= len(cap_pl) or cap_pl[k] is None:
            ok[0] = False
    _walk_places(cbody["blocks"], chk)
    if not ok[0]:
        return None
    env = lo + 1

    def subst(pl):
        if pl["l"] != env:
            return
        pr = pl.get("p") or []
        k = pr[1]["f"] if by_ref else pr[0]["f"]
        rest = pr[2:] if by_ref else pr[1:]
        cp = cap_pl[k]
        pl["l"] = cp["l"]
        pl["p"] = list(cp.get("p") or []) + list(rest)
        if not pl["p"]:
            del pl["p"]
    return subst


def lower_from_fn_find(body, closure_of):
    """`core::iter::from_fn(F).find(P)` with both closures built in the same function is, by the std contracts of FromFn::next
    (= call F) and Iterator::find (= call next until it answers None or an item with P(&item); answer that item):

        loop { match F() { None => break None, Some(x) => if P(&x) { break Some(x) } } }

    Both closure bodies are spliced with their captured variables substituted for the environment fields."""
    blocks = body["blocks"]
    done = []
    for bi in range(len(blocks)):
        bb = blocks[bi]
        t = bb["t"]
        if t["k"] != "call" or bb.get("cleanup") or t.get("t") is None:
            continue
        fr = ((t.get("f") or {}).get("k") or {}).get("fn") or {}
        if fr.get("path") != FIND or fr.get("trait") != ITER_TRAIT or len(t["args"]) != 2:
            continue
        rp, pp = _opl(t["args"][0]), _opl(t["args"][1])
        if rp is None or pp is None or rp.get("p") or pp.get("p") or t["dest"].get("p"):
            continue
        if not str(body["locals"][rp["l"]]["ty"]).startswith("&mut core::iter::sources::from_fn::FromFn<"):
            continue
        rd = _single_def(body, rp["l"])
        if rd is None or rd[1].get("k") != "assign" or rd[1]["rv"]["k"] != "ref" or rd[1]["rv"]["pl"].get("p"):
            continue
        it_l = rd[1]["rv"]["pl"]["l"]
        idf = _single_def(body, it_l)
        if idf is None or idf[1].get("k") != "call":
            continue
        ffr = ((idf[1].get("f") or {}).get("k") or {}).get("fn") or {}
        if ffr.get("path") != FROM_FN or len(idf[1]["args"]) != 1 or idf[1].get("t") is None:
            continue
        fp = _opl(idf[1]["args"][0])
        if fp is None or fp.get("p"):
            continue
        frv, prv = _closure_def(body, fp["l"]), _closure_def(body, pp["l"])
        if frv is None or prv is None:
            continue
        fcl, pcl = closure_of(frv["def"]), closure_of(prv["def"])
        if fcl is None or pcl is None or not fcl.get("body") or not pcl.get("body"):
            continue
        fb, pb = fcl["body"], pcl["body"]
        if fb["argc"] != 1 or pb["argc"] != 2:
            continue
        L = body["locals"]
        span = t.get("span", "")
        opt_ty = fb["locals"][0]["ty"]
        item_ty = body["locals"][t["dest"]["l"]]["ty"]
        if not (item_ty == opt_ty and opt_ty.startswith("core::option::Option<")):
            continue
        item_ty = opt_ty[len("core::option::Option<"):-1]
        d_l, x_l, rx_l = len(L), len(L) + 1, len(L) + 2
        L += [{"ty": "isize", "mut": True, "low": "discr"}, {"ty": item_ty, "mut": True, "low": "item"}, {"ty": "&" + item_ty, "mut": True, "low": "item ref"}]
        lo_f = len(L)
        for l in fb["locals"]:
            L.append(dict(l, inl=fcl.get("key") or fcl.get("path")))
        lo_p = len(L)
        for l in pb["locals"]:
            L.append(dict(l, inl=pcl.get("key") or pcl.get("path")))
        sf, sp = _env_subst(fb, frv["ops"], lo_f), _env_subst(pb, prv["ops"], lo_p)
        if sf is None or sp is None:
            del L[d_l:]
            continue
        after = t["t"]
        dest = copy.deepcopy(t["dest"])
        S = len(blocks)
        BD, NONE, FOUND, UR, TEST = S + 1, S + 2, S + 3, S + 4, S + 5
        FB = S + 6                       # first block of the spliced producer
        PB = FB + len(fb["blocks"])      # first block of the spliced predicate
        # the from_fn call disappears (its closure aggregate stays; the FromFn value is never used again)
        blocks[idf[0]]["t"] = {"k": "goto", "t": idf[1]["t"], "span": span, "lowered": FROM_FN}
        bb["t"] = {"k": "goto", "t": FB, "span": span, "lowered": FIND}
        opt = "core::option::Option"
        blocks.append({"s": [{"k": "assign", "lhs": {"l": d_l}, "rv": {"k": "discr", "pl": {"l": lo_f}, "of": opt_ty}, "span": span, "lowered": True}],
                       "t": {"k": "switch", "d": {"m": {"l": d_l}}, "dty": "isize", "vals": [0, 1], "ts": [NONE, BD], "otherwise": UR, "span": span, "lowered": True}})
        blocks.append({"s": [{"k": "assign", "lhs": {"l": x_l}, "rv": {"k": "use", "op": {"m": {"l": lo_f, "p": [{"dc": 1, "n": "Some"}, {"f": 0, "n": "0", "ty": item_ty}]}}}, "span": span, "lowered": True},
                             {"k": "assign", "lhs": {"l": rx_l}, "rv": {"k": "ref", "bk": "shared", "pl": {"l": x_l}}, "span": span, "lowered": True},
                             {"k": "assign", "lhs": {"l": lo_p + 2}, "rv": {"k": "use", "op": {"c": {"l": rx_l}}}, "span": span, "lowered": True}],
                       "t": {"k": "goto", "t": PB, "span": span, "lowered": True}})
        blocks.append({"s": [{"k": "assign", "lhs": copy.deepcopy(dest), "rv": {"k": "aggr", "ak": "adt", "adt": opt, "adt_name": "Option", "adt_crate": "core", "variant": "None",
                                                                                "variant_idx": 0, "fields": [], "ty": opt_ty, "ops": []}, "span": span, "lowered": True}],
                       "t": {"k": "goto", "t": after, "span": span, "lowered": True}})
        blocks.append({"s": [{"k": "assign", "lhs": copy.deepcopy(dest), "rv": {"k": "aggr", "ak": "adt", "adt": opt, "adt_name": "Option", "adt_crate": "core", "variant": "Some",
                                                                                "variant_idx": 1, "fields": ["0"], "ty": opt_ty, "ops": [{"m": {"l": x_l}}]}, "span": span, "lowered": True}],
                       "t": {"k": "goto", "t": after, "span": span, "lowered": True}})
        blocks.append({"s": [], "t": {"k": "unreachable", "span": span}})
        blocks.append({"s": [], "t": {"k": "switch", "d": {"m": {"l": lo_p}}, "dty": "bool", "vals": [0], "ts": [FB], "otherwise": FOUND, "span": span, "lowered": True}})
        for (cb_list, lo, base, sub, ret_to) in ((fb["blocks"], lo_f, FB, sf, S), (pb["blocks"], lo_p, PB, sp, TEST)):
            for cb in cb_list:
                nb = _ren(copy.deepcopy(cb), lo)
                _walk_places(nb, sub)
                nt = nb["t"]
                if nt["k"] == "return":
                    nb["t"] = {"k": "goto", "t": ret_to, "span": nt.get("span", span), "lowered": True}
                else:
                    _shift_targets(nt, base)
                blocks.append(nb)
        done += [fcl.get("key") or fcl.get("path"), pcl.get("key") or pcl.get("path")]
    return done


# --------------------------------------------------------------------------------------------------------- forwarding
_STD_CTORS = {"core::option::Option::Some": ("core::option::Option", "Option", "Some", 1),
              "core::result::Result::Ok": ("core::result::Result", "Result", "Ok", 0),
              "core::result::Result::Err": ("core::result::Result", "Result", "Err", 1)}


def lower_ctor_calls(body):
    """`x.map(Some)` leaves, after INLINE, a call of the tuple-variant constructor `Option::Some` as a function: it is the
    aggregate it constructs (same for `Ok` / `Err`)"""
    n = 0
    for bb in body["blocks"]:
        t = bb["t"]
        if t["k"] != "call":
            continue
        fd = t.get("fdef") or ((t.get("f") or {}).get("k") or {}).get("fn") or {}
        if not fd.get("ctor") or fd.get("path") not in _STD_CTORS or len(t.get("args", [])) != 1 or t.get("t") is None:
            continue
        adt, nm, var, idx = _STD_CTORS[fd["path"]]
        ty = body["locals"][t["dest"]["l"]]["ty"] if not t["dest"].get("p") else None
        bb["s"].append({"k": "assign", "lhs": t["dest"], "span": t.get("span", ""),
                        "rv": {"k": "aggr", "ak": "adt", "adt": adt, "adt_name": nm, "adt_crate": "core", "variant": var, "variant_idx": idx,
                               "fields": ["0"], "ty": ty, "ops": [t["args"][0]]}})
        bb["t"] = {"k": "goto", "t": t["t"], "span": t.get("span", "")}
        n += 1
    return n


def forward_local_refs(body):
    lower_ctor_calls(body)
    """rewrite (*r).rest -> PLACE.rest for reference locals r that can only denote PLACE; returns the number of places rewritten"""
    blocks = body["blocks"]
    argc = body["argc"]
    defs = {}
    for bi, bb in enumerate(blocks):
        for st in bb["s"]:
            if st["k"] in ("assign", "setdiscr") and not st["lhs"].get("p"):
                defs.setdefault(st["lhs"]["l"], []).append(st)
        t = bb["t"]
        if t["k"] == "call" and not t["dest"].get("p"):
            defs.setdefault(t["dest"]["l"], []).append(None)
    target = {}

    def pure(pl):
        return all(isinstance(e, dict) and "f" in e for e in (pl.get("p") or []))
    changed = True
    rounds = 0
    while changed and rounds < 10:
        changed = False
        rounds += 1
        for l, ds in defs.items():
            if l in target or l <= argc or len(ds) != 1 or ds[0] is None or ds[0]["k"] != "assign":
                continue
            rv = ds[0]["rv"]
            ty = body["locals"][l]["ty"]
            if not (ty.startswith("&") or ty.startswith("*")):
                continue
            tg = None
            if rv["k"] in ("ref", "rawptr"):
                pl = rv["pl"]
                pr = pl.get("p") or []
                if pure(pl) and pl["l"] != l:
                    tg = (pl["l"], list(pr))
                elif pr and pr[0] == "*" and pl["l"] in target and all(isinstance(e, dict) and "f" in e for e in pr[1:]):
                    bl, bp = target[pl["l"]]
                    tg = (bl, bp + list(pr[1:]))
            elif rv["k"] == "use":
                pl = _opl(rv["op"])
                if pl is not None and not pl.get("p") and pl["l"] in target:
                    tg = target[pl["l"]]
            if tg is not None:
                target[l] = tg
                changed = True
    if not target:
        return 0
    n = [0]

    def fw(pl):
        pr = pl.get("p") or []
        if pl["l"] in target and pr and pr[0] == "*":
            bl, bp = target[pl["l"]]
            pl["l"] = bl
            np_ = copy.deepcopy(bp) + list(pr[1:])
            if np_:
                pl["p"] = np_
            else:
                pl.pop("p", None)
            n[0] += 1
    for bb in blocks:
        if bb.get("cleanup"):
            continue
        for st in bb["s"]:
            if st["k"] in ("assign", "setdiscr"):
                rv = st.get("rv") or {}
                if rv.get("k") in ("ref", "rawptr") and (rv["pl"].get("p") or []) == ["*"]:
                    # a plain reborrow `&mut *r` stays a reborrow (it is a new name for the same reference, which the alias
                    # analysis of TERMS follows); only loads and stores through the reference are forwarded
                    _walk_places(st["lhs"], fw)
                    continue
                _walk_places(st, fw)
        _walk_places(bb["t"], fw)
    return n[0]
